//! C13 — environment history never changes results; handed-out diagrams stay valid; one shared
//! node per distinct sub-diagram; both leaves always present.
//!
//! Monitor: random histories of public operations on ONE long-lived environment. After every
//! operation the result is compared (==) with the same operation replayed in a FRESH environment
//! on operands rebuilt from their truth tables; periodically and at the end every earlier handle
//! is re-inspected (table + deep-copy snapshot) and the unique table is walked with Rc::ptr_eq.

use super::common::*;
use crate::conv::{build_in_env, check_interned, check_table, deep_copy, short, tt_of_bdd};
use crate::gen::{self, GenCfg, Style};
use crate::refsem;
use crate::refsyn;
use crate::report::{Ctx, Spec, Stats};
use crate::tt::Tt;
use crate::util::{self, guarded, mix, Rng};
use rsbdd::bdd::{BDDEnv, BDD};
use rsbdd::parser::ParsedFormula;
use rsbdd::{NamedSymbol, TruthTableEntry};
use serde_json::{json, Value};
use std::io::BufReader;
use std::rc::Rc;

#[derive(Debug, Clone, PartialEq)]
pub(crate) enum Op {
    Var(usize),
    Const(bool),
    Not(usize),
    Bin(&'static str, usize, usize),
    Ite(usize, usize, usize),
    Exists(Vec<usize>, usize),
    All(Vec<usize>, usize),
    ExistsImpl(usize, usize),
    CountConst(&'static str, Vec<usize>, i64),
    CountList(&'static str, Vec<usize>, Vec<usize>),
    /// fp(a, |r| or(and(r, c), b))
    Fp(usize, usize, usize),
    Model(usize),
    Infer(usize, usize),
    Retain(usize, u8),
    Clean(usize),
    /// mk_choice(t, label, f) — only with label below every label of t and f
    MkChoice(usize, usize, usize),
}

pub(crate) const BIN: [&str; 7] = ["and", "or", "xor", "nor", "nand", "implies", "eq"];

fn op_json(op: &Op) -> Value {
    json!(format!("{:?}", op))
}

fn filter_of(k: u8) -> TruthTableEntry {
    match k {
        0 => TruthTableEntry::True,
        1 => TruthTableEntry::False,
        _ => TruthTableEntry::Any,
    }
}

/// apply `op` in `env`, operands looked up by `get`
pub(crate) fn apply(env: &BDDEnv<usize>, op: &Op, get: &dyn Fn(usize) -> D) -> (Option<D>, Option<(bool, bool)>) {
    let list = |v: &Vec<usize>| -> Vec<D> { v.iter().map(|i| get(*i)).collect() };
    let r = match op {
        Op::Var(l) => env.var(*l),
        Op::Const(b) => env.mk_const(*b),
        Op::Not(a) => env.not(get(*a)),
        Op::Bin(k, a, b) => super::c03::apply_engine(env, k, &get(*a), &get(*b)),
        Op::Ite(a, b, c) => env.ite(get(*a), get(*b), get(*c)),
        Op::Exists(ls, a) => env.exists(ls.clone(), get(*a)),
        Op::All(ls, a) => env.all(ls.clone(), get(*a)),
        Op::ExistsImpl(l, a) => env.exists_impl(l, get(*a)),
        Op::CountConst(k, xs, n) => match *k {
            "aln" => env.aln(&list(xs), *n),
            "amn" => env.amn(&list(xs), *n),
            _ => env.exn(&list(xs), *n),
        },
        Op::CountList(k, xs, ys) => match *k {
            "leq" => env.count_leq(&list(xs), &list(ys)),
            "lt" => env.count_lt(&list(xs), &list(ys)),
            "geq" => env.count_geq(&list(xs), &list(ys)),
            "gt" => env.count_gt(&list(xs), &list(ys)),
            _ => env.count_eq(&list(xs), &list(ys)),
        },
        Op::Fp(a, b, c) => {
            let (b, c) = (get(*b), get(*c));
            env.fp(get(*a), |r| env.or(env.and(r, Rc::clone(&c)), Rc::clone(&b)))
        }
        Op::Model(a) => env.model(get(*a)),
        Op::Infer(a, l) => return (None, Some(env.infer(get(*a), *l))),
        Op::Retain(a, f) => env.retain_choice_bottom_up(get(*a), filter_of(*f)),
        Op::Clean(a) => env.clean(get(*a)),
        Op::MkChoice(t, l, f) => env.mk_choice(get(*t), *l, get(*f)),
    };
    (Some(r), None)
}

pub(crate) fn operands(op: &Op) -> Vec<usize> {
    match op {
        Op::Var(_) | Op::Const(_) => vec![],
        Op::Not(a) | Op::Model(a) | Op::Clean(a) | Op::Retain(a, _) | Op::Infer(a, _) | Op::ExistsImpl(_, a) | Op::Exists(_, a) | Op::All(_, a) => vec![*a],
        Op::Bin(_, a, b) => vec![*a, *b],
        Op::Ite(a, b, c) | Op::Fp(a, b, c) => vec![*a, *b, *c],
        Op::CountConst(_, xs, _) => xs.clone(),
        Op::CountList(_, xs, ys) => xs.iter().chain(ys.iter()).cloned().collect(),
        Op::MkChoice(t, _, f) => vec![*t, *f],
    }
}

struct Handle {
    d: D,
    table: Tt,
    snap: D,
    born: usize,
}

fn top_label(d: &D) -> Option<usize> {
    match d.as_ref() {
        BDD::Choice(_, s, _) => Some(*s),
        _ => None,
    }
}

fn gen_op(rng: &mut Rng, pool: &[Handle], labels: &[usize], step: usize) -> Op {
    // old handles preferred, to stress long-lived sharing
    let pick = |rng: &mut Rng| -> usize {
        if pool.len() > 25 && rng.chance(1, 2) {
            rng.usize(pool.len().saturating_sub(20).max(1))
        } else {
            rng.usize(pool.len())
        }
    };
    let _ = step;
    if pool.len() < 3 {
        return if rng.chance(3, 4) { Op::Var(*rng.pick(labels)) } else { Op::Const(rng.chance(1, 2)) };
    }
    match rng.below(100) {
        0..=5 => Op::Var(*rng.pick(labels)),
        6 => Op::Const(rng.chance(1, 2)),
        7..=13 => Op::Not(pick(rng)),
        14..=44 => {
            // xor / eq keep functions complex; the absorbing connectives drift towards constants
            let k = if rng.chance(1, 2) { if rng.chance(1, 2) { "xor" } else { "eq" } } else { BIN[rng.usize(BIN.len())] };
            Op::Bin(k, pick(rng), pick(rng))
        }
        45..=52 => Op::Ite(pick(rng), pick(rng), pick(rng)),
        53..=58 => Op::Exists((0..rng.usize(4)).map(|_| *rng.pick(labels)).collect(), pick(rng)),
        59..=63 => Op::All((0..rng.usize(4)).map(|_| *rng.pick(labels)).collect(), pick(rng)),
        64..=65 => Op::ExistsImpl(*rng.pick(labels), pick(rng)),
        66..=71 => {
            let len = rng.usize(4);
            let xs: Vec<usize> = (0..len).map(|_| pick(rng)).collect();
            Op::CountConst(["aln", "amn", "exn"][rng.usize(3)], xs, rng.range(-1, len as i64 + 1))
        }
        72..=76 => {
            let xs: Vec<usize> = (0..rng.usize(3)).map(|_| pick(rng)).collect();
            let ys: Vec<usize> = (0..rng.usize(3)).map(|_| pick(rng)).collect();
            Op::CountList(["leq", "lt", "geq", "gt", "eq"][rng.usize(5)], xs, ys)
        }
        77..=80 => Op::Fp(pick(rng), pick(rng), pick(rng)),
        81..=85 => Op::Model(pick(rng)),
        86..=88 => Op::Infer(pick(rng), *rng.pick(labels)),
        89..=92 => Op::Retain(pick(rng), rng.below(3) as u8),
        93..=95 => Op::Clean(pick(rng)),
        _ => {
            // mk_choice with order-respecting arguments
            for _ in 0..10 {
                let (t, f) = (pick(rng), pick(rng));
                let l = *rng.pick(labels);
                let ok = |d: &D| top_label(d).map(|x| l < x).unwrap_or(true);
                if ok(&pool[t].d) && ok(&pool[f].d) {
                    return Op::MkChoice(t, l, f);
                }
            }
            Op::Not(pick(rng))
        }
    }
}

fn inspect(st: &mut Stats, env: &BDDEnv<usize>, pool: &[Handle], labels: &[usize], step: usize, hist_id: u64, case: &dyn Fn() -> Value) -> bool {
    let n = labels.len() as u32;
    let idx = idx_fn(labels);
    let mut ok = true;
    for (i, h) in pool.iter().enumerate() {
        st.bump("handle_reinspections");
        if h.d.as_ref() != h.snap.as_ref() {
            st.violate("c13.handle-stable", "C13:handle:structure-changed".into(), format!("handle #{} (born at step {}) changed structure by step {}: now {} was {}", i, h.born, step, short(&h.d), short(&h.snap)), case());
            ok = false;
            continue;
        }
        match tt_of_bdd(&h.d, n, &idx) {
            Ok(t) if t == h.table => {}
            _ => {
                st.violate("c13.handle-stable", "C13:handle:function-changed".into(), format!("handle #{} (born at step {}) denotes another function at step {}", i, h.born, step), case());
                ok = false;
            }
        }
        match check_interned(env, &h.d) {
            Ok(k) => st.add("nodes_checked_for_sharing", k),
            Err(m) => {
                st.violate("c13.sharing", "C13:sharing:handle-not-shared".into(), format!("history {} step {}: handle #{} = {}: {}", hist_id, step, i, short(&h.d), m), case());
                ok = false;
            }
        }
    }
    match check_table(env) {
        Ok(k) => {
            st.add("table_entries_walked", k);
            st.max("max_table_size", k);
        }
        Err(m) => {
            st.violate("c13.table", "C13:table:invariant-broken".into(), format!("history {} step {}: {}", hist_id, step, m), case());
            ok = false;
        }
    }
    ok
}

fn run_history(st: &mut Stats, rng: &mut Rng, hist_id: u64, len: usize, replay_ops: Option<&[Op]>, labels: &[usize]) {
    let n = labels.len() as u32;
    let idx = idx_fn(labels);
    let vars = vars_of(labels);
    let env: BDDEnv<usize> = BDDEnv::new();
    let mut pool: Vec<Handle> = Vec::new();
    let mut ops_done: Vec<Op> = Vec::new();
    let mut old_reuse = 0u64;
    let mut total_operands = 0u64;
    let mut hist_hash = 0u64;
    let steps = replay_ops.map(|o| o.len()).unwrap_or(len);
    for step in 0..steps {
        let op = match replay_ops {
            Some(o) => o[step].clone(),
            None => gen_op(rng, &pool, labels, step),
        };
        if operands(&op).iter().any(|i| *i >= pool.len()) {
            break; // malformed replay
        }
        ops_done.push(op.clone());
        hist_hash = mix(hist_hash, util::hash_str(&format!("{:?}", op)));
        for o in operands(&op) {
            total_operands += 1;
            if step.saturating_sub(pool[o].born) > 20 {
                old_reuse += 1;
            }
        }
        st.evals += 1;
        st.bump(&format!("op_{}", format!("{:?}", op).split(|c| c == '(' || c == ' ').next().unwrap_or("?")));
        let case = || json!({"labels": labels_json(labels), "ops": ops_done.iter().map(op_json).collect::<Vec<_>>()});
        util::budget(100_000_000, 10_000);
        // (1) in the long-lived environment
        let main = guarded(|| apply(&env, &op, &|i| Rc::clone(&pool[i].d)));
        let (res, inf) = match main {
            Ok(x) => x,
            Err(c) => {
                st.violate("c13.panic", format!("C13:{}", c.signature()), format!("history {} step {}: {:?} in the long-lived environment: {:?}", hist_id, step, op, c), case());
                return;
            }
        };
        // (2) the same operation in a fresh environment, operands rebuilt canonically from their tables
        let fresh_env: BDDEnv<usize> = BDDEnv::new();
        let fresh = guarded(|| apply(&fresh_env, &op, &|i| build_in_env(&fresh_env, &pool[i].table, &vars)));
        let (fres, finf) = match fresh {
            Ok(x) => x,
            Err(c) => {
                // a panic here is not history dependence; it is some other property's business (C03/C12)
                st.bump(&format!("fresh_env_panics[{}](not judged here)", c.signature()));
                return;
            }
        };
        if inf != finf {
            st.violate("c13.history-independence", "C13:infer:differs-from-fresh".into(), format!("history {} step {}: {:?} answers {:?}, in a fresh environment {:?}", hist_id, step, op, inf, finf), case());
        }
        if let (Some(r), Some(fr)) = (res, fres) {
            if r.as_ref() != fr.as_ref() {
                st.violate(
                    "c13.history-independence",
                    "C13:result:differs-from-fresh".into(),
                    format!("history {} step {}: {:?}\n long-lived environment: {}\n fresh environment:      {}", hist_id, step, op, short(&r), short(&fr)),
                    case(),
                );
            }
            let table = match tt_of_bdd(&r, n, &idx) {
                Ok(t) => t,
                Err(e) => {
                    st.violate("c13.history-independence", "C13:result:foreign-variable".into(), e, case());
                    return;
                }
            };
            let snap = deep_copy(&r);
            // find() and clean() on a structural COPY of a result hand back the environment's own node
            if step % 7 == 3 {
                st.bump("find_and_clean_on_copies");
                let copy = deep_copy(&r);
                match guarded(|| (env.find(&copy), env.clean(Rc::clone(&copy)))) {
                    Ok((f, c)) => {
                        if !Rc::ptr_eq(&f, &r) || !Rc::ptr_eq(&c, &r) {
                            st.violate("c13.sharing", "C13:sharing:find-or-clean-returns-a-copy".into(), format!("history {} step {}: find / clean on a copy of the result {} return another node than the environment's (find: {}, clean: {})", hist_id, step, short(&r), Rc::ptr_eq(&f, &r), Rc::ptr_eq(&c, &r)), case());
                            return;
                        }
                    }
                    Err(c) => {
                        st.violate("c13.panic", format!("C13:find-clean:{}", c.signature()), format!("history {} step {}: find / clean on a copy of {}: {:?}", hist_id, step, short(&r), c), case());
                        return;
                    }
                }
            }
            pool.push(Handle { d: r, table, snap, born: step });
        }
        if (step + 1) % 40 == 0 || step + 1 == steps {
            st.bump("full_inspections");
            if !inspect(st, &env, &pool, labels, step, hist_id, &case) {
                return;
            }
        }
    }
    let table_size = env.size() as u64;
    st.max("max_history_length", steps as u64);
    if total_operands > 0 && old_reuse * 10 >= total_operands * 3 && table_size >= 50 {
        st.nt.insert(hist_hash);
    }
    if st.want_sample() {
        st.sample(json!({"history_id": hist_id, "length": steps, "table_size": table_size, "first_ops": ops_done.iter().take(12).map(op_json).collect::<Vec<_>>()}));
    }
}

/// Histories in which handles are DROPPED: after every operation some (sometimes all) earlier
/// handles are released, `clean` is called often, and the environment's own invariants (both
/// leaves present, table keys = values, children are table nodes) are walked after every step.
/// Each operation is still compared with a fresh-environment replay.
fn drop_heavy_job(ctx: &Ctx, job: usize, histories: u64) -> Stats {
    let mut st = Stats::new();
    for h in 0..histories {
        let id = 7_000_000_000 + job as u64 * 1_000_000 + h;
        let mut rng = Rng::stream(ctx.seed, "C13.drops", id);
        let labels = pick_labels(&mut rng, &LABEL_POOL, 4);
        let n = labels.len() as u32;
        let vars = vars_of(&labels);
        let idx = idx_fn(&labels);
        let env: BDDEnv<usize> = BDDEnv::new();
        // live handles with their tables; a handle that is dropped is really dropped (no snapshot keeps it)
        let mut live: Vec<(D, Tt)> = Vec::new();
        let mut log: Vec<String> = Vec::new();
        let steps = 10 + rng.usize(50);
        for step in 0..steps {
            // the pool the generator sees is rebuilt from the live handles
            let pool: Vec<Handle> = live.iter().map(|(d, t)| Handle { d: Rc::clone(d), table: t.clone(), snap: Rc::clone(d), born: 0 }).collect();
            let op = if !live.is_empty() && rng.chance(1, 4) { Op::Clean(rng.usize(live.len())) } else { gen_op(&mut rng, &pool, &labels, step) };
            drop(pool);
            if operands(&op).iter().any(|i| *i >= live.len()) {
                continue;
            }
            log.push(format!("{:?}", op));
            st.evals += 1;
            st.bump("drop_heavy_ops");
            let mk_case = |log: &Vec<String>| json!({"kind": "drop-heavy", "seed": ctx.seed, "job": job, "history": h, "labels": labels_json(&labels), "log": log});
            util::budget(50_000_000, 10_000);
            let main = guarded(|| apply(&env, &op, &|i| Rc::clone(&live[i].0)));
            let fresh_env: BDDEnv<usize> = BDDEnv::default();
            let fresh = guarded(|| apply(&fresh_env, &op, &|i| build_in_env(&fresh_env, &live[i].1, &vars)));
            match (main, fresh) {
                (Ok((Some(r), _)), Ok((Some(fr), _))) => {
                    if r.as_ref() != fr.as_ref() {
                        st.violate("c13.history-independence", "C13:result:differs-from-fresh".into(), format!("drop-heavy history: {:?} gives {} here, {} in a fresh environment\n log: {:?}", op, short(&r), short(&fr), log), mk_case(&log));
                        break;
                    }
                    if let Ok(t) = tt_of_bdd(&r, n, &idx) {
                        live.push((r, t));
                    }
                }
                (Ok(_), Ok(_)) => {}
                (Err(c), Ok(_)) => {
                    st.violate("c13.history-independence", format!("C13:{}:only-in-used-environment", c.signature()), format!("drop-heavy history: {:?} fails in the used environment ({:?}) but works in a fresh one\n log: {:?}", op, c, log), mk_case(&log));
                    break;
                }
                (_, Err(_)) => {
                    st.bump("fresh_env_panics(not judged here)");
                    break;
                }
            }
            // release handles: usually a few, sometimes everything but constants, sometimes everything
            match rng.below(10) {
                0 => {
                    live.clear();
                    log.push("drop all".into());
                    st.bump("all_handles_dropped");
                }
                1 => {
                    live.retain(|(_, t)| t.is_const());
                    log.push("drop all non-constants".into());
                    st.bump("all_non_constant_handles_dropped");
                }
                2..=5 => {
                    if !live.is_empty() {
                        let k = rng.usize(live.len());
                        live.swap_remove(k);
                        log.push(format!("drop #{}", k));
                    }
                }
                _ => {}
            }
            // the environment's invariants at this quiescent point
            match check_table(&env) {
                Ok(k) => st.add("table_entries_walked", k),
                Err(m) => {
                    st.violate("c13.table", "C13:table:invariant-broken".into(), format!("drop-heavy history step {}: {}\n log: {:?}", step, m, log), mk_case(&log));
                    break;
                }
            }
            for (d, t) in &live {
                if tt_of_bdd(d, n, &idx).ok().as_ref() != Some(t) {
                    st.violate("c13.handle-stable", "C13:handle:function-changed".into(), format!("drop-heavy history: a live handle changed its function\n log: {:?}", log), mk_case(&log));
                }
                if let Err(m) = check_interned(&env, d) {
                    st.violate("c13.sharing", "C13:sharing:handle-not-shared".into(), format!("drop-heavy history: {}\n log: {:?}", m, log), mk_case(&log));
                }
            }
        }
        st.bump("drop_heavy_histories");
    }
    st
}

/// One environment that grows LARGE (hundreds of thousands of distinct nodes): random functions
/// over 10-11 variables are interned one after the other; then the earliest handles are
/// re-inspected (still shared with the table, still the same function), old and new results are
/// combined, and a sample of table entries is walked. Catches anything that depends on the size or
/// age of the unique table (limits, resets, evictions).
fn big_table_job(ctx: &Ctx, functions: usize) -> Stats {
    let mut st = Stats::new();
    let mut rng = Rng::stream(ctx.seed, "C13.bigtable", 0);
    let nv = 10usize;
    let labels: Vec<usize> = (0..nv).map(|i| i * 3 + 1).collect();
    let vars = vars_of(&labels);
    let idx = idx_fn(&labels);
    let env: BDDEnv<usize> = BDDEnv::new();
    let mut handles: Vec<(D, Tt)> = Vec::new();
    let case = || json!({"kind": "big-table", "seed": ctx.seed, "functions": functions});
    util::budget(u64::MAX, 1000);
    let built = guarded(|| {
        let mut hs: Vec<(D, Tt)> = Vec::new();
        for _ in 0..functions {
            let t = random_table(&mut rng, nv as u32, 8);
            let d = build_in_env(&env, &t, &vars);
            hs.push((d, t));
        }
        hs
    });
    match built {
        Ok(hs) => handles = hs,
        Err(c) => st.violate("c13.panic", format!("C13:big-table:{}", c.signature()), format!("building {} functions in one environment: {:?}", functions, c), case()),
    }
    st.evals += handles.len() as u64;
    st.add("big_table_functions", handles.len() as u64);
    st.max("max_table_size", env.size() as u64);
    // the earliest and the latest handles
    let sample: Vec<usize> = (0..handles.len().min(40)).chain(handles.len().saturating_sub(10)..handles.len()).collect();
    for i in &sample {
        let (d, t) = &handles[*i];
        st.bump("handle_reinspections");
        if tt_of_bdd(d, nv as u32, &idx).ok().as_ref() != Some(t) {
            st.violate("c13.handle-stable", "C13:handle:function-changed".into(), format!("big environment ({} nodes): handle #{} denotes another function now", env.size(), i), case());
        }
        match guarded(|| check_interned(&env, d)) {
            Ok(Ok(k)) => st.add("nodes_checked_for_sharing", k),
            Ok(Err(m)) => {
                st.violate("c13.sharing", "C13:sharing:handle-not-shared".into(), format!("big environment ({} table entries after {} functions): handle #{}: {}", env.size(), handles.len(), i, m), case());
                break;
            }
            Err(c) => st.violate("c13.panic", format!("C13:big-table:{}", c.signature()), format!("{:?}", c), case()),
        }
    }
    // old and new results combined: must equal the fresh-environment result and be shared
    if handles.len() >= 2 {
        for k in 0..20usize.min(handles.len() / 2) {
            let (a, b) = (&handles[k], &handles[handles.len() - 1 - k]);
            let r = guarded(|| env.or(env.and(Rc::clone(&a.0), Rc::clone(&b.0)), env.and(env.not(Rc::clone(&a.0)), Rc::clone(&a.0))));
            let fresh: BDDEnv<usize> = BDDEnv::new();
            let want = build_in_env(&fresh, &a.1.and(&b.1), &vars);
            match r {
                Ok(r) => {
                    st.evals += 1;
                    if r.as_ref() != want.as_ref() {
                        st.violate("c13.history-independence", "C13:result:differs-from-fresh".into(), format!("big environment: and(old #{}, new) differs from the fresh-environment result", k), case());
                    } else if let Ok(Err(m)) = guarded(|| check_interned(&env, &r)) {
                        st.violate("c13.sharing", "C13:sharing:result-not-shared".into(), format!("big environment: and(old #{}, new): {}", k, m), case());
                        break;
                    }
                }
                Err(c) => st.violate("c13.panic", format!("C13:big-table:{}", c.signature()), format!("{:?}", c), case()),
            }
        }
    }
    if env.size() >= 50 {
        st.nt.insert(mix(0xb16, functions as u64));
    }
    st
}

fn usize_job(ctx: &Ctx, job: usize, histories: u64, maxlen: usize) -> Stats {
    let mut st = Stats::new();
    for h in 0..histories {
        let id = job as u64 * 1_000_000 + h;
        let mut rng = Rng::stream(ctx.seed, "C13.history", id);
        let nl = 5 + rng.usize(2);
        let labels = pick_labels(&mut rng, &LABEL_POOL, nl);
        let len = 100 + rng.usize(maxlen - 99);
        run_history(&mut st, &mut rng, id, len, None, &labels);
        st.bump("histories");
    }
    st
}

/// formulas sharing one NamedSymbol environment (one common ordering), interleaved re-evaluations
fn shared_env_job(ctx: &Ctx, job: usize, rounds: u64) -> Stats {
    let mut st = Stats::new();
    let mut rng = Rng::stream(ctx.seed, "C13.shared", job as u64);
    let names = ["va", "vb", "vc", "vd", "ve"];
    // the same variables (same ids) under other names: identity of a symbol is its id
    let rename = |t: &str| t.replace("va", "wa").replace("vb", "wb").replace("vc", "wc").replace("vd", "wd").replace("ve", "we");
    let mut cfg = GenCfg::simple(&names, 4);
    cfg.max_fix_depth = 1;
    // references to definitions nobody made are part of the language (they read as false)
    cfg.allow_ref = true;
    const REF_TEXTS: [&str; 10] = ["{r}", "false | {r}", "exists va # {r}", "gfp X # {r}", "{r} ^ {s}", "if va then {r} else {r}", "X & (lfp X # va | X)", "gfp Y # (X | (Y & (lfp X # va | X)))", "(nu X # X & vb) | X", "X ^ (mu X # (exists X # X & va) | vc)"];
    for round in 0..rounds {
        let ordering: Vec<NamedSymbol> = {
            let mut ids: Vec<usize> = (0..names.len()).collect();
            rng.shuffle(&mut ids);
            names.iter().zip(ids).map(|(n, id)| NamedSymbol { name: Rc::new(n.to_string()), id }).collect()
        };
        // (one ordering vector lists both spellings of every id)
        let ordering: Vec<NamedSymbol> = ordering.iter().cloned().chain(ordering.iter().map(|s| NamedSymbol { name: Rc::new(rename(&s.name)), id: s.id })).collect();
        let env = Rc::new(BDDEnv::<NamedSymbol>::new());
        let k = 2 + rng.usize(12);
        let mut done: Vec<(String, Rc<BDD<NamedSymbol>>, Rc<BDD<NamedSymbol>>)> = Vec::new();
        let mut texts = Vec::new();
        for _ in 0..k {
            // either a new formula or a re-evaluation of an earlier one
            let text = if !done.is_empty() && rng.chance(1, 3) {
                done[rng.usize(done.len())].0.clone()
            } else if rng.chance(1, 40) {
                rng.pick_str(&REF_TEXTS).to_string()
            } else {
                let ast = gen::gen_ast(&mut rng, &cfg);
                gen::render(&ast, &mut rng, Style::Plain)
            };
            // every fourth evaluation spells the variables with the other names
            let other_names = rng.chance(1, 4);
            let repeats = rng.usize(3);
            let used = if other_names { rename(&text) } else { text.clone() };
            let Ok(ast) = refsyn::parse_text(&text) else { continue };
            let Ok((rnames, want)) = refsem::eval_formula(&ast) else {
                st.bump("non_convergent_skipped");
                continue;
            };
            texts.push(used.clone());
            st.evals += 1;
            st.bump("shared_env_evaluations");
            let case = json!({"kind": "shared-env", "ordering": ordering.iter().map(|s| json!([s.name.as_ref(), s.id])).collect::<Vec<_>>(), "texts": texts});
            util::budget(20_000_000, 100_000);
            let r = guarded(|| {
                let pf = ParsedFormula::new_with_env(Rc::clone(&env), &mut BufReader::new(used.as_bytes()), Some(ordering.clone()))?;
                // the same parsed formula evaluated once, twice or three times: the last answer counts
                let mut d = pf.eval();
                for _ in 0..repeats {
                    d = pf.eval();
                }
                Ok::<_, std::io::Error>(d)
            });
            let d = match r {
                Ok(Ok(d)) => d,
                Ok(Err(_)) => continue,
                Err(util::Caught::Budget(_)) => {
                    st.bump("budget_exceeded(not judged)");
                    break;
                }
                Err(c) => {
                    st.violate("c13.panic", format!("C13:shared:{}", c.signature()), format!("`{}` in a shared environment: {:?}", text, c), case);
                    break;
                }
            };
            // fresh environment
            let fr = guarded(|| ParsedFormula::new(&mut BufReader::new(text.as_bytes()), Some(ordering.clone())).map(|pf| pf.eval()));
            if let Ok(Ok(fd)) = fr {
                if fd.as_ref() != d.as_ref() {
                    st.violate("c13.history-independence", "C13:shared:differs-from-fresh".into(), format!("`{}` evaluates to {} in the shared environment, {} in a fresh one", text, short(&d), short(&fd)), case.clone());
                }
            }
            // (by id: a shared node carries whichever spelling created it first)
            let by_id = |s: &NamedSymbol| ordering.iter().find(|o| o.id == s.id).and_then(|o| rnames.iter().position(|n| n == o.name.as_ref() || rename(n) == *o.name.as_ref())).map(|p| p as u32);
            if crate::conv::tt_of_bdd(&d, rnames.len() as u32, &by_id).ok().as_ref() != Some(&want) {
                st.bump("semantic_mismatch(C01's business, not judged here)");
            }
            if let Some(prev) = done.iter().find(|x| x.0 == text) {
                st.bump("re_evaluations");
                if !Rc::ptr_eq(&prev.1, &d) {
                    st.violate("c13.sharing", "C13:shared:re-evaluation-not-pointer-identical".into(), format!("`{}` re-evaluated in the same environment returns a different node ({} vs {})", text, short(&prev.1), short(&d)), case.clone());
                }
            }
            if let Err(m) = check_interned(&env, &d) {
                st.violate("c13.sharing", "C13:shared:result-not-shared".into(), format!("`{}`: {}", text, m), case.clone());
            }
            let snap = deep_copy(&d);
            done.push((text, d, snap));
        }
        for (t, d, snap) in &done {
            st.bump("handle_reinspections");
            if d.as_ref() != snap.as_ref() {
                st.violate("c13.handle-stable", "C13:shared:handle-changed".into(), format!("result of `{}` changed after later evaluations", t), json!({"kind": "shared-env", "texts": texts}));
            }
        }
        match check_table(&env) {
            Ok(k) => st.add("table_entries_walked", k),
            Err(m) => st.violate("c13.table", "C13:shared:table-invariant-broken".into(), m, json!({"kind": "shared-env", "texts": texts})),
        }
        if done.len() >= 4 && env.size() >= 20 {
            st.nt.insert(mix(util::hash_str(&texts.join("\n")), round));
        }
    }
    st
}

/// Named definitions (`{name}` in the language, `define` in the API): one parsed formula is
/// evaluated again and again while its definitions are made, changed and nested; every evaluation
/// must equal the evaluation, in a fresh environment, of the text with the CURRENT definitions
/// written out.
fn definitions_job(ctx: &Ctx, job: usize, rounds: u64) -> Stats {
    use rsbdd::parser::ReferenceContents;
    let mut st = Stats::new();
    let mut rng = Rng::stream(ctx.seed, "C13.definitions", job as u64);
    let names = ["a", "b", "c", "d", "e"];
    let mut cfg = GenCfg::simple(&names, 3);
    cfg.allow_fix = false;
    for _ in 0..rounds {
        let ordering: Vec<NamedSymbol> = {
            let mut ids: Vec<usize> = (0..names.len()).collect();
            rng.shuffle(&mut ids);
            names.iter().zip(ids).map(|(n, id)| NamedSymbol { name: Rc::new(n.to_string()), id }).collect()
        };
        let mut piece = |rng: &mut Rng| gen::render(&gen::gen_ast(rng, &cfg), rng, Style::Plain);
        let with_fix = rng.chance(1, 4);
        let main = if with_fix {
            format!("{{p}} & (lfp X # ({{p}} | X | ({}))) | {{q}}", piece(&mut rng))
        } else {
            match rng.below(3) {
                0 => format!("({}) & {{p}} | {{q}}", piece(&mut rng)),
                1 => format!("if {{p}} then ({}) else {{q}}", piece(&mut rng)),
                _ => format!("[{{p}}, {{q}}, {{p}}] >= 2 | ({})", piece(&mut rng)),
            }
        };
        let env = Rc::new(BDDEnv::<NamedSymbol>::new());
        util::budget(20_000_000, 10_000);
        let Ok(Ok(pf)) = guarded(|| ParsedFormula::new_with_env(Rc::clone(&env), &mut BufReader::new(main.as_bytes()), Some(ordering.clone()))) else { continue };
        // current definitions as texts (p may refer to q, never the other way round)
        let mut defs: [Option<String>; 2] = [None, None];
        let mut log: Vec<String> = vec![format!("formula `{}`", main)];
        for _ in 0..(3 + rng.usize(6)) {
            let which = rng.usize(2);
            let text = if which == 0 && rng.chance(1, 2) { format!("{{q}} {} ({})", rng.pick_str(&["&", "|", "^", "=>"]), piece(&mut rng)) } else { piece(&mut rng) };
            let as_bdd = !with_fix && !text.contains("{q}") && rng.chance(1, 3);
            let name = ["p", "q"][which];
            util::budget(20_000_000, 10_000);
            let defined = guarded(|| -> std::io::Result<()> {
                let sub = ParsedFormula::new_with_env(Rc::clone(&env), &mut BufReader::new(text.as_bytes()), Some(ordering.clone()))?;
                if as_bdd {
                    pf.define(name, ReferenceContents::BDD(sub.eval()));
                } else {
                    pf.define(name, ReferenceContents::Syntax(sub.bdd.clone()));
                }
                Ok(())
            });
            if !matches!(defined, Ok(Ok(()))) {
                break;
            }
            defs[which] = Some(text.clone());
            log.push(format!("{} := {} `{}`", name, if as_bdd { "diagram of" } else { "syntax" }, text));
            // the text with the current definitions written out
            let q_text = defs[1].clone().map(|t| format!("({})", t)).unwrap_or_else(|| "false".into());
            let p_text = defs[0].clone().map(|t| format!("({})", t.replace("{q}", &q_text))).unwrap_or_else(|| "false".into());
            let expanded = main.replace("{p}", &p_text).replace("{q}", &q_text);
            st.evals += 1;
            st.bump("evaluations_under_changing_definitions");
            let case = json!({"kind": "definitions", "seed": ctx.seed, "job": job, "history": log});
            util::budget(20_000_000, 10_000);
            let got = guarded(|| pf.eval());
            util::budget(20_000_000, 10_000);
            let want = guarded(|| ParsedFormula::new(&mut BufReader::new(expanded.as_bytes()), Some(ordering.clone())).map(|f| f.eval()));
            match (got, want) {
                (Ok(d), Ok(Ok(w))) => {
                    if d.as_ref() != w.as_ref() {
                        st.violate("c13.history-independence", "C13:definitions:differs-from-fresh".into(), format!("after [{}] the formula evaluates to {} but `{}` evaluates to {} in a fresh environment", log.join("; "), short(&d), expanded, short(&w)), case);
                        break;
                    }
                    if let Err(m) = check_interned(&env, &d) {
                        st.violate("c13.sharing", "C13:definitions:result-not-shared".into(), format!("after [{}]: {}", log.join("; "), m), case);
                        break;
                    }
                    st.nt.insert(mix(util::hash_str(&expanded), log.len() as u64));
                }
                (Err(util::Caught::Budget(_)), _) | (_, Err(util::Caught::Budget(_))) => {
                    st.bump("budget_exceeded(not judged)");
                    break;
                }
                (Err(c), Ok(Ok(_))) => {
                    st.violate("c13.panic", format!("C13:definitions:{}", c.signature()), format!("after [{}]: {:?}", log.join("; "), c), case);
                    break;
                }
                _ => {
                    st.bump("expanded_text_not_evaluable(not judged)");
                    break;
                }
            }
        }
    }
    st
}

/// PERIODIC REVISITS: one environment, K kept functions over the variables 0..5, each touched by
/// exactly one operation per round and otherwise left alone; the rest of a round (its length is
/// the period: 256 or 65 536 operations) works on unrelated functions over other variables. In the
/// next round the same function meets another operation / another variable. Every result is
/// compared with the reference — a result remembered from exactly one period ago is a wrong one.
pub(crate) fn periodic_revisit_job(ctx: &Ctx, which: &str, period: usize, rounds: usize) -> Stats {
    let mut st = Stats::new();
    engine_block(&mut st, which, "periodic", |s| s.merge(periodic_revisit_inner(ctx, which, period, rounds)));
    st
}

fn periodic_revisit_inner(ctx: &Ctx, which: &str, period: usize, rounds: usize) -> Stats {
    let mut st = Stats::new();
    let mut rng = Rng::stream(ctx.seed, "C13.periodic", period as u64);
    let env: BDDEnv<usize> = BDDEnv::new();
    let n = 6u32;
    let kept_vars: Vec<(usize, u32)> = (0..n).map(|i| (i as usize, i)).collect();
    let filler_vars: Vec<(usize, u32)> = (0..3u32).map(|i| (100 + i as usize, i)).collect();
    let k = (period / 2).min(400);
    let random_t = |rng: &mut Rng, n: u32| {
        let mut t = Tt::constant(n, false);
        for a in 0..t.size() {
            t.set(a, rng.chance(1, 2));
        }
        t
    };
    let kept: Vec<(D, Tt)> = (0..k).map(|_| { let t = random_t(&mut rng, n); (build_in_env(&env, &t, &kept_vars), t) }).collect();
    let fillers: Vec<(D, Tt)> = (0..16).map(|_| { let t = random_t(&mut rng, 3); (build_in_env(&env, &t, &filler_vars), t) }).collect();
    let idx = |l: &usize| if *l < 100 { Some(*l as u32) } else { None };
    let fidx = |l: &usize| if *l >= 100 { Some((*l - 100) as u32) } else { None };
    // one operation of kind `op` on variable `v` (label base `base`): (engine result, reference table)
    let apply = |d: &D, t: &Tt, op: usize, v: u32, base: usize, nn: u32| -> (D, Tt) {
        let label = base + v as usize;
        match op % 6 {
            0 => (env.exists(vec![label], Rc::clone(d)), t.exists(v)),
            1 => (env.all(vec![label], Rc::clone(d)), t.forall(v)),
            2 => (env.exists_impl(&label, Rc::clone(d)), t.exists(v)),
            3 => (env.and(Rc::clone(d), env.var(label)), t.and(&Tt::var(nn, v))),
            4 => (env.or(env.not(env.var(label)), Rc::clone(d)), t.or(&Tt::var(nn, v).not())),
            _ => (env.xor(Rc::clone(d), env.var(label)), t.xor(&Tt::var(nn, v))),
        }
    };
    util::budget(u64::MAX, 1000);
    let case = json!({"kind": "periodic", "period": period, "rounds": rounds, "seed": ctx.seed});
    let r = guarded(|| -> Result<u64, String> {
        // one phase per KIND of operation: within a phase every operation of the environment is of
        // that kind, so a kept function meets the same kind again after exactly `period` calls of it
        // (with another variable) — and, in the mixed phase at the end, after `period` operations of any kind
        let mut ops = 0u64;
        for kind in 0..7usize {
            for round in 0..rounds {
                for step in 0..period {
                    ops += 1;
                    let op = if kind < 6 { kind } else { step + round };
                    if step < k {
                        let (d, t) = &kept[step];
                        let v = ((step + round) % 6) as u32;
                        let (got, want) = apply(d, t, op, v, 0, n);
                        if tt_of_bdd(&got, n, &idx).ok().as_ref() != Some(&want) {
                            return Err(format!("phase {} round {} (operation {} of the environment): operation #{} on variable {} of the kept function {} = {} gives {} — a wrong function (the same function met the operation with variable {} exactly {} operations earlier)", kind, round, ops, op % 6, v, step, short(d), short(&got), (step + round + 5) % 6, period));
                        }
                    } else {
                        let (d, t) = &fillers[(step * 7 + round) % fillers.len()];
                        let (got, want) = apply(d, t, op, ((step / 3) % 3) as u32, 100, 3);
                        if step % 64 == 0 && tt_of_bdd(&got, 3, &fidx).ok().as_ref() != Some(&want) {
                            return Err(format!("round {}: an operation on an unrelated function gives {}", round, short(&got)));
                        }
                    }
                }
            }
        }
        Ok(ops)
    });
    st.evals += 1;
    match r {
        Ok(Ok(ops)) => {
            st.add("operations_in_periodic_revisit_histories", ops);
            st.bump("periodic_revisit_histories");
            st.nt.insert(mix(0x13_9e, period as u64));
        }
        Ok(Err(m)) => {
            let monitor = match which { "C02" => "c02.route-function", "C04" => "c04.semantics", _ => "c13.history-independence" };
            st.violate(monitor, format!("{}:periodic:{}:differs-from-reference", which, period), format!("one environment, period {}: {}", period, m), case)
        }
        Err(c) => st.violate(&format!("{}.panic", which.to_lowercase()), format!("{}:periodic:{}", which, c.signature()), format!("{:?}", c), case),
    }
    st
}

pub fn run(ctx: &Ctx) -> (Stats, Spec) {
    let big = ctx.tier.pick(18_000usize, 40_000usize);
    let (hist, maxlen, rounds) = ctx.tier.pick((300u64, 600usize, 2500u64), (1500u64, 3000usize, 20000u64));
    let st = with_stderr_gagged(|| {
        let parts = util::par_jobs(16, |job| {
            let mut s = usize_job(ctx, job, hist, maxlen);
            s.merge(shared_env_job(ctx, job, rounds));
            s.merge(drop_heavy_job(ctx, job, hist * 4));
            s.merge(definitions_job(ctx, job, rounds / 10));
            if job == 0 {
                s.merge(big_table_job(ctx, big));
            }
            if job == 1 {
                s.merge(periodic_revisit_job(ctx, "C13", 65_536, ctx.tier.pick(3usize, 6usize)));
            }
            if job == 2 {
                s.merge(periodic_revisit_job(ctx, "C13", 256, ctx.tier.pick(40usize, 400usize)));
            }
            s
        });
        crate::report::merge_all(parts)
    });
    let mut st = st;
    if ctx.tier == crate::report::Tier::Thorough {
        miri_tripwire(ctx, &mut st, 150);
    }
    let spec = Spec {
        rule: "random histories of 100..600 [quick] / 100..3000 [thorough] public operations (var, const, 7 binary connectives, ite, exists/all/exists_impl, aln/amn/exn, count_*, fp with a closure calling back into the environment, model, infer, retain, clean, order-respecting mk_choice) on one BDDEnv<usize> over 5-6 sparse labels, operands drawn from all earlier handles (old ones preferred); fourth family: ONE environment grown to several hundred thousand distinct nodes (3 600 [quick] / 10 000 [thorough] random functions over 10 variables), after which the earliest handles are re-inspected and combined with the newest; third family: short histories in which handles are DROPPED after operations (a few, all non-constants, or all), `clean` is called often, and the environment's invariants (both leaves present, keys = values, children are table nodes) are walked after every step; second family: 2-13 formula evaluations (incl. re-evaluations) sharing one BDDEnv<NamedSymbol> under a common random ordering. distinct = hash of the operation list; non-trivial = >= 30% of operands are handles older than 20 steps and the table reached >= 50 nodes (shared-env: >= 4 evaluations, >= 20 nodes). DEFINITIONS: one parsed formula with references {p}, {q} (also inside a fixed point) is evaluated after each of 3-8 define / redefine steps (syntax or diagram contents, p may refer to q) and compared with the evaluation, in a fresh environment, of the text with the current definitions written out.".into(),
        assumptions: vec![
            "operands from other environments are never mixed in; formulas sharing an environment share one variable numbering".into(),
            "the unique table is inspected through the public `nodes` field at quiescent points; duplicates() is not used as an oracle".into(),
        ],
        floors: vec![
            ("evaluations_under_changing_definitions".into(), 1_000, "definitions never exercised".into()),
            ("histories".into(), 50, "too few histories".into()),
            ("full_inspections".into(), 100, "too few inspections".into()),
            ("op_Fp".into(), 50, "fp never exercised".into()),
            ("op_MkChoice".into(), 20, "mk_choice never exercised".into()),
            ("re_evaluations".into(), 50, "no re-evaluations in shared environments".into()),
            ("drop_heavy_histories".into(), 500, "histories with dropped handles hardly exercised".into()),
            ("big_table_functions".into(), 1_000, "the large-environment history did not run".into()),
            ("periodic_revisit_histories".into(), 2, "periodic revisits did not run".into()),
            ("all_handles_dropped".into(), 100, "dropping every handle never exercised".into()),
            ("nodes_checked_for_sharing".into(), 10_000, "sharing walker saw too few nodes".into()),
            ("distinct_nontrivial".into(), 50, "too few non-trivial histories".into()),
        ],
    };
    (st, spec)
}

fn parse_op(s: &str) -> Option<Op> {
    // inverse of the Debug format used in replay files
    let s = s.trim();
    let (name, rest) = s.split_once('(')?;
    let inner = rest.strip_suffix(')')?;
    // split top-level commas
    let mut parts: Vec<String> = Vec::new();
    let (mut depth, mut cur) = (0, String::new());
    for ch in inner.chars() {
        match ch {
            '[' => {
                depth += 1;
                cur.push(ch);
            }
            ']' => {
                depth -= 1;
                cur.push(ch);
            }
            ',' if depth == 0 => {
                parts.push(cur.trim().to_string());
                cur.clear();
            }
            _ => cur.push(ch),
        }
    }
    if !cur.trim().is_empty() {
        parts.push(cur.trim().to_string());
    }
    let num = |i: usize| -> Option<usize> { parts.get(i)?.parse().ok() };
    let list = |i: usize| -> Option<Vec<usize>> {
        let p = parts.get(i)?.trim_start_matches('[').trim_end_matches(']').to_string();
        if p.trim().is_empty() {
            return Some(vec![]);
        }
        p.split(',').map(|x| x.trim().parse().ok()).collect()
    };
    let strip = |i: usize| -> Option<String> { Some(parts.get(i)?.trim_matches('"').to_string()) };
    let stat = |s: String, opts: &[&'static str]| -> Option<&'static str> { opts.iter().find(|o| **o == s).copied() };
    Some(match name {
        "Var" => Op::Var(num(0)?),
        "Const" => Op::Const(parts.first()? == "true"),
        "Not" => Op::Not(num(0)?),
        "Bin" => Op::Bin(stat(strip(0)?, &BIN)?, num(1)?, num(2)?),
        "Ite" => Op::Ite(num(0)?, num(1)?, num(2)?),
        "Exists" => Op::Exists(list(0)?, num(1)?),
        "All" => Op::All(list(0)?, num(1)?),
        "ExistsImpl" => Op::ExistsImpl(num(0)?, num(1)?),
        "CountConst" => Op::CountConst(stat(strip(0)?, &["aln", "amn", "exn"])?, list(1)?, parts.get(2)?.parse().ok()?),
        "CountList" => Op::CountList(stat(strip(0)?, &["leq", "lt", "geq", "gt", "eq"])?, list(1)?, list(2)?),
        "Fp" => Op::Fp(num(0)?, num(1)?, num(2)?),
        "Model" => Op::Model(num(0)?),
        "Infer" => Op::Infer(num(0)?, num(1)?),
        "Retain" => Op::Retain(num(0)?, parts.get(1)?.parse().ok()?),
        "Clean" => Op::Clean(num(0)?),
        "MkChoice" => Op::MkChoice(num(0)?, num(1)?, num(2)?),
        _ => return None,
    })
}

pub fn replay(_ctx: &Ctx, _monitor: &str, case: &Value, st: &mut Stats) {
    if case.get("kind").and_then(|k| k.as_str()) == Some("periodic") {
        let g = |k: &str| case.get(k).and_then(|j| j.as_u64()).unwrap_or(0);
        let mut c2 = _ctx.clone();
        c2.seed = g("seed");
        st.merge(periodic_revisit_job(&c2, "C13", g("period").max(2) as usize, g("rounds").max(2) as usize));
        return;
    }
    if case.get("kind").and_then(|k| k.as_str()) == Some("definitions") {
        // the job's stream is deterministic: re-run it
        let mut c2 = _ctx.clone();
        c2.seed = case.get("seed").and_then(|j| j.as_u64()).unwrap_or(_ctx.seed);
        st.merge(definitions_job(&c2, case.get("job").and_then(|j| j.as_u64()).unwrap_or(0) as usize, 2_000));
        return;
    }
    if case.get("kind").and_then(|k| k.as_str()) == Some("shared-env") {
        let texts: Vec<String> = case.get("texts").and_then(|t| t.as_array()).map(|a| a.iter().filter_map(|x| x.as_str().map(|s| s.to_string())).collect()).unwrap_or_default();
        let ordering: Vec<NamedSymbol> = case
            .get("ordering")
            .and_then(|o| o.as_array())
            .map(|a| a.iter().filter_map(|p| Some(NamedSymbol { name: Rc::new(p.get(0)?.as_str()?.to_string()), id: p.get(1)?.as_u64()? as usize })).collect())
            .unwrap_or_default();
        let env = Rc::new(BDDEnv::<NamedSymbol>::new());
        let mut done: Vec<(String, Rc<BDD<NamedSymbol>>)> = Vec::new();
        for text in texts {
            st.evals += 1;
            let ord = if ordering.is_empty() { None } else { Some(ordering.clone()) };
            let ord2 = ord.clone();
            util::budget(20_000_000, 100_000);
            let r = guarded(|| ParsedFormula::new_with_env(Rc::clone(&env), &mut BufReader::new(text.as_bytes()), ord).map(|pf| pf.eval()));
            let Ok(Ok(d)) = r else {
                if let Err(c) = r {
                    st.violate("c13.panic", format!("C13:shared:{}", c.signature()), format!("{:?}", c), case.clone());
                }
                continue;
            };
            if let Ok(Ok(fd)) = guarded(|| ParsedFormula::new(&mut BufReader::new(text.as_bytes()), ord2).map(|pf| pf.eval())) {
                if fd.as_ref() != d.as_ref() {
                    st.violate("c13.history-independence", "C13:shared:differs-from-fresh".into(), format!("`{}`", text), case.clone());
                }
            }
            // (the other spelling of the same variables is the same formula)
            let key = text.replace("wa", "va").replace("wb", "vb").replace("wc", "vc").replace("wd", "vd").replace("we", "ve");
            if let Some(prev) = done.iter().find(|x| x.0 == key) {
                if !Rc::ptr_eq(&prev.1, &d) {
                    st.violate("c13.sharing", "C13:shared:re-evaluation-not-pointer-identical".into(), format!("`{}`", text), case.clone());
                }
            }
            if let Err(m) = check_interned(&env, &d) {
                st.violate("c13.sharing", "C13:shared:result-not-shared".into(), m, case.clone());
            }
            done.push((key, d));
        }
        if let Err(m) = check_table(&env) {
            st.violate("c13.table", "C13:shared:table-invariant-broken".into(), m, case.clone());
        }
        return;
    }
    if case.get("kind").and_then(|k| k.as_str()) == Some("big-table") {
        let mut c2 = _ctx.clone();
        c2.seed = case.get("seed").and_then(|j| j.as_u64()).unwrap_or(_ctx.seed);
        let f = case.get("functions").and_then(|j| j.as_u64()).unwrap_or(1_600) as usize;
        st.merge(big_table_job(&c2, f));
        return;
    }
    if case.get("kind").and_then(|k| k.as_str()) == Some("drop-heavy") {
        let job = case.get("job").and_then(|j| j.as_u64()).unwrap_or(0) as usize;
        let h = case.get("history").and_then(|j| j.as_u64()).unwrap_or(0);
        let mut c2 = _ctx.clone();
        c2.seed = case.get("seed").and_then(|j| j.as_u64()).unwrap_or(_ctx.seed);
        // histories are independent streams: re-run the recorded one (and its predecessors, cheaply)
        with_stderr_gagged(|| st.merge(drop_heavy_job(&c2, job, h + 1)));
        return;
    }
    let labels = parse_labels(case, "labels");
    let ops: Vec<Op> = case.get("ops").and_then(|o| o.as_array()).map(|a| a.iter().filter_map(|x| x.as_str().and_then(parse_op)).collect()).unwrap_or_default();
    if ops.is_empty() || labels.is_empty() {
        return;
    }
    let mut rng = Rng::new(0);
    with_stderr_gagged(|| run_history(st, &mut rng, 0, ops.len(), Some(&ops), &labels));
}
