//! C03 — connectives compute the pointwise Boolean operation of their operands; operands unchanged.
//!
//! Monitor: every call of and/or/not/implies/eq/xor/nor/nand/ite/var/mk_const is observed through
//! the result diagram (walked under every assignment) and compared with bitwise table operations;
//! operand snapshots (plain deep copies + tables) are compared after the call.

use crate::conv::{build_in_env, deep_copy, short, tt_of_bdd};
use crate::report::{Ctx, Spec, Stats};
use crate::tt::Tt;
use crate::util::{self, guarded, mix, Rng};
use rsbdd::bdd::{BDDEnv, BDD};
use rsbdd::{BDDSymbol, NamedSymbol};
use serde_json::{json, Value};
use std::rc::Rc;

pub const BIN_OPS: [&str; 8] = ["and", "or", "xor", "nor", "nand", "implies", "eq", "implies_rev"];

pub fn apply_engine<S: BDDSymbol>(env: &BDDEnv<S>, op: &str, a: &Rc<BDD<S>>, b: &Rc<BDD<S>>) -> Rc<BDD<S>> {
    apply_engine_impl(env, op, a, b, false)
}

/// C03 only: every seventh call hands the engine private copies it becomes the sole owner of (the
/// VALUE of the result is what C03 judges; such results contain nodes the environment does not
/// own, so properties about sharing — C13 — must not use this variant).
pub fn apply_engine_handing_over<S: BDDSymbol>(env: &BDDEnv<S>, op: &str, a: &Rc<BDD<S>>, b: &Rc<BDD<S>>) -> Rc<BDD<S>> {
    apply_engine_impl(env, op, a, b, true)
}

fn apply_engine_impl<S: BDDSymbol>(env: &BDDEnv<S>, op: &str, a: &Rc<BDD<S>>, b: &Rc<BDD<S>>, hand_over_copies: bool) -> Rc<BDD<S>> {
    thread_local!(static CALLS: std::cell::Cell<u64> = const { std::cell::Cell::new(0) });
    let k = CALLS.with(|c| { c.set(c.get() + 1); c.get() });
    if hand_over_copies && k % 7 == 0 {
        let (a2, b2) = (crate::conv::deep_copy(a), crate::conv::deep_copy(b));
        return match op {
            "and" => env.and(a2, b2),
            "or" => env.or(a2, b2),
            "xor" => env.xor(a2, b2),
            "nor" => env.nor(a2, b2),
            "nand" => env.nand(a2, b2),
            "implies" => env.implies(a2, b2),
            "implies_rev" => env.implies(b2, a2),
            "eq" => env.eq(a2, b2),
            _ => unreachable!("unknown op {}", op),
        };
    }
    match op {
        "and" => env.and(Rc::clone(a), Rc::clone(b)),
        "or" => env.or(Rc::clone(a), Rc::clone(b)),
        "xor" => env.xor(Rc::clone(a), Rc::clone(b)),
        "nor" => env.nor(Rc::clone(a), Rc::clone(b)),
        "nand" => env.nand(Rc::clone(a), Rc::clone(b)),
        "implies" => env.implies(Rc::clone(a), Rc::clone(b)),
        "implies_rev" => env.implies(Rc::clone(b), Rc::clone(a)),
        "eq" => env.eq(Rc::clone(a), Rc::clone(b)),
        _ => unreachable!("unknown op {}", op),
    }
}

pub fn apply_ref(op: &str, a: &Tt, b: &Tt) -> Tt {
    match op {
        "and" => a.and(b),
        "or" => a.or(b),
        "xor" => a.xor(b),
        "nor" => a.nor(b),
        "nand" => a.nand(b),
        "implies" => a.implies(b),
        "implies_rev" => b.implies(a),
        "eq" => a.iff(b),
        _ => unreachable!(),
    }
}

/// label sets for the two / three operands; universe = sorted union
struct Config {
    name: &'static str,
    la: Vec<usize>,
    lb: Vec<usize>,
    lc: Vec<usize>,
}

fn configs(k: usize) -> Vec<Config> {
    // k = number of variables per operand (3 for binary ops, 2 for ite)
    let take = |v: &[usize]| v[..k].to_vec();
    vec![
        Config { name: "same-adjacent", la: take(&[0, 1, 2]), lb: take(&[0, 1, 2]), lc: take(&[0, 1, 2]) },
        Config { name: "interleaved-disjoint", la: take(&[0, 2, 4]), lb: take(&[1, 3, 5]), lc: take(&[6, 8, 9]) },
        Config { name: "extreme-indices", la: take(&[0, 7, usize::MAX]), lb: take(&[0, 7, usize::MAX]), lc: take(&[7, usize::MAX, 3]) },
        Config { name: "overlap-shifted", la: take(&[0, 1, 2]), lb: take(&[1, 2, 3]), lc: take(&[2, 3, 4]) },
        Config { name: "disjoint-nested", la: take(&[3, 4, 5]), lb: take(&[0, 1, 9]), lc: take(&[2, 6, 7]) },
    ]
}

fn universe(cfg: &Config, with_c: bool) -> Vec<usize> {
    let mut u: Vec<usize> = cfg.la.iter().chain(cfg.lb.iter()).cloned().collect();
    if with_c {
        u.extend(cfg.lc.iter().cloned());
    }
    u.sort();
    u.dedup();
    u
}

/// all functions over `labels` (k ≤ 3 variables), as (diagram, snapshot copy, table over universe)
fn all_functions(env: &BDDEnv<usize>, labels: &[usize], uni: &[usize]) -> Vec<(Rc<BDD<usize>>, Rc<BDD<usize>>, Tt)> {
    let k = labels.len() as u32;
    let n = uni.len() as u32;
    let mut sorted: Vec<usize> = labels.to_vec();
    sorted.sort();
    // variable j of the small table is the j-th label in the operand's own (given) order
    let map: Vec<u32> = labels.iter().map(|l| uni.iter().position(|x| x == l).unwrap() as u32).collect();
    let vars: Vec<(usize, u32)> = sorted.iter().map(|l| (*l, uni.iter().position(|x| x == l).unwrap() as u32)).collect();
    let mut out = Vec::new();
    for bits in 0..(1u64 << (1u32 << k)) {
        let small = Tt::from_u64(k, bits);
        let big = small.embed(n, &map);
        let d = build_in_env(env, &big, &vars);
        let snap = deep_copy(&d);
        out.push((d, snap, big));
    }
    out
}

fn idx_of(uni: &[usize]) -> impl Fn(&usize) -> Option<u32> + '_ {
    move |s: &usize| uni.iter().position(|x| x == s).map(|p| p as u32)
}

#[allow(clippy::too_many_arguments)]
fn check_binary(
    st: &mut Stats,
    env: &BDDEnv<usize>,
    op: &str,
    a: &(Rc<BDD<usize>>, Rc<BDD<usize>>, Tt),
    b: &(Rc<BDD<usize>>, Rc<BDD<usize>>, Tt),
    uni: &[usize],
    cfg_name: &str,
) {
    st.evals += 1;
    st.bump(&format!("op_{}", op));
    let n = uni.len() as u32;
    let case = || json!({"kind": "binary", "op": op, "a": a.2.hex(), "b": b.2.hex(), "universe": uni.iter().map(|x| x.to_string()).collect::<Vec<_>>(), "config": cfg_name});
    util::budget(50_000_000, 1000);
    let r = match guarded(|| apply_engine_handing_over(env, op, &a.0, &b.0)) {
        Ok(r) => r,
        Err(c) => {
            st.violate("c03.panic", format!("C03:{}:{}", op, c.signature()), format!("{}({}, {}) did not return: {:?}", op, short(&a.0), short(&b.0), c), case());
            return;
        }
    };
    let want = apply_ref(op, &a.2, &b.2);
    match tt_of_bdd(&r, n, &idx_of(uni)) {
        Ok(got) => {
            if got != want {
                let diff = got.xor(&want).first_one().unwrap_or(0);
                st.violate(
                    "c03.pointwise",
                    format!("C03:{}:wrong-value", op),
                    format!(
                        "{}(a, b) wrong under assignment #{} of universe {:?}\n a = {} table {}\n b = {} table {}\n result = {} table {}\n expected table {}",
                        op, diff, uni, short(&a.0), a.2.hex(), short(&b.0), b.2.hex(), short(&r), got.hex(), want.hex()
                    ),
                    case(),
                );
            }
        }
        Err(e) => st.violate("c03.pointwise", format!("C03:{}:foreign-variable", op), format!("{}: {}", op, e), case()),
    }
    if a.0.as_ref() != a.1.as_ref() || b.0.as_ref() != b.1.as_ref() {
        st.violate("c03.operands-unchanged", format!("C03:{}:operand-changed", op), format!("operand changed across {}: a={} b={}", op, short(&a.0), short(&b.0)), case());
    }
    if !a.2.is_const() && !b.2.is_const() {
        st.nt.insert(mix(mix(util::hash_str(op), a.2.hash64()), mix(b.2.hash64(), util::hash_str(cfg_name))));
    }
    if st.want_sample() && !a.2.is_const() && !b.2.is_const() && st.evals % 9973 == 1 {
        st.sample(json!({"call": format!("{}(a,b)", op), "a": short(&a.0), "b": short(&b.0), "result": short(&r), "config": cfg_name}));
    }
}

fn check_ite(
    st: &mut Stats,
    env: &BDDEnv<usize>,
    a: &(Rc<BDD<usize>>, Rc<BDD<usize>>, Tt),
    b: &(Rc<BDD<usize>>, Rc<BDD<usize>>, Tt),
    c: &(Rc<BDD<usize>>, Rc<BDD<usize>>, Tt),
    uni: &[usize],
    cfg_name: &str,
) {
    st.evals += 1;
    st.bump("op_ite");
    let n = uni.len() as u32;
    let case = || json!({"kind": "ite", "a": a.2.hex(), "b": b.2.hex(), "c": c.2.hex(), "universe": uni.iter().map(|x| x.to_string()).collect::<Vec<_>>(), "config": cfg_name});
    util::budget(50_000_000, 1000);
    let r = match guarded(|| env.ite(Rc::clone(&a.0), Rc::clone(&b.0), Rc::clone(&c.0))) {
        Ok(r) => r,
        Err(cg) => {
            st.violate("c03.panic", format!("C03:ite:{}", cg.signature()), format!("ite did not return: {:?}", cg), case());
            return;
        }
    };
    let want = a.2.ite(&b.2, &c.2);
    match tt_of_bdd(&r, n, &idx_of(uni)) {
        Ok(got) => {
            if got != want {
                st.violate(
                    "c03.pointwise",
                    "C03:ite:wrong-value".to_string(),
                    format!("ite(a,b,c) wrong: a={} b={} c={} result={} table {} expected {}", short(&a.0), short(&b.0), short(&c.0), short(&r), got.hex(), want.hex()),
                    case(),
                );
            }
        }
        Err(e) => st.violate("c03.pointwise", "C03:ite:foreign-variable".to_string(), e, case()),
    }
    if a.0.as_ref() != a.1.as_ref() || b.0.as_ref() != b.1.as_ref() || c.0.as_ref() != c.1.as_ref() {
        st.violate("c03.operands-unchanged", "C03:ite:operand-changed".to_string(), "operand changed across ite".to_string(), case());
    }
    if !a.2.is_const() && !b.2.is_const() && !c.2.is_const() {
        st.nt.insert(mix(mix(7, a.2.hash64()), mix(mix(b.2.hash64(), c.2.hash64()), util::hash_str(cfg_name))));
    }
}

fn check_unary_and_atoms(st: &mut Stats) {
    // not / var / mk_const exhaustively over the extreme label set
    for cfg in configs(3) {
        let env: BDDEnv<usize> = Default::default();
        let uni = universe(&cfg, false);
        let n = uni.len() as u32;
        let fa = all_functions(&env, &cfg.la, &uni);
        for a in &fa {
            st.evals += 1;
            st.bump("op_not");
            let case = json!({"kind": "not", "a": a.2.hex(), "universe": uni.iter().map(|x| x.to_string()).collect::<Vec<_>>()});
            match guarded(|| env.not(Rc::clone(&a.0))) {
                Ok(r) => {
                    let got = tt_of_bdd(&r, n, &idx_of(&uni));
                    if got.as_ref().ok() != Some(&a.2.not()) {
                        st.violate("c03.pointwise", "C03:not:wrong-value".into(), format!("not({}) = {} ; table {:?} expected {}", short(&a.0), short(&r), got, a.2.not().hex()), case.clone());
                    }
                    if a.0.as_ref() != a.1.as_ref() {
                        st.violate("c03.operands-unchanged", "C03:not:operand-changed".into(), "operand changed across not".into(), case);
                    }
                    if !a.2.is_const() {
                        st.nt.insert(mix(mix(11, a.2.hash64()), util::hash_str(cfg.name)));
                    }
                }
                Err(c) => st.violate("c03.panic", format!("C03:not:{}", c.signature()), format!("{:?}", c), case),
            }
        }
        for (i, l) in uni.iter().enumerate() {
            st.evals += 1;
            st.bump("op_var");
            match guarded(|| env.var(*l)) {
                Ok(r) => {
                    let got = tt_of_bdd(&r, n, &idx_of(&uni));
                    if got.as_ref().ok() != Some(&Tt::var(n, i as u32)) {
                        st.violate("c03.pointwise", "C03:var:wrong-value".into(), format!("var({}) = {}", l, short(&r)), json!({"kind": "var", "label": l.to_string()}));
                    }
                }
                Err(c) => st.violate("c03.panic", format!("C03:var:{}", c.signature()), format!("{:?}", c), json!({"kind": "var", "label": l.to_string()})),
            }
        }
        for b in [false, true] {
            st.evals += 1;
            st.bump("op_const");
            match guarded(|| env.mk_const(b)) {
                Ok(r) => {
                    let ok = if b { r.as_ref() == &BDD::True } else { r.as_ref() == &BDD::False };
                    if !ok {
                        st.violate("c03.pointwise", "C03:const:wrong-value".into(), format!("mk_const({}) = {}", b, short(&r)), json!({"kind": "const", "b": b}));
                    }
                }
                Err(c) => st.violate("c03.panic", format!("C03:const:{}", c.signature()), format!("{:?}", c), json!({"kind": "const", "b": b})),
            }
        }
    }
}

/// random operand: either a random table built bottom-up, or a random expression over the API
fn random_operand(rng: &mut Rng, env: &BDDEnv<usize>, uni: &[usize], support: &[usize]) -> Rc<BDD<usize>> {
    let n = uni.len() as u32;
    if rng.chance(1, 2) {
        // random table over the chosen support
        let k = support.len() as u32;
        let mut small = Tt::constant(k, false);
        for a in 0..small.size() {
            small.set(a, rng.chance(1, 2));
        }
        let map: Vec<u32> = support.iter().map(|l| uni.iter().position(|x| x == l).unwrap() as u32).collect();
        let big = small.embed(n, &map);
        let mut sorted = support.to_vec();
        sorted.sort();
        let vars: Vec<(usize, u32)> = sorted.iter().map(|l| (*l, uni.iter().position(|x| x == l).unwrap() as u32)).collect();
        build_in_env(env, &big, &vars)
    } else {
        fn expr(rng: &mut Rng, env: &BDDEnv<usize>, support: &[usize], depth: u32) -> Rc<BDD<usize>> {
            if depth == 0 || rng.chance(1, 5) {
                let v = env.var(*rng.pick(support));
                return if rng.chance(1, 3) { env.not(v) } else { v };
            }
            let a = expr(rng, env, support, depth - 1);
            let b = expr(rng, env, support, depth - 1);
            match rng.below(6) {
                0 => env.and(a, b),
                1 => env.or(a, b),
                2 => env.xor(a, b),
                3 => env.implies(a, b),
                4 => env.nand(a, b),
                _ => {
                    let c = expr(rng, env, support, depth - 1);
                    env.ite(a, b, c)
                }
            }
        }
        expr(rng, env, support, 3)
    }
}

fn random_part(ctx: &Ctx, job: usize, iters: u64) -> Stats {
    let mut st = Stats::new();
    let mut rng = Rng::stream(ctx.seed, "C03.random", job as u64);
    let pool: Vec<usize> = vec![0, 1, 2, 3, 5, 8, 13, 21, 1000, usize::MAX - 1, usize::MAX];
    let mut env: BDDEnv<usize> = BDDEnv::new();
    for it in 0..iters {
        if it % 2000 == 0 {
            // (both public constructors are used)
            env = if (it / 2000) % 2 == 0 { BDDEnv::default() } else { BDDEnv::new() }; // bound the table size; long-lived environments are C13's subject
        }
        let nvars = 4 + rng.usize(3);
        let mut uni: Vec<usize> = Vec::new();
        while uni.len() < nvars {
            let c = *rng.pick(&pool);
            if !uni.contains(&c) {
                uni.push(c);
            }
        }
        uni.sort();
        let pick_support = |rng: &mut Rng| -> Vec<usize> {
            let k = 1 + rng.usize(uni.len());
            let mut s = uni.clone();
            rng.shuffle(&mut s);
            s.truncate(k);
            s
        };
        let sa = pick_support(&mut rng);
        let sb = pick_support(&mut rng);
        let sc = pick_support(&mut rng);
        let n = uni.len() as u32;
        // (an operand is built from its support through the engine's own operations: if it then tests
        // a variable outside its universe, the engine has gone wrong — a violation, not a harness error)
        let foreign = std::cell::RefCell::new(None::<String>);
        let mk = |rng: &mut Rng, s: &[usize]| {
            let d = random_operand(rng, &env, &uni, s);
            let t = match tt_of_bdd(&d, n, &idx_of(&uni)) {
                Ok(t) => t,
                Err(e) => {
                    *foreign.borrow_mut() = Some(format!("an operand built over the variables {:?} is {}: {}", s, short(&d), e));
                    Tt::constant(n, false)
                }
            };
            let snap = deep_copy(&d);
            (d, snap, t)
        };
        let a = mk(&mut rng, &sa);
        let b = mk(&mut rng, &sb);
        if let Some(m) = foreign.borrow_mut().take() {
            st.violate("c03.pointwise", "C03:operand-with-a-foreign-variable".into(), m, json!({"kind": "random", "seed": ctx.seed, "job": job}));
            continue;
        }
        if rng.chance(1, 4) {
            let c = mk(&mut rng, &sc);
            if let Some(m) = foreign.borrow_mut().take() {
                st.violate("c03.pointwise", "C03:operand-with-a-foreign-variable".into(), m, json!({"kind": "random", "seed": ctx.seed, "job": job}));
                continue;
            }
            check_ite(&mut st, &env, &a, &b, &c, &uni, "random");
        } else {
            let op = *rng.pick(&BIN_OPS);
            check_binary(&mut st, &env, op, &a, &b, &uni, "random");
        }
        st.bump("random_cases");
    }
    st
}

/// Operands the environment did not build itself: plain `Rc::new` diagrams (ordered, reduced,
/// unshared) — what `BDD::<usize>::from(..)` or another environment hands out — used once and then
/// dropped, for many rounds on ONE environment (so that freed addresses get reused).
fn foreign_part(ctx: &Ctx, job: usize, rounds: u64) -> Stats {
    use crate::conv::build_ref;
    let mut st = Stats::new();
    let mut rng = Rng::stream(ctx.seed, "C03.foreign", job as u64);
    let uni: Vec<usize> = vec![1, 3, 4, 7];
    let n = uni.len() as u32;
    let vars: Vec<(usize, u32)> = uni.iter().enumerate().map(|(i, l)| (*l, i as u32)).collect();
    let env: BDDEnv<usize> = BDDEnv::new();
    for _ in 0..rounds {
        let mk = |rng: &mut Rng, foreign: bool| {
            let mut t = Tt::constant(n, false);
            for a in 0..t.size() {
                t.set(a, rng.chance(1, 2));
            }
            let d = if foreign { build_ref(&t, &vars) } else { build_in_env(&env, &t, &vars) };
            let snap = deep_copy(&d);
            (d, snap, t)
        };
        let a = mk(&mut rng, true);
        let fb = rng.chance(1, 2);
        let b = mk(&mut rng, fb);
        let fc = rng.chance(1, 2);
        let c = mk(&mut rng, fc);
        for op in BIN_OPS.iter() {
            check_binary(&mut st, &env, op, &a, &b, &uni, "foreign-operands");
            check_binary(&mut st, &env, op, &b, &a, &uni, "foreign-operands");
        }
        check_ite(&mut st, &env, &a, &b, &c, &uni, "foreign-operands");
        check_ite(&mut st, &env, &c, &a, &b, &uni, "foreign-operands");
        // not
        st.evals += 1;
        st.bump("op_not");
        match guarded(|| env.not(Rc::clone(&a.0))) {
            Ok(r) => {
                if tt_of_bdd(&r, n, &idx_of(&uni)).ok().as_ref() != Some(&a.2.not()) {
                    st.violate("c03.pointwise", "C03:not:wrong-value".into(), format!("not({}) = {} (operand not built by this environment)", short(&a.0), short(&r)), json!({"kind": "foreign", "seed": ctx.seed, "job": job}));
                }
            }
            Err(cg) => st.violate("c03.panic", format!("C03:not:{}", cg.signature()), format!("{:?}", cg), json!({"kind": "foreign", "seed": ctx.seed, "job": job})),
        }
        st.bump("foreign_operand_rounds");
        // a, b, c are dropped here: their addresses become free again
    }
    st
}

/// A symbol type whose `Hash` writes nothing (legal: equal values hash equally). Every pair of
/// diagrams of the same shape then collides in the derived hash, so anything that confuses "same
/// hash" with "same diagram" shows up as a wrong value.
#[derive(Clone, Debug, PartialEq, Eq, PartialOrd, Ord)]
pub struct WeakSym(pub u32);

impl std::hash::Hash for WeakSym {
    fn hash<H: std::hash::Hasher>(&self, _state: &mut H) {}
}

impl std::fmt::Display for WeakSym {
    fn fmt(&self, f: &mut std::fmt::Formatter<'_>) -> std::fmt::Result {
        write!(f, "w{}", self.0)
    }
}

fn weak_hash_part(ctx: &Ctx, job: usize, iters: u64) -> Stats {
    let mut st = Stats::new();
    let mut rng = Rng::stream(ctx.seed, "C03.weakhash", job as u64);
    let syms: Vec<WeakSym> = vec![WeakSym(1), WeakSym(2), WeakSym(5), WeakSym(9)];
    let n = syms.len() as u32;
    let idx = |s: &WeakSym| syms.iter().position(|x| x == s).map(|p| p as u32);
    let vars: Vec<(WeakSym, u32)> = syms.iter().enumerate().map(|(i, s)| (s.clone(), i as u32)).collect();
    let mut env: BDDEnv<WeakSym> = BDDEnv::new();
    for it in 0..iters {
        if it % 200 == 0 {
            env = BDDEnv::new(); // every lookup walks one hash bucket: keep tables small
        }
        let mut mk = |rng: &mut Rng| {
            let mut t = Tt::constant(n, false);
            for a in 0..t.size() {
                t.set(a, rng.chance(1, 2));
            }
            for i in 0..n {
                if rng.chance(1, 3) {
                    t = t.cofactor(i, rng.chance(1, 2));
                }
            }
            let d = build_in_env(&env, &t, &vars);
            let snap = deep_copy(&d);
            (d, snap, t)
        };
        let a = mk(&mut rng);
        let b = mk(&mut rng);
        let c = mk(&mut rng);
        st.evals += 1;
        st.bump("weak_hash_symbol_calls");
        let use_ite = rng.chance(1, 3);
        let op = *rng.pick(&BIN_OPS);
        let case = json!({"kind": "weak-hash", "seed": ctx.seed, "job": job});
        util::budget(5_000_000, 1000);
        let r = guarded(|| if use_ite { env.ite(Rc::clone(&a.0), Rc::clone(&b.0), Rc::clone(&c.0)) } else { apply_engine_handing_over(&env, op, &a.0, &b.0) });
        match r {
            Ok(r) => {
                let want = if use_ite { a.2.ite(&b.2, &c.2) } else { apply_ref(op, &a.2, &b.2) };
                let got = tt_of_bdd(&r, n, &idx);
                if got.as_ref().ok() != Some(&want) {
                    let name = if use_ite { "ite" } else { op };
                    st.violate("c03.pointwise", format!("C03:{}:wrong-value", name), format!("environment over a symbol type with a constant hash: {}({}, {}{}) = {} table {:?} expected {}", name, short(&a.0), short(&b.0), if use_ite { format!(", {}", short(&c.0)) } else { String::new() }, short(&r), got, want.hex()), case.clone());
                }
                if a.0.as_ref() != a.1.as_ref() || b.0.as_ref() != b.1.as_ref() {
                    st.violate("c03.operands-unchanged", "C03:weak-hash:operand-changed".into(), "operand changed".into(), case);
                }
                if !a.2.is_const() && !b.2.is_const() {
                    st.nt.insert(mix(mix(util::hash_str(op), a.2.hash64()), mix(b.2.hash64(), 0x3eac)));
                }
            }
            Err(cg) => st.violate("c03.panic", format!("C03:weak-hash:{}", cg.signature()), format!("{:?}", cg), case),
        }
    }
    st
}

fn named_part(ctx: &Ctx, job: usize, iters: u64) -> Stats {
    // same monitor over BDDEnv<NamedSymbol> (labels compare by id; names are only display)
    let mut st = Stats::new();
    let mut rng = Rng::stream(ctx.seed, "C03.named", job as u64);
    // ids that coincide when narrowed to 8 / 16 / 32 bits (0 ~ 256 ~ 2^32, 2 ~ 65538 ~ 2^32 + 2)
    let ids: Vec<usize> = vec![0, 2, 256, 65_538, 1 << 32, (1 << 32) + 2, usize::MAX];
    // (the NAMES repeat — n0, n1, n2, n0, .. — a symbol is its id, whatever it prints as)
    let syms: Vec<NamedSymbol> = ids.iter().enumerate().map(|(i, id)| NamedSymbol { name: Rc::new(format!("n{}", i % 3)), id: *id }).collect();
    let n = syms.len() as u32;
    let idx = |s: &NamedSymbol| syms.iter().position(|x| x.id == s.id).map(|p| p as u32);
    let env: BDDEnv<NamedSymbol> = BDDEnv::new();
    let vars: Vec<(NamedSymbol, u32)> = syms.iter().enumerate().map(|(i, s)| (s.clone(), i as u32)).collect();
    for _ in 0..iters {
        let mut mk = |rng: &mut Rng| {
            let mut t = Tt::constant(n, false);
            // random function of a random subset of the variables
            let keep: Vec<u32> = (0..n).filter(|_| rng.chance(1, 2)).collect();
            for a in 0..t.size() {
                t.set(a, rng.chance(1, 2));
            }
            for i in 0..n {
                if !keep.contains(&i) {
                    t = t.cofactor(i, rng.chance(1, 2));
                }
            }
            let d = build_in_env(&env, &t, &vars);
            let snap = deep_copy(&d);
            (d, snap, t)
        };
        // the atoms themselves, through var(): two symbols that print alike are two variables
        {
            let (i, j) = (rng.usize(syms.len()), rng.usize(syms.len()));
            let op = *rng.pick(&BIN_OPS);
            let case = json!({"kind": "named-atoms", "op": op, "i": i, "j": j, "seed": ctx.seed, "job": job, "iters": iters});
            st.evals += 1;
            match guarded(|| apply_engine(&env, op, &env.var(syms[i].clone()), &env.var(syms[j].clone()))) {
                Ok(r) => {
                    let want = apply_ref(op, &Tt::var(n, i as u32), &Tt::var(n, j as u32));
                    if tt_of_bdd(&r, n, &idx).ok().as_ref() != Some(&want) {
                        st.violate("c03.pointwise", format!("C03:{}:wrong-value", op), format!("NamedSymbol env: {}(var({}#{}), var({}#{})) = {} — expected table {}", op, syms[i].name, syms[i].id, syms[j].name, syms[j].id, short(&r), want.hex()), case);
                    } else if i != j {
                        st.bump("named_atoms_with_one_printed_name");
                    }
                }
                Err(c) => st.violate("c03.panic", format!("C03:{}:{}", op, c.signature()), format!("{:?}", c), case),
            }
        }
        let a = mk(&mut rng);
        let b = mk(&mut rng);
        let op = *rng.pick(&BIN_OPS);
        st.evals += 1;
        st.bump("named_symbol_calls");
        let case = json!({"kind": "named-binary", "op": op, "a": a.2.hex(), "b": b.2.hex(), "seed": ctx.seed, "job": job, "iters": iters});
        match guarded(|| apply_engine_handing_over(&env, op, &a.0, &b.0)) {
            Ok(r) => {
                let want = apply_ref(op, &a.2, &b.2);
                let got = tt_of_bdd(&r, n, &idx);
                if got.as_ref().ok() != Some(&want) {
                    st.violate("c03.pointwise", format!("C03:{}:wrong-value", op), format!("NamedSymbol env: {}({}, {}) = {} table {:?} expected {}", op, short(&a.0), short(&b.0), short(&r), got, want.hex()), case.clone());
                }
                if a.0.as_ref() != a.1.as_ref() || b.0.as_ref() != b.1.as_ref() {
                    st.violate("c03.operands-unchanged", format!("C03:{}:operand-changed", op), "operand changed (NamedSymbol env)".into(), case);
                }
                if !a.2.is_const() && !b.2.is_const() {
                    st.nt.insert(mix(mix(util::hash_str(op), a.2.hash64()), mix(b.2.hash64(), 0x4e)));
                }
            }
            Err(c) => st.violate("c03.panic", format!("C03:{}:{}", op, c.signature()), format!("{:?}", c), case),
        }
    }
    st
}

/// The connectives through the formula language under orderings handed in through the API (dense,
/// 1-based, sparse, descending vectors; with names the ordering does not list): every spelling of
/// every connective over x, y, z, judged pointwise by name.
/// The compile-time route: `rsbdd::bdd!(…)` turns its tokens into a text and evaluates it. What
/// the macro returns is compared with the reference meaning of the same tokens (as `stringify!`
/// renders them here) — word spellings, symbol spellings, keywords.
fn macro_forms(st: &mut Stats) {
    macro_rules! probe {
        ($st:expr, $($t:tt)+) => {{
            let text = stringify!($($t)+);
            let got = rsbdd::bdd!($($t)+);
            judge_macro($st, text, got);
        }};
    }
    fn judge_macro(st: &mut Stats, text: &str, got: anyhow::Result<Rc<BDD<NamedSymbol>>>) {
        st.evals += 1;
        st.bump("macro_forms");
        let case = json!({"kind": "macro", "text": text});
        let Ok(ast) = crate::refsyn::parse_text(text) else {
            st.bump("macro_text_not_a_sentence(skipped)");
            return;
        };
        let Ok((names, want)) = crate::refsem::eval_formula(&ast) else { return };
        match got {
            Ok(d) => match crate::conv::tt_of_named(&d, &names) {
                Ok(t) if t == want => {
                    st.nt.insert(mix(util::hash_str(text), 0x3ac80));
                }
                other => st.violate("c03.pointwise", "C03:macro:wrong-value".into(), format!("bdd!({}) evaluates to {} (table {:?}), pointwise the table over {:?} is {}", text, short(&d), other.map(|t| t.hex()), names, want.hex()), case),
            },
            Err(e) => st.violate("c03.pointwise", "C03:macro:rejected".into(), format!("bdd!({}) fails: {}", text, e), case),
        }
    }
    probe!(st, a and b);
    probe!(st, a or b);
    probe!(st, a xor b);
    probe!(st, a nor b);
    probe!(st, a nand b);
    probe!(st, a implies b);
    probe!(st, a in b);
    probe!(st, a iff b);
    probe!(st, a eq b);
    probe!(st, not a);
    probe!(st, not a and not b);
    probe!(st, if a then b else c);
    probe!(st, if a and b then b or c else not c);
    probe!(st, a & b);
    probe!(st, a | b);
    probe!(st, a ^ b);
    probe!(st, a * b + c);
    probe!(st, a => b);
    probe!(st, a <= b);
    probe!(st, a <=> b);
    probe!(st, -a | !b);
    probe!(st, -(a <= b) and (b implies a));
    probe!(st, exists a # a and b);
    probe!(st, forall a, b # a or c);
    probe!(st, all a # any b # a iff b);
    probe!(st, [a, b, c] >= 2 and not c);
    probe!(st, [a, b] = [c]);
    probe!(st, lfp x # a or x);
    probe!(st, nu x # a and x);
    probe!(st, true and false or a);
    probe!(st, (a nand b) nor (b xor c));
    probe!(st, "a comment" a and "another" b);
}

/// Every connective (and not, ite) on all pairs of functions over two variables in an environment
/// whose table already holds MILLIONS of entries (2.2 million [quick], 17 million [thorough] —
/// beyond 2^21 resp. 2^24): what a connective computes does not depend on how full the table is.
fn huge_table_connectives(st: &mut Stats, filler_nodes: usize) {
    let env: BDDEnv<usize> = BDDEnv::new();
    util::budget(u64::MAX, 1000);
    for i in 0..filler_nodes {
        let _ = env.var(1_000 + i);
    }
    st.max("max_table_size_under_connectives", env.size() as u64);
    let vars: Vec<(usize, u32)> = vec![(3, 0), (7, 1)];
    let idx = |l: &usize| match *l { 3 => Some(0u32), 7 => Some(1), _ => None };
    let all: Vec<(Rc<BDD<usize>>, Tt)> = (0..16u64).map(|b| { let t = Tt::from_u64(2, b); (build_in_env(&env, &t, &vars), t) }).collect();
    for (a, ta) in &all {
        for (b, tb) in &all {
            for op in BIN_OPS.iter() {
                st.evals += 1;
                let case = json!({"kind": "huge-table", "op": op, "a": ta.hex(), "b": tb.hex(), "filler": filler_nodes});
                match guarded(|| apply_engine(&env, op, a, b)) {
                    Ok(r) => {
                        let want = apply_ref(op, ta, tb);
                        if tt_of_bdd(&r, 2, &idx).ok().as_ref() != Some(&want) {
                            st.violate("c03.pointwise", format!("C03:{}:wrong-value", op), format!("in an environment of {} table entries: {}({}, {}) = {} expected table {}", env.size(), op, short(a), short(b), short(&r), want.hex()), case);
                            return;
                        }
                        st.bump("connectives_in_a_huge_table");
                    }
                    Err(c) => {
                        st.violate("c03.panic", format!("C03:{}:{}", op, c.signature()), format!("{:?}", c), case);
                        return;
                    }
                }
            }
        }
        // not and ite
        let r = env.not(Rc::clone(a));
        if tt_of_bdd(&r, 2, &idx).ok().as_ref() != Some(&ta.not()) {
            st.violate("c03.pointwise", "C03:not:wrong-value".into(), format!("in an environment of {} table entries: not({}) = {}", env.size(), short(a), short(&r)), json!({"kind": "huge-table", "op": "not", "filler": filler_nodes}));
            return;
        }
    }
    for k in 0..64usize {
        let (a, b, c) = (&all[k % 16], &all[(k * 7 + 3) % 16], &all[(k * 5 + 1) % 16]);
        let r = env.ite(Rc::clone(&a.0), Rc::clone(&b.0), Rc::clone(&c.0));
        let want = a.1.and(&b.1).or(&a.1.not().and(&c.1));
        if tt_of_bdd(&r, 2, &idx).ok().as_ref() != Some(&want) {
            st.violate("c03.pointwise", "C03:ite:wrong-value".into(), format!("in an environment of {} table entries: ite({}, {}, {}) = {}", env.size(), short(&a.0), short(&b.0), short(&c.0), short(&r)), json!({"kind": "huge-table", "op": "ite", "filler": filler_nodes}));
            return;
        }
    }
    st.nt.insert(mix(0x3_4096, filler_nodes as u64));
}

fn language_connectives(st: &mut Stats) {
    let orderings: [&[(&str, usize)]; 7] = [&[], &[("x", 0)], &[("x", 1)], &[("x", 0), ("z", 3)], &[("z", 4), ("x", 2)], &[("y", 7), ("x", 3), ("z", 5)], &[("z", 1), ("y", 0)]];
    let forms = [
        "x & y", "x and y", "x * y", "x | y", "x or y", "x + y", "x ^ y", "x xor y", "x nor y", "x nand y", "x => y", "x implies y", "x in y", "x <= y", "x <=> y", "x iff y", "x eq y", "-x", "!x", "not x",
        "if x then y else z", "if z then x else y", "x & !y", "-x => -y", "!x <= !y", "not x in not y", "-x implies -y", "-x ^ -y", "-x <=> -y", "-x & -y", "-x | -y", "-x nor -y", "-x nand -y", "-(x & z) => -(y | z)", "-(x | z) <= -(y & z)", "--x => -y", "false <= x", "x <= false", "true => x", "x => true", "false nor x", "true nand x", "false | x", "true & x", "x ^ true", "x <=> false", "if true then x else y", "if false then x else y", "x nand (y nand z)", "x nor (y nor z)", "x nand y nand z", "x nor y nor z", "(x nand y) nand z", "(x nor y) nor z", "x => (y => z)", "(x => y) => z", "x => y => z", "x <= (y <= z)", "x <= y <= z", "x ^ (y ^ z)", "x <=> (y <=> z)", "x & (y & z)", "x | (y | z)", "x nand (y nor z)", "x nor (y nand z)", "(x | y) & -(x & y)", "x <=> (y ^ z)", "(x => y) & (y => z) => (x => z)",
    ];
    // systematically: the negation OF every connective in every spelling, negated operands and
    // results inside other connectives, and every ordered pair of connectives in both groupings
    let mut forms: Vec<String> = forms.iter().map(|s| s.to_string()).collect();
    let spellings = ["&", "and", "*", "|", "or", "+", "^", "xor", "nor", "nand", "=>", "implies", "in", "<=", "<=>", "iff", "eq"];
    for s in spellings {
        for t in ["-(x # y)", "!(x # y)", "not (x # y)", "-(-(x # y))", "-(x # y) # z", "z # -(x # y)", "-(x # -y)", "-(-x # y)", "if -(x # y) then z else (y # x)", "-(if x then y else z) # x", "-((x # y))", "- (x # (y # z))", "-(x # y) & -(y # x)"] {
            forms.push(t.replace('#', s));
        }
    }
    let ops = ["&", "|", "^", "nor", "nand", "=>", "<=", "<=>"];
    for a in ops {
        for b in ops {
            forms.push(format!("(x {} y) {} z", a, b));
            forms.push(format!("x {} (y {} z)", a, b));
            forms.push(format!("x {} y {} z", a, b));
            forms.push(format!("-(x {} y) {} -(y {} z)", a, b, a));
            forms.push(format!("-((x {} y) {} z)", a, b));
        }
    }
    for ord in orderings {
        for text in forms.iter().map(|s| s.as_str()) {
            st.evals += 1;
            st.bump("language_connective_forms");
            let case = json!({"kind": "language-connective", "text": text, "ordering": ord.iter().map(|(n, i)| json!([n, i])).collect::<Vec<_>>()});
            let Ok(ast) = crate::refsyn::parse_text(text) else { continue };
            let Ok((names, want)) = crate::refsem::eval_formula(&ast) else { continue };
            let syms: Option<Vec<NamedSymbol>> = if ord.is_empty() { None } else { Some(ord.iter().map(|(n, i)| NamedSymbol { name: Rc::new(n.to_string()), id: *i }).collect()) };
            util::budget(1_000_000, 100);
            match guarded(|| rsbdd::parser::ParsedFormula::new(&mut std::io::BufReader::new(text.as_bytes()), syms.clone()).map(|pf| pf.eval())) {
                Ok(Ok(d)) => match crate::conv::tt_of_named(&d, &names) {
                    Ok(got) if got == want => {
                        st.nt.insert(mix(util::hash_str(text), ord.len() as u64 * 31 + ord.first().map(|x| x.1 as u64).unwrap_or(99)));
                    }
                    other => st.violate("c03.pointwise", "C03:language:wrong-value".into(), format!("`{}` under the API ordering {:?} evaluates to {} (table {:?}), pointwise the table over {:?} is {}", text, ord, short(&d), other.map(|t| t.hex()), names, want.hex()), case),
                },
                Ok(Err(e)) => st.violate("c03.pointwise", "C03:language:rejected".into(), format!("`{}` under {:?}: {}", text, ord, e), case),
                Err(c) => st.violate("c03.panic", format!("C03:language:{}", c.signature()), format!("`{}` under {:?}: {:?}", text, ord, c), case),
            }
        }
    }
}

pub fn run(ctx: &Ctx) -> (Stats, Spec) {
    let cfgs = configs(3).len();
    // exhaustive binary part: job = (config, chunk of a-indices)
    let chunks = 16usize;
    let parts = util::par_jobs(cfgs * chunks, |job| {
        let mut st = Stats::new();
        let cfg = &configs(3)[job / chunks];
        let chunk = job % chunks;
        let env: BDDEnv<usize> = BDDEnv::new();
        let uni = universe(cfg, false);
        let fa = all_functions(&env, &cfg.la, &uni);
        let fb = all_functions(&env, &cfg.lb, &uni);
        for (ia, a) in fa.iter().enumerate() {
            if ia % chunks != chunk {
                continue;
            }
            for b in fb.iter() {
                for op in BIN_OPS.iter() {
                    check_binary(&mut st, &env, op, a, b, &uni, cfg.name);
                }
            }
        }
        st
    });
    let mut st = crate::report::merge_all(parts);
    st.exhaustive.push("all 256x256 ordered pairs of functions over 3 variables x 8 binary connectives x 5 label configurations".into());

    // exhaustive ite part: 16^3 triples over 2 variables per configuration
    let parts = util::par_jobs(configs(2).len(), |job| {
        let mut st = Stats::new();
        let cfg = &configs(2)[job];
        let env: BDDEnv<usize> = BDDEnv::new();
        let uni = universe(cfg, true);
        let fa = all_functions(&env, &cfg.la, &uni);
        let fb = all_functions(&env, &cfg.lb, &uni);
        let fc = all_functions(&env, &cfg.lc, &uni);
        for a in &fa {
            for b in &fb {
                for c in &fc {
                    check_ite(&mut st, &env, a, b, c, &uni, cfg.name);
                }
            }
        }
        st
    });
    st.merge(crate::report::merge_all(parts));
    st.exhaustive.push("all 16^3 triples of functions over 2 variables for ite x 5 label configurations".into());

    let mut s2 = Stats::new();
    check_unary_and_atoms(&mut s2);
    st.merge(s2);
    st.exhaustive.push("not over all 256 functions x 5 configurations; var and mk_const over every label used".into());

    let iters = ctx.tier.pick(30_000u64, 600_000u64);
    let parts = util::par_jobs(16, |job| {
        let mut s = random_part(ctx, job, iters);
        s.merge(named_part(ctx, job, iters / 2));
        s.merge(foreign_part(ctx, job, iters / 20));
        s.merge(weak_hash_part(ctx, job, iters / 4));
        s.merge(super::wide::wide_job(ctx, "C03", job, iters / 60));
        s
    });
    st.merge(crate::report::merge_all(parts));

    language_connectives(&mut st);
    macro_forms(&mut st);
    super::common::engine_block(&mut st, "C03", "huge-table", |s| huge_table_connectives(s, ctx.tier.pick(2_200_000usize, 17_000_000usize)));
    let spec = Spec {
        rule: "exhaustive: every ordered pair (triple for ite) of Boolean functions over 3 (2) variables in every argument position, under 5 label configurations (adjacent, interleaved-disjoint, extreme indices incl. usize::MAX, overlapping, disjoint-nested); random: operands over 4-6 sparse labels built by random routes with overlapping/nested/disjoint supports, BDDEnv<usize>, BDDEnv<NamedSymbol> (ids that coincide when narrowed to 8, 16 or 32 bits) and an environment over a symbol type whose Hash writes nothing (every same-shape pair of diagrams collides); every spelling of every connective through the formula language under 7 API orderings (none, dense, 1-based, sparse, descending vectors, unlisted names), the negation of every connective and every ordered pair of connectives, and 32 formulas through the compile-time `bdd!` macro (word and symbol spellings, keywords, comments); rounds with operands NOT built by the environment (plain unshared diagrams, dropped after use, thousands of rounds on one environment). distinct = (connective, operand tables, configuration); non-trivial = every operand non-constant. MANY VARIABLES: the same judgement on environments with 65-200 variables (more than a machine word of them), where operands are random DNFs and results are compared pointwise on 48 sampled assignments per case (biased towards the operands' cubes) and walked for order / reduction.".into(),
        assumptions: vec![
            "operands are diagrams produced by the same environment over a common variable order (the statement's precondition)".into(),
            "the value of a diagram is read by following T/F edges from the root (tt_of_bdd), independent of any engine operation".into(),
        ],
        floors: vec![
            ("many_variable_cases".into(), 1_000, "environments with more than 64 variables never exercised".into()),
            ("op_and".into(), 1000, "and never exercised".into()),
            ("op_ite".into(), 1000, "ite never exercised".into()),
            ("op_not".into(), 100, "not never exercised".into()),
            ("named_symbol_calls".into(), 100, "NamedSymbol environment never exercised".into()),
            ("foreign_operand_rounds".into(), 1_000, "operands built outside the environment never exercised".into()),
            ("weak_hash_symbol_calls".into(), 5_000, "environment over a constant-hash symbol type never exercised".into()),
            ("distinct_nontrivial".into(), 1000, "too few non-trivial cases".into()),
        ],
    };
    (st, spec)
}

pub fn replay(_ctx: &Ctx, _monitor: &str, case: &Value, st: &mut Stats) {
    if case.get("kind").and_then(|k| k.as_str()) == Some("wide") {
        super::wide::replay_wide(_ctx, "C03", case, st);
        return;
    }
    let kind = case.get("kind").and_then(|k| k.as_str()).unwrap_or("");
    if kind == "language-connective" {
        language_connectives(st);
        return;
    }
    if kind == "named-binary" {
        let mut c2 = _ctx.clone();
        c2.seed = case.get("seed").and_then(|j| j.as_u64()).unwrap_or(_ctx.seed);
        let job = case.get("job").and_then(|j| j.as_u64()).unwrap_or(0) as usize;
        st.merge(named_part(&c2, job, case.get("iters").and_then(|j| j.as_u64()).unwrap_or(15_000)));
        return;
    }
    let uni: Vec<usize> = case
        .get("universe")
        .and_then(|u| u.as_array())
        .map(|a| a.iter().filter_map(|x| x.as_str().and_then(|s| s.parse().ok())).collect())
        .unwrap_or_default();
    let get = |k: &str| case.get(k).and_then(|v| v.as_str()).and_then(Tt::parse_hex);
    let env: BDDEnv<usize> = BDDEnv::new();
    let vars: Vec<(usize, u32)> = uni.iter().enumerate().map(|(i, l)| (*l, i as u32)).collect();
    let mk = |t: Tt| {
        let d = build_in_env(&env, &t, &vars);
        let snap = deep_copy(&d);
        (d, snap, t)
    };
    if case.get("config").and_then(|c| c.as_str()) == Some("foreign-operands") {
        // history dependent (operands are created and dropped): re-run the foreign-operand rounds of every job
        let rounds = 40_000 / 20;
        for job in 0..16 {
            st.merge(foreign_part(_ctx, job, rounds));
            if !st.violations.is_empty() {
                break;
            }
        }
        return;
    }
    match kind {
        "binary" => {
            if let (Some(a), Some(b), Some(op)) = (get("a"), get("b"), case.get("op").and_then(|o| o.as_str())) {
                let op: &str = BIN_OPS.iter().find(|x| **x == op).copied().unwrap_or("and");
                check_binary(st, &env, op, &mk(a), &mk(b), &uni, "replay");
            }
        }
        "ite" => {
            if let (Some(a), Some(b), Some(c)) = (get("a"), get("b"), get("c")) {
                check_ite(st, &env, &mk(a), &mk(b), &mk(c), &uni, "replay");
            }
        }
        "weak-hash" => {
            let job = case.get("job").and_then(|j| j.as_u64()).unwrap_or(0) as usize;
            let mut c2 = _ctx.clone();
            c2.seed = case.get("seed").and_then(|j| j.as_u64()).unwrap_or(_ctx.seed);
            st.merge(weak_hash_part(&c2, job, 10_000));
        }
        "foreign" => {
            let job = case.get("job").and_then(|j| j.as_u64()).unwrap_or(0) as usize;
            let mut c2 = _ctx.clone();
            c2.seed = case.get("seed").and_then(|j| j.as_u64()).unwrap_or(_ctx.seed);
            st.merge(foreign_part(&c2, job, 3_000));
        }
        _ => {
            let mut s2 = Stats::new();
            check_unary_and_atoms(&mut s2);
            st.merge(s2);
        }
    }
}
