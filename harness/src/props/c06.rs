//! C06 — lfp / gfp denote the least / greatest fixed point of a monotone transformer; lexical
//! scoping; termination; fp(a, t) returns the first element of the orbit that t maps to itself.
//!
//! Monitor: (i) the DEFINITION is checked by brute force: the engine's answer `res` must satisfy
//! T(res) = res and lie below (above) every pre- (post-) fixed point among ALL functions r over the
//! other names; (ii) termination is decided on the H1 fixed-point iteration counter; (iii) the
//! library iterator is driven with table-defined (also non-monotone) maps whose orbit is known.

use super::common::*;
use crate::conv::{build_in_env, short, tt_of_named};
use crate::gen::{self, GenCfg, Style};
use crate::refsem::{EvalError, Sem};
use crate::refsyn::{self, Ast};
use crate::report::{Ctx, Spec, Stats};
use crate::tt::Tt;
use crate::util::{self, guarded, mix, Caught, Rng};
use rsbdd::bdd::BDDEnv;
use rsbdd::NamedSymbol;
use serde_json::{json, Value};
use std::cell::Cell;
use std::rc::Rc;

const STEP_CAP: u64 = 5_000_000;

fn occurs_free(body: &Ast, x: &str) -> bool {
    body.free_names().iter().any(|n| n == x)
}

/// `text` must parse (by the reference) to `Fix(x, gfp, body)` at the root.
pub fn check_fix_text(st: &mut Stats, text: &str, origin: &str) -> bool {
    st.evals += 1;
    let case = || json!({"kind": "language", "text": text, "origin": origin});
    let Ok(ast) = refsyn::parse_text(text) else {
        st.bump("not_a_sentence(skipped)");
        return false;
    };
    let Ast::Fix(x, gfp, body) = &ast else {
        st.bump("root_is_not_a_fixed_point(skipped)");
        return false;
    };
    let names = ast.names_in_text_order();
    let n = names.len() as u32;
    if n > 5 {
        st.bump("too_many_names(skipped)");
        return false;
    }
    let xi = names.iter().position(|s| s == x).unwrap() as u32;
    let others: Vec<u32> = (0..n).filter(|i| *i != xi).collect();
    // all candidate functions r over the names other than X
    let k = others.len() as u32;
    if k > 4 {
        st.bump("candidate_space_too_large(skipped)");
        return false;
    }
    let mut sem = Sem::new(&names);
    let kleene = match sem.eval(&ast) {
        Ok(t) => t,
        Err(EvalError::NonConvergent) => {
            st.bump("reference_iteration_does_not_converge(skipped)");
            return false;
        }
        Err(_) => unreachable!(),
    };
    let ref_iters = sem.fp_iters;
    // T as a function on candidates; monotonicity of the generated body is verified, not assumed
    let ncand: u64 = 1u64 << (1u64 << k);
    let cand = |bits: u64| -> Tt { Tt::from_u64(k, bits).embed(n, &others) };
    let mut images: Vec<Tt> = Vec::with_capacity(ncand as usize);
    let full_enum = ncand <= 256;
    let sample: Vec<u64> = if full_enum { (0..ncand).collect() } else { (0..ncand).step_by((ncand / 4096).max(1) as usize | 1).collect() };
    for bits in &sample {
        let r = cand(*bits);
        let mut s2 = Sem::new(&names);
        match s2.eval_with(body, x, &r) {
            Ok(t) => images.push(t),
            Err(_) => {
                st.bump("inner_fixed_point_not_convergent_for_some_candidate(skipped)");
                return false;
            }
        }
    }
    // monotone?  T is monotone iff adding one assignment to r never removes one from T(r).
    // Small spaces: verified completely here. Large spaces: verified completely before any
    // least/greatest alarm is raised (see `confirm_monotone`).
    if full_enum {
        let width = 1u64 << k;
        for bits in 0..ncand {
            for i in 0..width {
                if (bits >> i) & 1 == 0 && !images[bits as usize].leq(&images[(bits | (1 << i)) as usize]) {
                    st.bump(&format!("body_not_monotone[{}](dropped)", origin));
                    return false;
                }
            }
        }
    } else {
        st.bump("candidate_space_sampled");
    }
    let confirm_monotone = |st: &mut Stats| -> bool {
        if full_enum {
            return true;
        }
        let width = 1u64 << k;
        for bits in 0..ncand {
            let mut s2 = Sem::new(&names);
            let Ok(base) = s2.eval_with(body, x, &cand(bits)) else { return false };
            for i in 0..width {
                if (bits >> i) & 1 == 0 {
                    let Ok(up) = Sem::new(&names).eval_with(body, x, &cand(bits | (1 << i))) else { return false };
                    if !base.leq(&up) {
                        st.bump(&format!("body_not_monotone[{}](dropped)", origin));
                        return false;
                    }
                }
            }
        }
        true
    };
    let fixed_points = sample.iter().enumerate().filter(|(i, b)| images[*i] == cand(**b)).count();
    // the engine
    let fp_cap = ref_iters * 4 + 64;
    let res = match engine_eval(text.as_bytes(), None, STEP_CAP, fp_cap) {
        EngineOut::Ok(ev) => {
            st.add("engine_fixed_point_iterations", ev.fp_iters);
            st.add("reference_fixed_point_iterations", ref_iters);
            match tt_of_named(&ev.result, &names) {
                Ok(t) => (t, short(&ev.result)),
                Err(e) => {
                    st.violate("c06.scope", "C06:foreign-variable".into(), format!("`{}`: {}", text, e), case());
                    return true;
                }
            }
        }
        EngineOut::Rejected(e) => {
            st.violate("c06.accept", "C06:rejects-well-formed".into(), format!("`{}` rejected: {}", text, e), case());
            return true;
        }
        EngineOut::EvalCaught(_, Caught::Budget("steps")) => {
            st.bump("step_budget_exceeded(inconclusive case)");
            return false;
        }
        EngineOut::EvalCaught(_, Caught::Budget(_)) => {
            st.violate(
                "c06.terminates",
                "C06:does-not-terminate-within-lattice-bound".into(),
                format!("`{}`: monotone body; the reference needs {} iterations in total, the engine exceeded {}", text, ref_iters, fp_cap),
                case(),
            );
            return true;
        }
        EngineOut::EvalCaught(_, c) | EngineOut::ParsePanic(c) => {
            st.violate("c06.panic", format!("C06:{}", c.signature()), format!("`{}`: {:?}", text, c), case());
            return true;
        }
    };
    let (res, res_short) = res;
    let kind = if *gfp { "gfp" } else { "lfp" };
    st.bump(&format!("checked_{}", kind));
    // (a) the answer must not depend on X and must be a fixed point
    if res.depends_on(xi) {
        st.violate("c06.scope", format!("C06:{}:answer-depends-on-bound-name", kind), format!("`{}`: the answer {} depends on the bound name {}", text, res_short, x), case());
        return true;
    }
    let mut s3 = Sem::new(&names);
    let t_res = s3.eval_with(body, x, &res).ok();
    if t_res.as_ref() != Some(&res) {
        st.violate(
            "c06.fixed-point",
            format!("C06:{}:not-a-fixed-point", kind),
            format!("`{}`: answer {} (table {}) is not a fixed point: T(answer) = {:?}", text, res_short, res.hex(), t_res.map(|t| t.hex())),
            case(),
        );
        return true;
    }
    // (b) least / greatest among all (pre-/post-) fixed points
    for (i, bits) in sample.iter().enumerate() {
        let r = cand(*bits);
        if !*gfp {
            if images[i].leq(&r) && !res.leq(&r) {
                if !confirm_monotone(st) {
                    return false;
                }
                st.violate(
                    "c06.least",
                    "C06:lfp:not-least".into(),
                    format!("`{}`: answer (table {}) is not below the pre-fixed point r = {} (T(r) = {} is below r)", text, res.hex(), r.hex(), images[i].hex()),
                    case(),
                );
                return true;
            }
        } else if r.leq(&images[i]) && !r.leq(&res) {
            if !confirm_monotone(st) {
                return false;
            }
            st.violate(
                "c06.greatest",
                "C06:gfp:not-greatest".into(),
                format!("`{}`: answer (table {}) is not above the post-fixed point r = {} (r is below T(r) = {})", text, res.hex(), r.hex(), images[i].hex()),
                case(),
            );
            return true;
        }
    }
    if res != kleene {
        // cannot happen if (a) and (b) passed on a fully enumerated monotone body; with sampling it can
        st.violate("c06.kleene", format!("C06:{}:differs-from-reference-iteration", kind), format!("`{}`: answer table {} but iterating from {} gives {}", text, res.hex(), if *gfp { "true" } else { "false" }, kleene.hex()), case());
        return true;
    }
    st.add("competing_candidates_examined", sample.len() as u64);
    let x_matters = images.iter().any(|t| *t != images[0]);
    if occurs_free(body, x) && x_matters && fixed_points >= 2 {
        st.nt.insert(mix(util::hash_str(text), 1));
        st.bump(&format!("nontrivial_{}", kind));
    }
    body.visit(&mut |nd| {
        if let Ast::Fix(y, _, _) = nd {
            st.bump("nested_fixed_points");
            if y == x {
                st.bump("inner_binder_reuses_outer_name");
            }
        }
        if let Ast::Quant(_, vs, _) = nd {
            if vs.contains(x) {
                st.bump("quantifier_shadows_fixed_point_name");
            } else if !vs.is_empty() {
                st.bump("quantifier_inside_body");
            }
        }
    });
    if st.want_sample() && fixed_points >= 2 && st.evals % 211 == 5 {
        st.sample(json!({"text": text, "answer_table": res.hex(), "fixed_points_of_body": fixed_points, "reference_iterations": ref_iters}));
    }
    true
}

fn language_job(ctx: &Ctx, job: usize, iters: u64) -> Stats {
    let mut st = Stats::new();
    let mut rng = Rng::stream(ctx.seed, "C06.language", job as u64);
    for it in 0..iters {
        let pool = ["X", "a", "b", "c", "Y"];
        let k = 2 + rng.usize(if it % 8 == 0 { 4 } else { 3 });
        let names: Vec<&str> = pool[..k].to_vec();
        let mut cfg = GenCfg::simple(&names, 4);
        cfg.binder_weight = 25;
        cfg.max_fix_depth = if it % 3 == 0 { 3 } else { 2 };
        let x = if rng.chance(4, 5) { "X" } else { *rng.pick(&names) };
        let body = gen::gen_monotone_body(&mut rng, &cfg, x);
        let gfp = rng.chance(1, 2);
        let ast = Ast::Fix(x.to_string(), gfp, Box::new(body));
        let style = if rng.chance(1, 2) { Style::Plain } else { Style::Fancy };
        let text = gen::render(&ast, &mut rng, style);
        check_fix_text(&mut st, &text, "generated-monotone");
    }
    st
}

/// RULE SYSTEMS: a monotone body that does NOT distribute over union. The facts are the
/// assignments of 2-3 variables; fact k is derived when a conjunction of one to three EARLIER facts
/// is in X (`exists vars # (X & fact)`, or a universal premise), so something may need two facts
/// that were first found in different rounds — iterating on the newest facts alone stops early.
/// The dual (gfp) removes facts the same way.
fn rule_system_job(ctx: &Ctx, job: usize, iters: u64) -> Stats {
    let mut st = Stats::new();
    let mut rng = Rng::stream(ctx.seed, "C06.rules", job as u64);
    for _ in 0..iters {
        let n = 2 + rng.usize(2);
        let vars: Vec<&str> = ["a", "b", "c"][..n].to_vec();
        let all = vars.join(", ");
        let fact = |k: usize| -> String { format!("({})", (0..n).map(|i| if (k >> i) & 1 == 1 { vars[i].to_string() } else { format!("-{}", vars[i]) }).collect::<Vec<_>>().join(" & ")) };
        let total = 1usize << n;
        let mut order: Vec<usize> = (0..total).collect();
        rng.shuffle(&mut order);
        let derived = 2 + rng.usize(total - 2);
        let gfp = rng.chance(1, 3);
        let mut rules: Vec<String> = Vec::new();
        for (pos, k) in order.iter().enumerate().take(derived) {
            if pos == 0 {
                rules.push(if gfp { format!("-{}", fact(*k)) } else { fact(*k) });
                continue;
            }
            let premises: Vec<usize> = (0..1 + rng.usize(3)).map(|_| order[rng.usize(pos)]).collect();
            if gfp {
                // fact k is removed once one of its premises has been removed
                let ps: Vec<String> = premises.iter().map(|p| format!("(forall {} # (-{} | X))", all, fact(*p))).collect();
                rules.push(format!("(-{} | ({}))", fact(*k), ps.join(" & ")));
            } else {
                let ps: Vec<String> = premises
                    .iter()
                    .map(|p| if rng.chance(1, 5) { format!("(forall {} # ({} => X))", all, fact(*p)) } else { format!("(exists {} # (X & {}))", all, fact(*p)) })
                    .collect();
                rules.push(format!("({} & {})", fact(*k), ps.join(" & ")));
            }
        }
        let text = if gfp { format!("{} X # {}", rng.pick_str(&["gfp", "nu"]), rules.join(" & ")) } else { format!("{} X # {}", rng.pick_str(&["lfp", "mu"]), rules.join(" | ")) };
        if check_fix_text(&mut st, &text, "rule-system") {
            st.bump("rule_system_bodies");
        }
    }
    st
}

/// LARGE propositional bodies in a nest whose inner binder name is ALSO a free variable of the
/// whole formula, its value reaching the inner body through the outer variable:
/// `mu Y # (X & p) | Q p # (nu X # Y & C1 & .. & Ck)` with 8-20 clauses (40-120 syntax nodes), every
/// occurrence of X and Y positive (monotone). Lexical scoping: the inner X is not the free X.
fn large_body_job(ctx: &Ctx, job: usize, iters: u64) -> Stats {
    let mut st = Stats::new();
    let mut rng = Rng::stream(ctx.seed, "C06.largebody", job as u64);
    for _ in 0..iters {
        let lit = |rng: &mut Rng| -> String {
            match rng.below(8) {
                0 | 1 => "X".into(),
                2 | 3 => "Y".into(),
                4 => "p".into(),
                5 => "-p".into(),
                6 => "q".into(),
                _ => "-q".into(),
            }
        };
        let k = 8 + rng.usize(13);
        let clauses: Vec<String> = (0..k)
            .map(|_| match rng.below(3) {
                0 => format!("({} | {} | {})", lit(&mut rng), lit(&mut rng), lit(&mut rng)),
                1 => format!("(({} & {}) | {})", lit(&mut rng), lit(&mut rng), lit(&mut rng)),
                _ => format!("({} | ({} & ({} | {})))", lit(&mut rng), lit(&mut rng), lit(&mut rng), lit(&mut rng)),
            })
            .collect();
        let (outer, inner, glue) = match rng.below(4) {
            0 => ("mu", "nu", "&"),
            1 => ("lfp", "lfp", "|"),
            2 => ("gfp", "nu", "&"),
            _ => ("nu", "mu", "|"),
        };
        let body = clauses.join(if glue == "&" { " & " } else { " | " });
        let text = match rng.below(4) {
            0 => format!("{} Y # (X & p) | ({} X # Y {} {})", outer, inner, glue, body),
            1 => format!("{} Y # (X & p) | (exists p # {} X # Y {} {})", outer, inner, glue, body),
            2 => format!("{} Y # (X | q) & ({} X # (Y | p) {} {})", outer, inner, glue, body),
            _ => format!("{} Y # X | ({} X # {} {} Y)", outer, inner, body, glue),
        };
        if check_fix_text(&mut st, &text, "large-propositional-inner-body") {
            st.bump("large_inner_bodies_under_a_reused_name");
        }
    }
    st
}

fn exhaustive_job(job: usize, jobs: usize) -> Stats {
    // every tree with <= 2 operator nodes over {a, b} as the body of lfp/gfp a (only monotone ones are judged)
    let mut st = Stats::new();
    let mut bodies = enum_trees(0);
    bodies.extend(enum_trees(1));
    bodies.extend(enum_trees(2));
    for (i, b) in bodies.iter().enumerate() {
        if i % jobs != job {
            continue;
        }
        for gfp in [false, true] {
            let ast = Ast::Fix("a".into(), gfp, Box::new(b.clone()));
            let text = gen::render_plain(&ast);
            if check_fix_text(&mut st, &text, "exhaustive-bodies") {
                st.bump("exhaustive_bodies_judged");
            }
        }
    }
    st
}

/// One fp(a, t) call on a table-defined map over the 16 functions of two variables, in an
/// environment over any symbol type. None = the orbit has no self-loop (fp may legitimately loop).
fn fp_orbit_case<S: rsbdd::BDDSymbol + std::fmt::Debug>(st: &mut Stats, labels: [S; 2], g: &[usize], start: usize, weak: bool) -> Option<()> {
    let vars: Vec<(S, u32)> = labels.iter().cloned().enumerate().map(|(i, l)| (l, i as u32)).collect();
    let env: BDDEnv<S> = BDDEnv::new();
    let fs: Vec<Rc<rsbdd::bdd::BDD<S>>> = (0..16u64).map(|b| build_in_env(&env, &Tt::from_u64(2, b), &vars)).collect();
    // reference orbit
    let mut orbit = vec![start];
    let mut expected = None;
    for _ in 0..40 {
        let cur = *orbit.last().unwrap();
        if g[cur] == cur {
            expected = Some((cur, orbit.len()));
            break;
        }
        if orbit.contains(&g[cur]) {
            break; // cycle without a fixed point: fp would legitimately loop
        }
        orbit.push(g[cur]);
    }
    let (want_idx, want_calls) = expected?;
    st.evals += 1;
    st.bump(if weak { "fp_api_calls_weak_hash_symbols" } else { "fp_api_calls" });
    let calls = Cell::new(0u64);
    let case = json!({"kind": "api", "map": g, "start": start, "weak": weak});
    let sym = if weak { " (constant-hash symbols)" } else { "" };
    util::budget(1_000_000, 100);
    let r = guarded(|| {
        env.fp(Rc::clone(&fs[start]), |r| {
            calls.set(calls.get() + 1);
            // the closure calls back into the environment (operations on the iterate)
            let same = env.or(Rc::clone(&r), env.mk_const(false));
            let i = fs.iter().position(|f| f.as_ref() == same.as_ref()).expect("iterate is one of the 16 functions");
            Rc::clone(&fs[g[i]])
        })
    });
    match r {
        Ok(d) => {
            if d.as_ref() != fs[want_idx].as_ref() {
                st.violate("c06.fp-api", "C06:fp:wrong-element".into(), format!("fp{} from #{} under map {:?} returned {} but the first element mapped to itself is #{} = {}", sym, start, g, short(&d), want_idx, short(&fs[want_idx])), case);
            } else if calls.get() != want_calls as u64 {
                st.violate("c06.fp-api", "C06:fp:wrong-number-of-applications".into(), format!("fp{} from #{} under map {:?}: transformer applied {} times, orbit index + 1 = {}", sym, start, g, calls.get(), want_calls), case);
            } else {
                st.nt.insert(mix(util::hash_str(&format!("{:?}{}", g, weak)), start as u64));
                st.max("max_orbit_length", want_calls as u64);
            }
        }
        Err(Caught::Budget(_)) => st.violate("c06.fp-api", "C06:fp:does-not-stop-at-self-loop".into(), format!("fp{} from #{} under map {:?} did not stop after {} applications (expected {})", sym, start, g, calls.get(), want_calls), case),
        Err(c) => st.violate("c06.panic", format!("C06:fp:{}", c.signature()), format!("{:?}", c), case),
    }
    Some(())
}

/// fp(a, t) on table-defined maps over the 16 functions of two variables; every fourth call in an
/// environment whose symbol type has a constant `Hash` (all same-shape diagrams collide).
fn api_job(ctx: &Ctx, job: usize, iters: u64) -> Stats {
    let mut st = Stats::new();
    let mut rng = Rng::stream(ctx.seed, "C06.api", job as u64);
    for it in 0..iters {
        // arbitrary (mostly non-monotone) map with a few self-loops
        let mut g: Vec<usize> = (0..16).map(|_| rng.usize(16)).collect();
        for _ in 0..(1 + rng.usize(3)) {
            let i = rng.usize(16);
            g[i] = i;
        }
        let start = rng.usize(16);
        let done = if it % 4 == 3 {
            fp_orbit_case(&mut st, [super::c03::WeakSym(3), super::c03::WeakSym(9)], &g, start, true)
        } else {
            fp_orbit_case(&mut st, [3usize, usize::MAX], &g, start, false)
        };
        if done.is_none() {
            st.bump("orbit_without_self_loop(skipped)");
        }
    }
    st
}

/// The least and the greatest fixed point of ONE body (same bound name) side by side in one
/// formula: each keeps its own meaning.
fn both_kinds(ctx: &Ctx, st: &mut Stats) {
    let mut rng = Rng::stream(ctx.seed, "C06.bothkinds", 0);
    let names = ["a", "b", "c"];
    let mut cfg = GenCfg::simple(&names, 2);
    cfg.allow_fix = false;
    let n = ctx.tier.pick(400u64, 6_000u64);
    for i in 0..n {
        let f = gen::render(&gen::gen_ast(&mut rng, &cfg), &mut rng, Style::Plain);
        let g = gen::render(&gen::gen_ast(&mut rng, &cfg), &mut rng, Style::Plain);
        // monotone in X by construction
        let body = match i % 3 {
            0 => format!("({}) | (X & ({}))", f, g),
            1 => format!("({}) & (X | ({}))", f, g),
            _ => format!("({}) | (exists a # (X & ({})))", f, g),
        };
        let text = match i % 4 {
            0 => format!("(gfp X # {b}) & -(lfp X # {b})", b = body),
            1 => format!("(mu X # {b}) <=> (nu X # {b})", b = body),
            2 => format!("(lfp X # {b}) => (gfp X # {b})", b = body),
            _ => format!("[lfp X # {b}, gfp X # {b}, a] = 2", b = body),
        };
        judge_both(st, &text);
    }
}

fn judge_both(st: &mut Stats, text: &str) {
    st.evals += 1;
    let Ok(ast) = refsyn::parse_text(&text) else { return };
    let Ok((rnames, want)) = crate::refsem::eval_formula(&ast) else { return };
    st.bump("least_and_greatest_of_one_body");
    let case = json!({"kind": "both-kinds", "text": text});
    match engine_eval(text.as_bytes(), None, STEP_CAP, 10_000) {
        EngineOut::Ok(ev) => match tt_of_named(&ev.result, &rnames) {
        Ok(got) if got == want => {
            st.nt.insert(util::hash_str(&text));
        }
        other => st.violate("c06.fixed-point", "C06:both-kinds:wrong-value".into(), format!("`{}` evaluates to {} (table {:?}), the reference table over {:?} is {}", text, short(&ev.result), other.map(|t| t.hex()), rnames, want.hex()), case),
        },
        EngineOut::EvalCaught(_, Caught::Budget("steps")) => st.bump("step_budget_exceeded(inconclusive case)"),
        EngineOut::EvalCaught(_, c) => st.violate("c06.fixed-point", format!("C06:both-kinds:{}", c.signature()), format!("`{}`: {:?}", text, c), case),
        EngineOut::Rejected(e) => st.violate("c06.fixed-point", "C06:both-kinds:rejected".into(), format!("`{}`: {}", text, e), case),
        EngineOut::ParsePanic(c) => st.violate("c06.panic", format!("C06:both-kinds:{}", c.signature()), format!("`{}`: {:?}", text, c), case),
    }
}

/// Fixed points inside formulas whose evaluation fills the table with MORE THAN 65 536 entries
/// (the equality of two 12-16-bit vectors under the order "all p, then all q" is exponential), with
/// a CONSTANT fixed point next to further work: `(lfp X # X & BIG) | z` denotes z,
/// `(gfp X # X | BIG) & z` denotes z, and so on. The value is known by construction.
fn big_table_fixed_points(ctx: &Ctx, st: &mut Stats) {
    for bits in ctx.tier.pick(vec![14usize, 15], vec![12, 13, 14, 15, 16]) {
        let p: Vec<String> = (0..bits).map(|i| format!("p{}", i)).collect();
        let q: Vec<String> = (0..bits).map(|i| format!("q{}", i)).collect();
        let big = (0..bits).map(|i| format!("(p{} <=> q{})", i, i)).collect::<Vec<_>>().join(" & ");
        let ordering: Vec<NamedSymbol> = p.iter().chain(q.iter()).chain(["z".to_string(), "y".to_string()].iter()).enumerate().map(|(i, n)| NamedSymbol { name: Rc::new(n.clone()), id: i }).collect();
        // (text, the single variable the whole formula must equal)
        let cases = [
            (format!("(lfp X # X & ({})) | z", big), "z"),
            (format!("(gfp X # X | ({})) & z", big), "z"),
            (format!("z & -(lfp X # X & ({}))", big), "z"),
            (format!("((mu X # X & ({})) | y) & ((nu X # X | ({})) & y)", big, big), "y"),
            (format!("exists {} # ((gfp X # X | ({})) & z)", p.join(", "), big), "z"),
        ];
        for (text, var) in cases {
            st.evals += 1;
            let case = || json!({"kind": "big-table-fixed-point", "bits": bits, "var": var});
            match engine_eval(text.as_bytes(), Some(ordering.clone()), 2_000_000_000, 1_000) {
                EngineOut::Ok(ev) => {
                    let ok = match ev.result.as_ref() {
                        rsbdd::bdd::BDD::Choice(t, l, e) => l.name.as_ref() == var && matches!(t.as_ref(), rsbdd::bdd::BDD::True) && matches!(e.as_ref(), rsbdd::bdd::BDD::False),
                        _ => false,
                    };
                    if ok {
                        st.bump("fixed_points_in_a_large_table");
                        st.nt.insert(mix(0xb16, bits as u64 * 8 + text.len() as u64 % 8));
                    } else {
                        st.violate("c06.fixed-point", "C06:big-table:wrong-value".into(), format!("a formula that denotes `{}` (a constant fixed point of a {}-bit equality next to it; more than 65 536 table entries) evaluates to {}", var, bits, short(&ev.result)), case());
                    }
                }
                EngineOut::EvalCaught(_, Caught::Budget(_)) => st.bump("step_budget_exceeded(inconclusive case)"),
                EngineOut::Rejected(e) => st.violate("c06.accept", "C06:rejects-well-formed".into(), format!("big-table formula rejected: {}", e), case()),
                EngineOut::EvalCaught(_, c) | EngineOut::ParsePanic(c) => st.violate("c06.panic", format!("C06:{}", c.signature()), format!("a formula that denotes `{}` (constant fixed point of a {}-bit equality; more than 65 536 table entries): {:?}", var, bits, c), case()),
            }
        }
    }
}

/// Chains of HUNDREDS of rounds (more than an 8-bit counter holds): the walk through the first
/// K = 2^n - 3 assignments of n = 8..10 variables, one per round. The least fixed point is the
/// set of the K assignments visited (its complement for the dual); the engine must get there and
/// must have needed at least K rounds.
fn very_long_chains(ctx: &Ctx, st: &mut Stats) {
    for n in ctx.tier.pick(vec![8usize], vec![8, 9, 10]) {
        let names: Vec<String> = (0..n).map(|i| format!("w{}", i)).collect();
        let minterm = |k: usize| -> String { format!("({})", (0..n).map(|i| if (k >> i) & 1 == 1 { names[i].clone() } else { format!("-{}", names[i]) }).collect::<Vec<_>>().join(" & ")) };
        let all = names.join(", ");
        let last = (1usize << n) - 3;
        let steps: Vec<String> = (1..last).map(|k| format!("({} & exists {} # ({} & X))", minterm(k), all, minterm(k - 1))).collect();
        let lfp = format!("lfp X # {} | {}", minterm(0), steps.join(" | "));
        let dsteps: Vec<String> = (1..last).map(|k| format!("(-{} | forall {} # (-{} | X))", minterm(k), all, minterm(k - 1))).collect();
        let gfp = format!("gfp X # -{} & {}", minterm(0), dsteps.join(" & "));
        let mut visited = Tt::constant(n as u32, false);
        for k in 0..last {
            visited.set(k as u64, true);
        }
        for (text, want, kind) in [(lfp, visited.clone(), "lfp"), (gfp, visited.not(), "gfp")] {
            st.evals += 1;
            let case = || json!({"kind": "very-long-chain", "n": n, "which": kind});
            match engine_eval(text.as_bytes(), None, 4_000_000_000, (last as u64) * 4 + 64) {
                EngineOut::Ok(ev) => match tt_of_named(&ev.result, &names) {
                    Ok(got) if got == want && ev.fp_iters + 2 >= last as u64 => {
                        st.bump("very_long_chain_fixed_points");
                        st.max("max_fixed_point_rounds", ev.fp_iters);
                        st.nt.insert(mix(0xc4a1, n as u64 * 2 + (kind == "gfp") as u64));
                    }
                    Ok(got) if got == want => st.violate("c06.fixed-point", format!("C06:{}:rounds-not-counted", kind), format!("{} of a walk through {} assignments of {} variables: right answer after only {} rounds?", kind, last, n, ev.fp_iters), case()),
                    Ok(got) => st.violate("c06.fixed-point", format!("C06:{}:long-chain-wrong-value", kind), format!("{} of a walk through {} assignments of {} variables (one per round): the answer covers {} assignments, the fixed point covers {} ({} rounds)", kind, last, n, got.count_ones(), want.count_ones(), ev.fp_iters), case()),
                    Err(e) => st.violate("c06.scope", "C06:foreign-variable".into(), format!("very long {} chain over {} variables: {}", kind, n, e), case()),
                },
                EngineOut::EvalCaught(_, Caught::Budget("steps")) => st.bump("step_budget_exceeded(inconclusive case)"),
                EngineOut::EvalCaught(_, Caught::Budget(_)) => st.violate("c06.terminates", "C06:does-not-terminate-within-lattice-bound".into(), format!("very long {} chain over {} variables: more than {} rounds", kind, n, last * 4 + 64), case()),
                EngineOut::Rejected(e) => st.violate("c06.accept", "C06:rejects-well-formed".into(), format!("very long {} chain over {} variables rejected: {}", kind, n, e), case()),
                EngineOut::EvalCaught(_, c) | EngineOut::ParsePanic(c) => st.violate("c06.panic", format!("C06:{}", c.signature()), format!("very long {} chain over {} variables: {:?}", kind, n, c), case()),
            }
        }
    }
}

pub fn run(ctx: &Ctx) -> (Stats, Spec) {
    let mut st = Stats::new();
    let parts = util::par_jobs(32, |job| exhaustive_job(job, 32));
    st.merge(crate::report::merge_all(parts));
    st.exhaustive.push("every formula tree with <= 2 operator nodes over {a, b} as body of `lfp a #` and `gfp a #` (monotone ones judged against all 4 candidate functions of b)".into());
    let (iters, api) = ctx.tier.pick((10_000u64, 5_000u64), (250_000u64, 100_000u64));
    let parts = util::par_jobs(16, |job| {
        let mut s = language_job(ctx, job, iters);
        s.merge(rule_system_job(ctx, job, iters / 20));
        s.merge(large_body_job(ctx, job, iters / 40));
        s.merge(api_job(ctx, job, api));
        s
    });
    st.merge(crate::report::merge_all(parts));
    for t in [
        "gfp X # X", "lfp X # X", "nu X # X", "mu X # X", "gfp X # a", "lfp X # a", "gfp X # true", "lfp X # false", "lfp X # a | X", "gfp X # a & X", "lfp X # a | exists b # (b & X)",
        "lfp X # (a & b) | exists a # X", "gfp X # forall X # X", "lfp X # lfp X # X | a", "lfp X # a | gfp Y # (X & Y)", "gfp X # [X, a, b] >= 2", "lfp X # [X, a] >= [b]", "lfp X # if a then X else b", "lfp X # - - (X | a)", "lfp X # -(-X & -a)",
    ] {
        check_fix_text(&mut st, t, "readme-and-scoping");
    }
    both_kinds(ctx, &mut st);
    very_long_chains(ctx, &mut st);
    big_table_fixed_points(ctx, &mut st);
    // LONG chains: the iteration walks through the assignments one per round (2^n rounds over n
    // variables — far more than the number of variables or names of the formula)
    for n in ctx.tier.pick(vec![3usize, 4], vec![2, 3, 4, 5]) {
        let names: Vec<String> = (0..n).map(|i| format!("v{}", i)).collect();
        let minterm = |k: usize| -> String { format!("({})", (0..n).map(|i| if (k >> i) & 1 == 1 { names[i].clone() } else { format!("-{}", names[i]) }).collect::<Vec<_>>().join(" & ")) };
        let all = names.join(", ");
        let steps: Vec<String> = (1..(1usize << n)).map(|k| format!("({} & exists {} # ({} & X))", minterm(k), all, minterm(k - 1))).collect();
        let lfp = format!("lfp X # {} | {}", minterm(0), steps.join(" | "));
        // dual: start from true, remove one assignment per round
        let dsteps: Vec<String> = (1..(1usize << n)).map(|k| format!("(-{} | forall {} # (-{} | X))", minterm(k), all, minterm(k - 1))).collect();
        let gfp = format!("gfp X # -{} & {}", minterm(0), dsteps.join(" & "));
        for t in [lfp.clone(), gfp.clone(), lfp.replacen("lfp", "mu", 1), gfp.replacen("gfp", "nu", 1)] {
            if check_fix_text(&mut st, &t, "long-chain") {
                st.bump("long_chain_fixed_points");
            }
        }
    }
    let spec = Spec {
        rule: "bodies from a polarity-tracking generator (X under and/or/ite branches/quantifiers/at-least counting/left list of >=/even negation; nested and mixed lfp/gfp up to depth 3; inner binders and quantifiers reusing the outer name; aliases mu/nu), RULE SYSTEMS (facts = the assignments of 2-3 variables, each derived from a conjunction of one to three earlier facts read off X through exists / forall — monotone bodies that do not distribute over union; duals for gfp), nests with a LARGE propositional inner body (8-20 clauses, 40-120 syntax nodes) whose binder name is also a free variable of the formula, every small tree as body, README identities, the least and the greatest fixed point of ONE body (same bound name) side by side in one formula, LONG chains (the fixed point of a walk through all 2^n assignments of 3-4 [quick] / 2-5 [thorough] variables, one per round, and its dual; and chains of 253 [quick] / 253, 509, 1021 [thorough] rounds over 8-10 variables whose fixed point is known by construction). For each: ALL functions over the other names (<= 3 names: 256 candidates; 4 names: 4096 sampled) are enumerated as competing (pre/post-)fixed points; the generated body's monotonicity is verified on all comparable pairs. API: fp(a, t) with random table-defined maps on the 16 functions of two variables whose orbit ends in a self-loop; the closure counts its applications and calls back into the environment; a quarter of the calls run in an environment whose symbol type has a constant Hash (every pair of same-shape diagrams collides), so that `mapped to itself` cannot be confused with `same hash`. distinct = text resp. (map, start); non-trivial = X occurs free, T depends on X and T has >= 2 fixed points.".into(),
        assumptions: vec![
            "non-monotone or non-convergent bodies are never handed to the engine (it may legitimately loop; the README says so)".into(),
            "'evaluation terminates' is decided as: total fixed-point iterations <= 4 x the reference's count + 64 (a monotone chain cannot be longer than the lattice height)".into(),
        ],
        floors: vec![
            ("nontrivial_lfp".into(), 200, "too few non-trivial lfp bodies".into()),
            ("nontrivial_gfp".into(), 200, "too few non-trivial gfp bodies".into()),
            ("nested_fixed_points".into(), 100, "nesting never exercised".into()),
            ("quantifier_shadows_fixed_point_name".into(), 20, "shadowing by a quantifier never exercised".into()),
            ("inner_binder_reuses_outer_name".into(), 20, "shadowing by an inner fixed point never exercised".into()),
            ("fp_api_calls".into(), 1_000, "fp API never exercised".into()),
            ("long_chain_fixed_points".into(), 4, "long iteration chains never exercised".into()),
            ("large_inner_bodies_under_a_reused_name".into(), 500, "large propositional inner bodies never exercised".into()),
            ("rule_system_bodies".into(), 1_000, "rule-system bodies (monotone, not distributive) never exercised".into()),
            ("very_long_chain_fixed_points".into(), 2, "iteration chains of hundreds of rounds never exercised".into()),
            ("least_and_greatest_of_one_body".into(), 100, "lfp and gfp of one body side by side never exercised".into()),
            ("fp_api_calls_weak_hash_symbols".into(), 300, "fp over colliding hashes never exercised".into()),
        ],
    };
    (st, spec)
}

pub fn replay(_ctx: &Ctx, _monitor: &str, case: &Value, st: &mut Stats) {
    if case.get("kind").and_then(|k| k.as_str()) == Some("api") {
        // re-run the recorded map
        let g: Vec<usize> = case.get("map").and_then(|m| m.as_array()).map(|a| a.iter().filter_map(|x| x.as_u64().map(|v| v as usize)).collect()).unwrap_or_default();
        let start = case.get("start").and_then(|s| s.as_u64()).unwrap_or(0) as usize;
        if g.len() != 16 || start >= 16 {
            return;
        }
        if case.get("weak").and_then(|w| w.as_bool()).unwrap_or(false) {
            fp_orbit_case(st, [super::c03::WeakSym(3), super::c03::WeakSym(9)], &g, start, true);
        } else {
            fp_orbit_case(st, [3usize, usize::MAX], &g, start, false);
        }
        return;
    }
    if case.get("kind").and_then(|k| k.as_str()) == Some("both-kinds") {
        if let Some(t) = case.get("text").and_then(|t| t.as_str()) {
            judge_both(st, t);
        }
        return;
    }
    if let Some(t) = case.get("text").and_then(|t| t.as_str()) {
        check_fix_text(st, t, "replay");
    }
}
