//! C20 — dropping forced choices (-c) is sound in the direction of the chosen filter.

use super::common::*;
use crate::cli;
use crate::conv::{build_in_env, check_ordered_reduced, labels_of, short, tt_of_bdd};
use crate::gen::{self, GenCfg, Style};
use crate::refsem;
use crate::refsyn;
use crate::report::{Ctx, Spec, Stats};
use crate::tt::Tt;
use crate::util::{self, guarded, mix, Rng};
use rsbdd::bdd::{BDDEnv, BDD};
use rsbdd::TruthTableEntry;
use serde_json::{json, Value};
use std::rc::Rc;
use std::time::Duration;

fn check_retain(st: &mut Stats, env: &BDDEnv<usize>, uni: &[usize], f: &(D, Tt), fam: &str) {
    let n = uni.len() as u32;
    let idx = idx_fn(uni);
    let support: Vec<usize> = f.1.support().iter().map(|i| uni[*i as usize]).collect();
    for (fname, filter) in [("True", TruthTableEntry::True), ("False", TruthTableEntry::False), ("Any", TruthTableEntry::Any)] {
        st.evals += 1;
        st.bump(&format!("filter_{}", fname));
        let case = || json!({"kind": "retain", "f": f.1.hex(), "universe": labels_json(uni), "filter": fname});
        util::budget(20_000_000, 1000);
        let handed = hand_over(&f.0, st.evals);
        let r = match guarded(move || env.retain_choice_bottom_up(handed, filter)) {
            Ok(r) => r,
            Err(c) => {
                st.violate("c20.panic", format!("C20:{}:{}", fname, c.signature()), format!("retain({}, {}) did not return: {:?}", short(&f.0), fname, c), case());
                continue;
            }
        };
        let rt = match tt_of_bdd(&r, n, &idx) {
            Ok(t) => t,
            Err(e) => {
                st.violate("c20.support", format!("C20:{}:foreign-variable", fname), e, case());
                continue;
            }
        };
        match fname {
            "True" => {
                if !f.1.leq(&rt) {
                    let a = f.1.and(&rt.not()).first_one().unwrap_or(0);
                    st.violate("c20.direction", "C20:True:loses-a-model".into(), format!("assignment #{} satisfies f = {} but not retain(f, True) = {}", a, short(&f.0), short(&r)), case());
                }
            }
            "False" => {
                if !rt.leq(&f.1) {
                    let a = rt.and(&f.1.not()).first_one().unwrap_or(0);
                    st.violate("c20.direction", "C20:False:gains-a-model".into(), format!("assignment #{} satisfies retain(f, False) = {} but not f = {}", a, short(&r), short(&f.0)), case());
                }
            }
            _ => {
                if r.as_ref() != f.0.as_ref() {
                    st.violate("c20.any-identity", "C20:Any:not-f".into(), format!("retain(f, Any) = {} differs from f = {}", short(&r), short(&f.0)), case());
                }
            }
        }
        if let Err(m) = check_ordered_reduced(&r) {
            st.violate("c20.walker", format!("C20:{}:not-ordered-reduced", fname), format!("{} in retain({}, {}) = {}", m, short(&f.0), fname, short(&r)), case());
        } else {
            st.add("nodes_walked", crate::conv::count_nodes(&r));
            // reduced also at node level: no two nodes of the result with the same structure at
            // different addresses (judged when the operand itself has none)
            if crate::conv::structural_twins(&f.0) == 0 {
                let twins = crate::conv::structural_twins(&r);
                st.bump("results_checked_for_twin_nodes");
                if twins > 0 {
                    st.violate("c20.walker", format!("C20:{}:twin-nodes", fname), format!("retain({}, {}) = {} contains {} node(s) that duplicate another node of the result at a different address", short(&f.0), fname, short(&r), twins), case());
                }
            }
        }
        if let Some(bad) = labels_of(&r).iter().find(|l| !support.contains(l)) {
            st.violate("c20.support", format!("C20:{}:variable-outside-support", fname), format!("retain({}, {}) = {} mentions {} which f does not depend on", short(&f.0), fname, short(&r), bad), case());
        }
        if fname != "Any" && r.as_ref() != f.0.as_ref() {
            st.nt.insert(mix(mix(f.1.hash64(), util::hash_str(fname)), util::hash_str(fam)));
            st.bump("results_with_dropped_choices");
            if st.want_sample() && st.evals % 3001 == 7 {
                st.sample(json!({"f": short(&f.0), "filter": fname, "result": short(&r)}));
            }
        }
    }
}

fn exhaustive_job(k: usize, fam: usize, chunk: usize, chunks: usize) -> Stats {
    let mut st = Stats::new();
    let (labels, name): (Vec<usize>, &str) = match (k, fam) {
        (1, _) => (vec![5], "one"),
        (2, _) => (vec![0, usize::MAX], "two"),
        (3, 0) => (vec![0, 1, 2], "adjacent3"),
        (3, _) => (vec![2, 9, usize::MAX], "sparse3"),
        (_, 0) => (vec![0, 1, 2, 3], "adjacent4"),
        (_, _) => (vec![1, 5, 1 << 40, usize::MAX], "sparse4"),
    };
    let vars = vars_of(&labels);
    let mut env: BDDEnv<usize> = BDDEnv::new();
    let total = 1u64 << (1u32 << k);
    let mut cnt = 0;
    for bits in 0..total {
        if (bits as usize) % chunks != chunk {
            continue;
        }
        cnt += 1;
        if cnt % 256 == 0 {
            env = BDDEnv::new();
        }
        let t = Tt::from_u64(k as u32, bits);
        // every third diagram is not built by this environment (plain unshared nodes)
        let d = if bits % 3 == 1 {
            st.bump("foreign_diagrams");
            crate::conv::build_ref(&t, &vars)
        } else {
            build_in_env(&env, &t, &vars)
        };
        check_retain(&mut st, &env, &labels, &(d, t), name);
    }
    st
}

fn random_job(ctx: &Ctx, job: usize, iters: u64) -> Stats {
    let mut st = Stats::new();
    let mut rng = Rng::stream(ctx.seed, "C20.random", job as u64);
    let mut env: BDDEnv<usize> = BDDEnv::new();
    for it in 0..iters {
        if it % 300 == 0 {
            env = BDDEnv::new();
        }
        let nvars = 5 + rng.usize(4);
        let uni = pick_labels(&mut rng, &LABEL_POOL, nvars);
        // functions with many forced choices: conjunction / disjunction of a literal with a random function
        let mut t = random_table_subset(&mut rng, nvars as u32);
        for _ in 0..rng.usize(3) {
            let i = rng.below(nvars as u64) as u32;
            let v = if rng.chance(1, 2) { Tt::var(nvars as u32, i) } else { Tt::var(nvars as u32, i).not() };
            t = if rng.chance(1, 2) { t.and(&v) } else { t.or(&v) };
        }
        let d = if rng.chance(1, 3) { crate::conv::build_ref(&t, &vars_of(&uni)) } else { build_in_env(&env, &t, &vars_of(&uni)) };
        check_retain(&mut st, &env, &uni, &(d, t), "random");
        st.bump("random_functions");
    }
    st
}

/// `rsbdd -e <formula> -c t|f -t` : table of the retained diagram vs the reference implication
/// Diagrams with MANY PATHS (a parity of 16-21 variables has 2^16 .. 2^21 paths through some 40
/// nodes) around a part with forced and unforced choices: f = r ? parity(x..) : g(p, q, ..). The
/// direction is judged on sampled assignments, the kept / dropped choices of the small part exactly.
fn many_paths_case(st: &mut Stats, nvars: usize, shape: usize, seed: u64) {
    let mut rng = Rng::stream(seed, "C20.manypaths", (nvars * 10 + shape) as u64);
    let env: BDDEnv<usize> = BDDEnv::new();
    // labels: r = 0 on top, x_i = 1..=nvars, then p, q, s below
    let (p, q, s) = (nvars + 1, nvars + 2, nvars + 3);
    let mut parity = env.mk_const(false);
    for i in (1..=nvars).rev() {
        parity = env.xor(env.var(i), parity);
    }
    let small = match shape {
        0 => env.or(env.var(p), env.var(q)),
        1 => env.and(env.var(p), env.or(env.var(q), env.var(s))),
        2 => env.or(env.var(p), env.and(env.var(q), env.var(s))),
        _ => env.ite(env.var(p), env.var(q), env.not(env.var(s))),
    };
    let f = match shape % 2 {
        0 => env.ite(env.var(0), Rc::clone(&parity), Rc::clone(&small)),
        _ => env.ite(env.var(0), Rc::clone(&small), Rc::clone(&parity)),
    };
    let eval = |d: &D, asg: &dyn Fn(usize) -> bool| -> bool {
        let mut cur = Rc::clone(d);
        loop {
            let next = match cur.as_ref() {
                BDD::True => return true,
                BDD::False => return false,
                BDD::Choice(t, l, e) => if asg(*l) { Rc::clone(t) } else { Rc::clone(e) },
            };
            cur = next;
        }
    };
    for (fname, filter) in [("True", TruthTableEntry::True), ("False", TruthTableEntry::False)] {
        st.evals += 1;
        let case = json!({"kind": "many-paths", "nvars": nvars, "shape": shape, "seed": seed});
        util::budget(u64::MAX, 1000);
        let r = match guarded(|| env.retain_choice_bottom_up(Rc::clone(&f), filter)) {
            Ok(r) => r,
            Err(c) => {
                st.violate("c20.panic", format!("C20:many-paths:{}", c.signature()), format!("{:?}", c), case);
                continue;
            }
        };
        let mut bad = None;
        for k in 0..4000u64 {
            let bits = mix(seed ^ k, 0x20_2020);
            // half of the samples on the side of the small part, with every combination of p, q, s
            let asg = |l: usize| -> bool {
                if l == 0 { (k % 2 == 0) == (shape % 2 == 1) } else if l == p { (k >> 1) & 1 == 1 } else if l == q { (k >> 2) & 1 == 1 } else if l == s { (k >> 3) & 1 == 1 } else { (bits >> (l % 60)) & 1 == 1 }
            };
            let (fv, rv) = (eval(&f, &asg), eval(&r, &asg));
            let ok = if fname == "True" { !fv || rv } else { !rv || fv };
            if !ok {
                bad = Some(format!("r={} p={} q={} s={} (x sampled): f is {}, the result is {}", asg(0) as u8, asg(p) as u8, asg(q) as u8, asg(s) as u8, fv, rv));
                break;
            }
        }
        match bad {
            Some(m) => st.violate("c20.direction", format!("C20:{}:{}", fname, if fname == "True" { "loses-a-model" } else { "gains-a-model" }), format!("f = r ? parity of {} variables : small part (shape {}), filter {}: under {} — the result {} f", nvars, shape, fname, m, if fname == "True" { "is not implied by" } else { "does not imply" }), case),
            None => {
                st.bump("many_path_diagrams_retained");
                st.max("max_paths_log2", nvars as u64);
                st.nt.insert(mix(0x20_77, (nvars * 100 + shape * 2) as u64 + (fname == "True") as u64));
                let _ = rng.next();
            }
        }
    }
}

fn cli_case(ctx: &Ctx, st: &mut Stats, text: &str) {
    let Ok(ast) = refsyn::parse_text(text) else { return };
    let Ok((names, want)) = refsem::eval_formula(&ast) else { return };
    let free = ast.free_names();
    let bin = ctx.bin("rsbdd");
    for flt in ["t", "f", "any", "True", "0"] {
        // what `-c flt -t` prints as the retained diagram (filled in by the run without -f)
        let mut retained: Option<Tt> = None;
        // the display filter (-f) must not change which direction -c is sound in
        for show in [None, Some("t"), Some("f")] {
            st.evals += 1;
            st.bump("cli_runs");
            let mut args = vec![format!("--evaluate={}", text), "-c".to_string(), flt.to_string(), "-t".to_string()];
            if let Some(sh) = show {
                args.push("-f".into());
                args.push(sh.into());
                st.bump("cli_runs_with_display_filter");
            }
            let out = cli::run(&bin, &args, None, None, Some((20_000_000, 10_000)), Duration::from_secs(60));
            let case = json!({"kind": "cli", "text": text});
            if out.timed_out || out.budget_exceeded() {
                st.bump("cli_out_of_budget(not judged)");
                continue;
            }
            if !out.ok() {
                st.violate("c20.cli", format!("C20:cli:{}", out.panic_site()), format!("rsbdd {:?} failed: {}\n{}", args, out.status_string(), out.stderr_str()), case);
                continue;
            }
            let so = out.stdout_str();
            let lines: Vec<&str> = so.lines().collect();
            let (table, _) = match cli::parse_table(&lines) {
                Ok(t) => t,
                Err(e) => {
                    st.violate("c20.cli", "C20:cli:unparsable-table".into(), format!("`{}` -c {}: {}\n{}", text, flt, e, so), case);
                    continue;
                }
            };
            if table.header.iter().any(|h| !free.contains(h)) {
                st.violate("c20.cli", "C20:cli:non-free-column".into(), format!("`{}`: header {:?}, free {:?}", text, table.header, free), case);
                continue;
            }
            // R = the retained diagram. True rows cover (part of) R, False rows (part of) not-R.
            let n = names.len() as u32;
            let mut trues = Tt::constant(n, false);
            let mut falses = Tt::constant(n, false);
            for (cells, res) in &table.rows {
                let mut cover = Tt::constant(n, true);
                for (h, c) in table.header.iter().zip(cells.iter()) {
                    let i = names.iter().position(|x| x == h).unwrap() as u32;
                    match c {
                        cli::Cell::True => cover = cover.and(&Tt::var(n, i)),
                        cli::Cell::False => cover = cover.and(&Tt::var(n, i).not()),
                        cli::Cell::Any => {}
                    }
                }
                if *res {
                    trues = trues.or(&cover);
                } else {
                    falses = falses.or(&cover);
                }
            }
            // what is known about R from what was printed: R >= trues, not-R >= falses; with no display
            // filter (or -f t) trues == R, with -f f falses == not-R
            let dir = match flt {
                "t" | "True" => "implied-by",
                "f" | "0" => "implies",
                _ => "equal",
            };
            let ok = match (dir, show) {
                // f => R
                ("implied-by", None) | ("implied-by", Some("t")) => want.leq(&trues),
                ("implied-by", _) => falses.leq(&want.not()),
                // R => f
                ("implies", None) | ("implies", Some("t")) => trues.leq(&want),
                ("implies", _) => want.not().leq(&falses),
                (_, None) => trues == want && falses == want.not(),
                (_, Some("t")) => trues == want,
                (_, _) => falses == want.not(),
            };
            if !ok {
                st.violate(
                    "c20.cli",
                    format!("C20:cli:-c-{}-unsound{}", flt, show.map(|s| format!("-with-f-{}", s)).unwrap_or_default()),
                    format!("rsbdd -e `{}` -c {}{} -t prints a function that is not {} the formula\n{}", text, flt, show.map(|s| format!(" -f {}", s)).unwrap_or_default(), match dir { "implied-by" => "implied by", "implies" => "implying", _ => "equal to" }, so),
                    case,
                );
            } else if show.is_none() && trues != want {
                st.nt.insert(mix(util::hash_str(text), util::hash_str(flt)));
                st.bump("cli_results_with_dropped_choices");
            }
            if show.is_none() {
                retained = Some(trues.clone());
            }
        }
        // together with -m: what is printed is a model OF THE RETAINED diagram
        if let Some(r) = retained {
            st.evals += 1;
            st.bump("cli_runs_with_model");
            let args = vec![format!("--evaluate={}", text), "-c".to_string(), flt.to_string(), "-m".to_string(), "-t".to_string()];
            let out = cli::run(&bin, &args, None, None, Some((20_000_000, 10_000)), Duration::from_secs(60));
            let case = json!({"kind": "cli", "text": text});
            if out.timed_out || out.budget_exceeded() || !out.ok() {
                continue;
            }
            let so = out.stdout_str();
            let lines: Vec<&str> = so.lines().collect();
            let Ok((table, _)) = cli::parse_table(&lines) else { continue };
            let n = names.len() as u32;
            let mut shown = Tt::constant(n, false);
            for (cells, res) in &table.rows {
                if !*res {
                    continue;
                }
                let mut cover = Tt::constant(n, true);
                for (h, c) in table.header.iter().zip(cells.iter()) {
                    let Some(i) = names.iter().position(|x| x == h) else { continue };
                    match c {
                        cli::Cell::True => cover = cover.and(&Tt::var(n, i as u32)),
                        cli::Cell::False => cover = cover.and(&Tt::var(n, i as u32).not()),
                        cli::Cell::Any => {}
                    }
                }
                shown = shown.or(&cover);
            }
            if !shown.leq(&r) || (shown.is_false() != r.is_false()) {
                st.violate("c20.cli", format!("C20:cli:-c-{}-with-m:not-a-model-of-the-retained-diagram", flt), format!("rsbdd -e `{}` -c {} -m -t prints true rows that are not (all) rows of what `-c {} -t` prints\n{}", text, flt, flt, so), case);
            }
        }
    }
}

fn cli_job(ctx: &Ctx, job: usize, iters: u64) -> Stats {
    let mut st = Stats::new();
    let mut rng = Rng::stream(ctx.seed, "C20.cli", job as u64);
    let mut cfg = GenCfg::simple(&gen::PLAIN_NAMES[..5], 4);
    cfg.allow_fix = false;
    for _ in 0..iters {
        let ast = gen::gen_ast(&mut rng, &cfg);
        let text = gen::render(&ast, &mut rng, Style::Plain);
        cli_case(ctx, &mut st, &text);
    }
    st
}

pub fn run(ctx: &Ctx) -> (Stats, Spec) {
    let mut st = Stats::new();
    let (iters, cli_iters) = ctx.tier.pick((20_000u64, 40u64), (200_000u64, 800u64));
    let inproc = with_stderr_gagged(|| {
        let mut st = Stats::new();
        for k in 1..=2 {
            st.merge(exhaustive_job(k, 0, 0, 1));
        }
        let parts = util::par_jobs(2 * 4, |job| exhaustive_job(3, job / 4, job % 4, 4));
        st.merge(crate::report::merge_all(parts));
        let parts = util::par_jobs(2 * 16, |job| exhaustive_job(4, job / 16, job % 16, 16));
        st.merge(crate::report::merge_all(parts));
        let parts = util::par_jobs(16, |job| random_job(ctx, job, iters));
        st.merge(crate::report::merge_all(parts));
        st
    });
    st.merge(inproc);
    st.exhaustive.push("retain_choice_bottom_up on all functions over 1, 2, 3 and 4 variables (adjacent and sparse label families) x filters True/False/Any".into());
    let parts = util::par_jobs(16, |job| cli_job(ctx, job, cli_iters));
    st.merge(crate::report::merge_all(parts));
    for t in ["a & (b | c)", "a | (b & c)", "-a & (b ^ c)", "a => (b & c & d)", "(a | b) & (c | d)", "true", "false", "a"] {
        cli_case(ctx, &mut st, t);
    }
    // forced choices with LONG names of multi-byte letters (every alignment of the characters to
    // the byte offsets 16 .. 130): the dropped choice is reported by name
    for pad in 0..4usize {
        for (letter, count) in [("ö", 70usize), ("中", 45), ("𝒳", 33), ("é", 20)] {
            let name = format!("{}{}", "v".repeat(pad), letter.repeat(count));
            cli_case(ctx, &mut st, &format!("-{} & (k | m)", name));
            cli_case(ctx, &mut st, &format!("{} | (k & m)", name));
            st.bump("forced_choices_with_long_multibyte_names");
        }
    }
    // diagrams with 2^16 .. 2^21 paths (the walk is per path: about a second for 2^21)
    let mp: Vec<(usize, usize)> = ctx.tier.pick(vec![(16, 0), (18, 1), (20, 2), (21, 3), (21, 0)], vec![(16, 0), (17, 3), (18, 1), (19, 2), (20, 2), (20, 1), (21, 3), (21, 0), (22, 1), (22, 2)]);
    let parts = with_stderr_gagged(|| util::par_jobs(mp.len(), |j| { let mut s = Stats::new(); engine_block(&mut s, "C20", "many-paths", |s2| many_paths_case(s2, mp[j].0, mp[j].1, ctx.seed)); s }));
    st.merge(crate::report::merge_all(parts));
    let wk_iters = ctx.tier.pick(3_000u64, 60_000u64);
    let parts = with_stderr_gagged(|| util::par_jobs(16, |job| super::weak::weak_hash_job(ctx, "C20", job, wk_iters)));
    st.merge(crate::report::merge_all(parts));
    let wide_iters = ctx.tier.pick(100u64, 3_000u64);
    let parts = with_stderr_gagged(|| util::par_jobs(16, |job| super::wide::wide_job(ctx, "C20", job, wide_iters)));
    st.merge(crate::report::merge_all(parts));
    let spec = Spec {
        rule: "every Boolean function over <= 4 variables (two label families) x {True, False, Any}, random functions over 5-8 sparse labels biased towards forced choices; CLI: generated formulas through `rsbdd -c <filter spelling> [-f t|f] -t` (the display filter must not change the direction). distinct = (table, filter, family) resp. (text, filter); non-trivial = filter != Any and at least one choice actually dropped (result != f). MANY VARIABLES: the same judgement on environments with 65-200 variables (more than a machine word of them), where operands are random DNFs and results are compared pointwise on 48 sampled assignments per case (biased towards the operands' cubes) and walked for order / reduction.".into(),
        assumptions: vec!["the library's 'omitted choice' diagnostics on stderr are ignored (fd 2 is silenced during the in-process part)".into()],
        floors: vec![
            ("many_variable_cases".into(), 1_000, "environments with more than 64 variables never exercised".into()),
            ("weak_hash_symbol_calls".into(), 2_000, "environment over a constant-hash symbol type never exercised".into()),
            ("filter_True".into(), 60_000, "filter True never exercised".into()),
            ("filter_False".into(), 60_000, "filter False never exercised".into()),
            ("results_with_dropped_choices".into(), 5_000, "the omit arm was hardly exercised".into()),
            ("cli_runs".into(), 100, "CLI never exercised".into()),
            ("cli_runs_with_display_filter".into(), 100, "-c together with -f never exercised".into()),
            ("distinct_nontrivial".into(), 5_000, "too few non-trivial cases".into()),
        ],
    };
    (st, spec)
}

pub fn replay(ctx: &Ctx, _monitor: &str, case: &Value, st: &mut Stats) {
    if case.get("kind").and_then(|k| k.as_str()) == Some("many-paths") {
        let g = |k: &str| case.get(k).and_then(|j| j.as_u64()).unwrap_or(0);
        many_paths_case(st, g("nvars").clamp(4, 22) as usize, g("shape") as usize, g("seed"));
        return;
    }
    if case.get("kind").and_then(|k| k.as_str()) == Some("wide") {
        super::wide::replay_wide(ctx, "C20", case, st);
        return;
    }
    if case.get("kind").and_then(|k| k.as_str()) == Some("weak-hash") {
        let job = case.get("job").and_then(|j| j.as_u64()).unwrap_or(0) as usize;
        let mut c2 = ctx.clone();
        c2.seed = case.get("seed").and_then(|j| j.as_u64()).unwrap_or(c2.seed);
        with_stderr_gagged(|| st.merge(super::weak::weak_hash_job(&c2, "C20", job, 20_000)));
        return;
    }
    if case.get("kind").and_then(|k| k.as_str()) == Some("cli") {
        cli_case(ctx, st, case.get("text").and_then(|t| t.as_str()).unwrap_or("false"));
        return;
    }
    let uni = parse_labels(case, "universe");
    let Some(t) = parse_table(case, "f") else { return };
    let env = BDDEnv::new();
    let d = build_in_env(&env, &t, &vars_of(&uni));
    with_stderr_gagged(|| check_retain(st, &env, &uni, &(d, t), "replay"));
}
