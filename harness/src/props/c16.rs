//! C16 — max_clique_gen emits a formula whose models are exactly the maximum cliques
//! (all cliques with --all).
//!
//! Monitor: offline checker over the real generator's output: reference parse + reference truth
//! table over all names, compared with brute-force cliques under the stated adjacency.

use crate::cli;
use crate::puzzles;
use crate::refsem::Sem;
use crate::refsyn;
use crate::report::{Ctx, Spec, Stats};
use crate::util::{self, mix, Rng};
use serde_json::{json, Value};
use std::time::Duration;

#[derive(Debug, Clone)]
pub struct Case {
    pub csv: String,
    pub undirected: bool,
    pub all: bool,
    /// 0: file in, stdout out; 1: stdin in, stdout out; 2: file in, file out; 3: named pipe as INPUT;
    /// 4: /dev/stdin as INPUT; 5: stdin in small pieces (see common::plan_input)
    pub io: u8,
}

impl Case {
    fn to_json(&self) -> Value {
        json!({"csv": self.csv, "undirected": self.undirected, "all": self.all, "io": self.io})
    }
}

fn parse_edges(csv: &str) -> Vec<(String, String)> {
    let unq = |s: &str| s.trim_matches('"').to_string();
    csv.lines().map(|l| l.trim_end_matches('\r')).filter(|l| !l.trim().is_empty()).filter_map(|l| l.split_once(',').map(|(a, b)| (unq(a), unq(b)))).collect()
}

pub fn check_case(ctx: &Ctx, st: &mut Stats, c: &Case, tag: &str) {
    st.evals += 1;
    let dir = ctx.fresh_dir(&format!("c16-{}", tag));
    let _ = std::fs::create_dir_all(&dir);
    let output = super::common::spelled_output(&dir, c.csv.len() / 2, &super::common::hostile_file_name(c.csv.len(), "out.txt"));
    let plan = super::common::plan_input(c.io, &dir, "graph.csv", c.csv.as_bytes());
    let mut args: Vec<String> = Vec::new();
    // short, long and clustered spellings
    match (c.undirected, c.all, c.csv.len() % 3) {
        (true, true, 0) => args.push("-ua".into()),
        (true, true, 1) => args.push("-au".into()),
        (u, a, k) => {
            if u {
                args.push(if k == 2 { "--undirected" } else { "-u" }.into());
            }
            if a {
                args.push(if k == 2 { "--all" } else { "-a" }.into());
            }
        }
    }
    if let Some(p) = &plan.path_arg {
        args.push(p.clone());
    }
    if c.io == 0 && c.csv.len() % 2 == 1 {
        // OUTPUT names the process's own standard output
        args.push("/dev/stdout".into());
    }
    if c.io == 2 {
        // the output file already exists and is longer than what will be written
        if c.csv.len() % 2 == 0 {
            let _ = std::fs::write(&output, super::common::stale_content());
        } else {
            // ... or is what an EARLIER run of the tool wrote there for another graph
            let earlier = dir.join("earlier graph.csv");
            let _ = std::fs::write(&earlier, "p,q\nq,r\nr,p\nr,s\n");
            let mut first: Vec<String> = args.iter().filter(|a| a.starts_with('-')).cloned().collect();
            first.push(earlier.display().to_string());
            first.push(output.display().to_string());
            let _ = cli::run(&ctx.bin("max_clique_gen"), &first, None, Some(&dir), None, Duration::from_secs(60));
            st.bump("outputs_onto_a_file_left_by_an_earlier_run");
        }
        args.push(output.display().to_string());
    }
    let mut feed = plan.feed.clone();
    feed.stdout_tty = c.io != 2 && c.csv.len() % 4 == 3 && !args.iter().any(|a| a == "/dev/stdout");
    let out = cli::run_fed(&ctx.bin("max_clique_gen"), &args, plan.stdin.as_deref(), &feed, Some(&dir), None, Duration::from_secs(60));
    let text = if c.io == 2 { std::fs::read_to_string(&output).unwrap_or_default() } else { out.stdout_str() };
    let _ = std::fs::remove_dir_all(&dir);
    let case = || c.to_json();
    let desc = format!("max_clique_gen{}{} on edges {:?}", if c.undirected { " -u" } else { "" }, if c.all { " -a" } else { "" }, c.csv.replace('\n', ";"));
    if out.timed_out {
        st.bump("watchdog(inconclusive case)");
        return;
    }
    if !out.ok() {
        st.violate("c16.run", format!("C16:generator-failed:{}", out.panic_site()), format!("{}: {} {}", desc, out.status_string(), out.stderr_str()), case());
        return;
    }
    let ast = match refsyn::parse_text(&text) {
        Ok(a) => a,
        Err(e) => {
            st.violate("c16.well-formed", "C16:not-a-formula".into(), format!("{}: output is not a sentence: {:?}\n{}", desc, e, text), case());
            return;
        }
    };
    // vertices in order of first appearance
    let edges = parse_edges(&c.csv);
    let mut verts: Vec<String> = Vec::new();
    for (a, b) in &edges {
        for v in [a, b] {
            if !verts.contains(v) {
                verts.push(v.clone());
            }
        }
    }
    let nv = verts.len();
    if nv > 8 {
        return;
    }
    let has = |a: &str, b: &str| edges.iter().any(|(x, y)| x == a && y == b);
    let adj = |i: usize, j: usize| -> bool {
        let (a, b) = (&verts[i], &verts[j]);
        if c.undirected {
            has(a, b) || has(b, a)
        } else {
            has(a, b) && has(b, a)
        }
    };
    let expected: Vec<u64> = if c.all { puzzles::all_cliques(nv, &adj) } else { puzzles::max_cliques(nv, &adj) };
    // reference table over all names of the formula
    let names = ast.names_in_text_order();
    if names.len() > 16 {
        st.bump("too_many_names(skipped)");
        return;
    }
    let table = match Sem::new(&names).eval(&ast) {
        Ok(t) => t,
        Err(e) => {
            st.violate("c16.well-formed", "C16:not-evaluable".into(), format!("{}: {:?}", desc, e), case());
            return;
        }
    };
    let free = ast.free_names();
    // every free name must be a vertex; bound copies must not leak
    if let Some(bad) = free.iter().find(|f| !verts.contains(f)) {
        st.violate("c16.variables", "C16:free-variable-is-not-a-vertex".into(), format!("{}: the formula has the free variable `{}` which is not a vertex\n{}", desc, bad, text), case());
        return;
    }
    // a subset T of the vertices is a model iff the formula is true under T (unmentioned vertices are unconstrained)
    for t in 0..(1u64 << nv) {
        let mut a = 0u64;
        for (i, v) in verts.iter().enumerate() {
            if (t >> i) & 1 == 1 {
                if let Some(p) = names.iter().position(|x| x == v) {
                    // only free occurrences matter; bound names do not influence the table
                    a |= 1 << p;
                }
            }
        }
        let is_model = table.get(a);
        let want = expected.contains(&t);
        if is_model != want {
            let set: Vec<&String> = verts.iter().enumerate().filter(|(i, _)| (t >> i) & 1 == 1).map(|(_, v)| v).collect();
            st.violate(
                "c16.models",
                if want { "C16:clique-is-not-a-model".to_string() } else { "C16:model-is-not-a-clique".to_string() },
                format!("{}: the vertex set {:?} is {} but the formula is {} there\n{}", desc, set, if want { if c.all { "a clique" } else { "a maximum clique" } } else { "not one of the expected cliques" }, is_model, text),
                case(),
            );
            return;
        }
    }
    // the table must not depend on anything but vertices (already implied by free-name check + semantics)
    st.add("vertex_sets_compared", 1u64 << nv);
    let non_edges = (0..nv).any(|i| (0..nv).any(|j| i != j && !adj(i, j)));
    if !edges.is_empty() && non_edges {
        let mut canon: Vec<String> = edges.iter().map(|(a, b)| format!("{}>{}", a, b)).collect();
        canon.sort();
        canon.dedup();
        st.nt.insert(mix(util::hash_str(&canon.join(",")), (c.undirected as u64) * 2 + c.all as u64));
    }
    st.bump(&format!("flags_u{}_a{}", c.undirected as u8, c.all as u8));
    st.bump(&format!("io_{}", c.io));
    if st.want_sample() && nv >= 4 && st.evals % 211 == 3 {
        st.sample(json!({"edges": c.csv, "undirected": c.undirected, "all": c.all, "expected_cliques_as_bitmasks": expected, "formula": text}));
    }
}

fn csv_of(edges: &[(usize, usize)], names: &[&str], mut rng: Option<&mut Rng>) -> String {
    let mut lines: Vec<String> = edges.iter().map(|(a, b)| format!("{},{}", names[*a], names[*b])).collect();
    let mut rng2: Option<&mut Rng> = None;
    if let Some(r) = rng.take() {
        // presentation quirks: duplicates, shuffled rows
        if !lines.is_empty() && r.chance(1, 2) {
            // one to three records are given twice
            for _ in 0..(1 + r.usize(3)) {
                let d = lines[r.usize(lines.len())].clone();
                lines.push(d);
            }
        }
        r.shuffle(&mut lines);
        rng2 = Some(r);
    }
    // presentation of the CSV itself: LF or CRLF, with or without a final line terminator, quoted fields
    let (mut term, mut final_nl, mut quoted) = ("\n", true, false);
    if let Some(r) = rng2 {
        term = if r.chance(1, 4) { "\r\n" } else { "\n" };
        final_nl = !r.chance(1, 5);
        quoted = r.chance(1, 6);
    }
    if quoted {
        lines = lines.iter().map(|l| l.split(',').map(|f| format!("\"{}\"", f)).collect::<Vec<_>>().join(",")).collect();
    }
    let mut s = lines.join(term);
    if !s.is_empty() && final_nl {
        s.push_str(term);
    }
    s
}

fn all_digraphs(nv: usize) -> Vec<Vec<(usize, usize)>> {
    let pairs: Vec<(usize, usize)> = (0..nv).flat_map(|a| (0..nv).filter(move |b| *b != a).map(move |b| (a, b))).collect();
    (0..(1u64 << pairs.len())).map(|m| pairs.iter().enumerate().filter(|(i, _)| (m >> i) & 1 == 1).map(|(_, p)| *p).collect()).collect()
}

const NAME_SETS: [[&str; 8]; 17] = [
    // names that differ only in case (ASCII and not)
    ["a", "A", "b", "B", "ab", "Ab", "aB", "AB"],
    ["é", "É", "ß", "ss", "ı", "i", "I", "İ"],
    // identifiers a CSV reader may take for a header / keyword
    ["from", "to", "source", "target", "id", "header", "null", "NaN"],
    ["a", "b", "c", "d", "e", "f", "g", "h"],
    ["x1", "y_2", "z'", "w", "q9", "_u", "k", "m2"],
    ["é", "λ", "中", "ñ", "ß", "ö", "ü", "å"],
    ["n1", "n2", "n3", "n4", "n5", "n6", "n7", "n8"],
    // names that collide under naive string concatenation / prefixing
    ["a", "b", "a_b", "b_a", "a_b_a", "ab", "b_a_b", "a__b"],
    ["x", "y_z", "x_y", "z", "x_y_z", "_", "y", "x__z"],
    ["v", "v_v", "v_", "_v", "vv", "v_v_v", "vvv", "v__v"],
    ["n", "n1", "n10", "n_1", "n_", "n1_0", "n100", "n1_"],
    // names that already look like prefixed copies while the unprefixed base is NOT a vertex
    ["v_a", "v_v_a", "b", "v_v_b", "v_b", "vv_a", "v_v_v_a", "vv_v_a"],
    ["vv_x", "v_vv_x", "vvv_x", "y", "v_y", "vv_y", "v_v_y", "vv_vv_x"],
    // NUMBERED names: what a generator may well use for its own auxiliary copies (v_0, v1, x_2, c0 ..)
    ["v_0", "v_1", "v_2", "v_3", "v_4", "v_5", "v_6", "v_7"],
    ["v_1", "a", "v_0", "b", "v_3", "c", "v_2", "v_10"],
    ["v0", "v1", "x_0", "x_1", "c0", "c1", "_0", "_1"],
    ["n_0", "n_1", "u_0", "u_1", "w_0", "w_1", "t_0", "t_1"],
];

fn job(ctx: &Ctx, job: usize, jobs: usize, thorough: bool) -> Stats {
    let mut st = Stats::new();
    let mut rng = Rng::stream(ctx.seed, "C16", job as u64);
    let mut k = 0usize;
    // exhaustive: all digraphs on 3 vertices (and on 4 in thorough) x {-u} x {-a}
    let mut graphs: Vec<(usize, Vec<(usize, usize)>)> = all_digraphs(3).into_iter().map(|g| (3, g)).collect();
    if thorough {
        graphs.extend(all_digraphs(4).into_iter().map(|g| (4, g)));
    } else {
        // every 4th digraph on 4 vertices
        graphs.extend(all_digraphs(4).into_iter().enumerate().filter(|(i, _)| i % 4 == 1).map(|(_, g)| (4, g)));
    }
    for (_nv, g) in &graphs {
        for u in [false, true] {
            for a in [false, true] {
                k += 1;
                if k % jobs != job {
                    continue;
                }
                let names = &NAME_SETS[k % NAME_SETS.len()];
                let csv = csv_of(g, names, Some(&mut rng));
                let c = Case { csv, undirected: u, all: a, io: (k % 6) as u8 };
                check_case(ctx, &mut st, &c, &format!("{}-{}", job, k));
                st.bump("exhaustive_cases");
            }
        }
    }
    // random graphs on 5-6 vertices, with self-loops and both orientations
    let iters = if thorough { 250 } else { 40 };
    for i in 0..iters {
        let nv = if thorough && i % 5 == 0 { 7 + rng.usize(2) } else { 5 + rng.usize(2) };
        let dens = 1 + rng.below(4);
        let mut edges = Vec::new();
        for a in 0..nv {
            for b in 0..nv {
                if rng.below(5) < dens {
                    if a != b || rng.chance(1, 4) {
                        edges.push((a, b));
                    }
                }
            }
        }
        let names = &NAME_SETS[rng.usize(NAME_SETS.len())];
        let csv = csv_of(&edges, names, Some(&mut rng));
        let c = Case { csv, undirected: rng.chance(1, 2), all: rng.chance(1, 2), io: rng.below(super::common::INPUT_MODES) as u8 };
        check_case(ctx, &mut st, &c, &format!("{}-r{}", job, i));
        st.bump("random_cases");
    }
    st
}

/// LARGE graphs (17 .. 300 vertices) with --all: the emitted formula is quantifier-free, so it can
/// be evaluated on any vertex set. Sampled sets — empty, singletons, adjacent and non-adjacent
/// pairs, greedy maximal cliques, those cliques plus one more vertex, random small sets — must be
/// models exactly when they are cliques.
fn large_graph_case(ctx: &Ctx, st: &mut Stats, n: usize, density_pct: u64, undirected: bool, k: usize) {
    let mut rng = Rng::stream(ctx.seed, "C16.large", (n * 1000 + k) as u64);
    let names: Vec<String> = (0..n).map(|i| format!("n{}", i)).collect();
    let mut adj = vec![vec![false; n]; n];
    let mut lines: Vec<String> = Vec::new();
    // density > 100 means: a complete graph from which exactly (density - 100) vertex PAIRS are
    // taken away — so that the number of non-adjacent pairs is exactly a round number (256, 4096, ..)
    let all_pairs = n * (n - 1) / 2;
    let remove_exactly = if density_pct > 100 { Some((density_pct - 100) as usize) } else { None };
    let mut removed = 0usize;
    let mut seen_pairs = 0usize;
    for i in 0..n {
        for j in (i + 1)..n {
            seen_pairs += 1;
            let keep = match remove_exactly {
                // remove each remaining pair with the probability that makes the total come out exactly
                Some(r) => {
                    let left_pairs = all_pairs - seen_pairs + 1;
                    let need = r.min(all_pairs) - removed;
                    if rng.below(left_pairs as u64) < need as u64 {
                        removed += 1;
                        false
                    } else {
                        true
                    }
                }
                None => rng.below(100) < density_pct,
            };
            if keep {
                adj[i][j] = true;
                adj[j][i] = true;
                if undirected {
                    lines.push(if rng.chance(1, 2) { format!("{},{}", names[i], names[j]) } else { format!("{},{}", names[j], names[i]) });
                } else {
                    lines.push(format!("{},{}", names[i], names[j]));
                    lines.push(format!("{},{}", names[j], names[i]));
                }
            } else if !undirected && rng.chance(1, 8) {
                lines.push(format!("{},{}", names[i], names[j])); // one direction only: not an edge
            }
        }
    }
    rng.shuffle(&mut lines);
    let csv = lines.join("\n") + "\n";
    let dir = ctx.fresh_dir(&format!("c16-large-{}-{}", n, k));
    let _ = std::fs::create_dir_all(&dir);
    let _ = std::fs::write(dir.join("graph.csv"), &csv);
    let mut args: Vec<String> = vec!["-a".into()];
    if undirected {
        args.push("-u".into());
    }
    args.push("graph.csv".into());
    st.evals += 1;
    let out = cli::run(&ctx.bin("max_clique_gen"), &args, None, Some(&dir), None, Duration::from_secs(120));
    let _ = std::fs::remove_dir_all(&dir);
    let case = || json!({"kind": "large", "n": n, "density": density_pct, "undirected": undirected, "k": k, "seed": ctx.seed});
    let desc = format!("max_clique_gen -a{} on a random graph with {} vertices and {} records", if undirected { " -u" } else { "" }, n, lines.len());
    if out.timed_out {
        st.bump("watchdog(inconclusive case)");
        return;
    }
    if !out.ok() {
        st.violate("c16.run", format!("C16:generator-failed:{}", out.panic_site()), format!("{}: {}", desc, out.status_string()), case());
        return;
    }
    let text = out.stdout_str();
    let prob = match refsyn::parse_text(&text).map_err(|e| format!("{:?}", e)).and_then(|a| crate::solve3::compile(&a)) {
        Ok(p) => p,
        Err(e) => {
            st.violate("c16.well-formed", "C16:not-a-formula".into(), format!("{}: the output cannot be read: {}", desc, e.chars().take(300).collect::<String>()), case());
            return;
        }
    };
    if let Some(bad) = prob.names.iter().find(|x| !names.contains(x)) {
        st.violate("c16.variables", "C16:free-variable-is-not-a-vertex".into(), format!("{}: the formula mentions `{}`, which is not a vertex", desc, bad), case());
        return;
    }
    let is_clique = |s: &[usize]| s.iter().enumerate().all(|(a, i)| s[a + 1..].iter().all(|j| adj[*i][*j]));
    let mut sets: Vec<Vec<usize>> = vec![vec![]];
    sets.extend((0..n).map(|i| vec![i]));
    for _ in 0..400 {
        let (i, j) = (rng.usize(n), rng.usize(n));
        if i != j {
            sets.push(vec![i, j]);
        }
        // a greedy maximal clique from a random start, and the same plus one more vertex
        let mut c = vec![rng.usize(n)];
        let mut order: Vec<usize> = (0..n).collect();
        rng.shuffle(&mut order);
        for v in order {
            if !c.contains(&v) && c.iter().all(|u| adj[*u][v]) {
                c.push(v);
            }
        }
        sets.push(c.clone());
        let extra = rng.usize(n);
        if !c.contains(&extra) {
            c.push(extra);
            sets.push(c);
        }
        let size = 3 + rng.usize(3);
        let r: Vec<usize> = (0..size).map(|_| rng.usize(n)).collect::<std::collections::BTreeSet<_>>().into_iter().collect();
        sets.push(r);
    }
    // (the graph's vertices are the names that occur in some record: others are not part of the input)
    let mut known = vec![false; n];
    for i in 0..n {
        for j in 0..n {
            if i != j && adj[i][j] {
                known[i] = true;
                known[j] = true;
            }
        }
    }
    for l in &lines {
        if let Some((a, b)) = l.split_once(',') {
            for v in [a, b] {
                if let Some(ix) = v.strip_prefix('n').and_then(|d| d.parse::<usize>().ok()) {
                    known[ix] = true;
                }
            }
        }
    }
    let sets: Vec<Vec<usize>> = sets.into_iter().map(|s| s.into_iter().filter(|v| known[*v]).collect()).collect();
    let (mut cliques, mut others) = (0u64, 0u64);
    for s in &sets {
        let mut asg = vec![false; prob.names.len()];
        for v in s {
            if let Some(ix) = prob.index.get(&names[*v]) {
                asg[*ix] = true;
            }
        }
        let model = crate::solve3::eval_total(&prob, &asg);
        let want = is_clique(s);
        if model != want {
            st.violate("c16.models", if want { "C16:clique-is-not-a-model".to_string() } else { "C16:model-is-not-a-clique".to_string() }, format!("{}: the vertex set {:?} is {} but the formula is {} there", desc, s.iter().map(|v| names[*v].clone()).collect::<Vec<_>>(), if want { "a clique" } else { "not a clique" }, model), case());
            return;
        }
        if want {
            cliques += 1;
        } else {
            others += 1;
        }
    }
    st.add("vertex_sets_probed_on_large_graphs", cliques + others);
    st.bump("large_graphs");
    st.max("max_vertices", n as u64);
    if cliques > 0 && others > 0 {
        st.nt.insert(mix(0x16_1a, (n * 100 + k) as u64));
    }
}

pub fn run(ctx: &Ctx) -> (Stats, Spec) {
    let thorough = ctx.tier == crate::report::Tier::Thorough;
    let jobs = 16;
    let parts = util::par_jobs(jobs, |j| job(ctx, j, jobs, thorough));
    let mut st = crate::report::merge_all(parts);
    st.exhaustive.push(if thorough { "all 64 digraphs on 3 vertices and all 4096 on 4 vertices x {-u} x {-a}".into() } else { "all 64 digraphs on 3 vertices (and every 4th on 4 vertices) x {-u} x {-a}".into() });
    // large graphs, --all only (see large_graph_case)
    let large: Vec<(usize, u64, bool)> = if thorough {
        vec![(17, 50, true), (33, 40, false), (65, 30, true), (130, 90, false), (257, 95, true), (300, 10, true), (300, 50, false), (100, 70, true), (64, 60, false), (200, 98, true), (100, 100 + 4096, true), (70, 100 + 2048, false), (100, 100 + 4095, true), (100, 100 + 4097, true), (40, 100 + 256, true), (130, 100 + 8192, true), (95, 100 + 4096, false), (363, 100 + 65536, true), (40, 100 + 512, false)]
    } else {
        vec![(17, 50, true), (40, 40, false), (65, 30, true), (130, 90, false), (257, 95, true), (300, 10, true), (100, 100 + 4096, true), (70, 100 + 2048, false), (100, 100 + 4097, true), (40, 100 + 256, true), (363, 100 + 65536, true)]
    };
    let parts = util::par_jobs(large.len(), |j| {
        let mut s = Stats::new();
        let (n, d, u) = large[j];
        large_graph_case(ctx, &mut s, n, d, u, j);
        s
    });
    st.merge(crate::report::merge_all(parts));
    // fixed: empty graph, complete graphs, one-directional edges, the adversarial name pair {x, v_x}
    let mut k = 0;
    for csv in ["", "a,b\n", "a,b\nb,a\n", "a,a\n", "a,b\nb,c\nc,a\n", "a,b\nb,a\nb,c\nc,b\na,c\nc,a\n", "a,v_a\n", "a,v_a\nv_a,a\n", "x,v_x\nv_x,y\ny,x\n", "v_1,v_2\nv_2,v_v_1\n"] {
        for u in [false, true] {
            for a in [false, true] {
                k += 1;
                check_case(ctx, &mut st, &Case { csv: csv.into(), undirected: u, all: a, io: (k % 6) as u8 }, &format!("fixed-{}", k));
            }
        }
    }
    // inputs larger than any I/O buffer: thousands of duplicate records, very long vertex names
    {
        let long_a = format!("a{}", "x".repeat(4_000));
        let long_b = format!("b{}", "y".repeat(5_000));
        let tri = format!("{a},{b}\n{b},{a}\n{b},c\nc,{b}\n", a = long_a, b = long_b);
        let many: String = "p,q\nq,p\n".repeat(1_500) + "q,r\nr,q\nr,s\n";
        for (i, csv) in [tri, many].iter().enumerate() {
            for (u, a) in [(false, false), (true, false), (false, true)] {
                check_case(ctx, &mut st, &Case { csv: csv.clone(), undirected: u, all: a, io: ((i * 3 + u as usize * 2 + a as usize) % 6) as u8 }, &format!("large-{}-{}{}", i, u as u8, a as u8));
                st.bump("large_inputs");
            }
        }
    }
    if std::path::Path::new("/dev/full").exists() {
        for to_stdout in [false, true] {
            st.evals += 1;
            let args: Vec<&str> = if to_stdout { vec!["-u"] } else { vec!["-u", "/dev/stdin", "/dev/full"] };
            match super::common::fails_on_full_device(ctx, "max_clique_gen", &args, Some(b"a,b\nb,c\n"), to_stdout) {
                Some(true) => st.bump("full_device_reported"),
                Some(false) => st.violate("c16.run", "C16:success-although-nothing-could-be-written".into(), format!("max_clique_gen with the output on a full device ({}) exits 0", if to_stdout { "stdout" } else { "OUTPUT = /dev/full" }), json!({"kind": "full-device"})),
                None => st.bump("watchdog(inconclusive case)"),
            }
        }
    }
    // file names that are not valid UTF-8: same formula as through stdin / stdout
    {
        let csv = "a,b\nb,a\nb,c\nc,b\nc,d\n";
        let plain = cli::run(&ctx.bin("max_clique_gen"), &["-u".to_string()], Some(csv.as_bytes()), None, None, Duration::from_secs(60));
        let (out, written) = super::common::run_with_non_utf8_paths(ctx, "max_clique_gen", &["-u"], Some(csv.as_bytes()), &[], true, "c16");
        st.evals += 1;
        if !out.timed_out && !plain.timed_out {
            let same = matches!((written.as_deref().map(refsyn::parse_text), refsyn::parse_text(&plain.stdout_str())), (Some(Ok(x)), Ok(y)) if x == y);
            if !out.ok() || !same || !out.stdout_str().trim().is_empty() {
                st.violate("c16.run", "C16:non-utf8-file-names".into(), format!("max_clique_gen -u IN OUT with file names that are not valid UTF-8: {}; OUT holds {:?} bytes, stdout {} bytes (expected the formula in OUT only)", out.status_string(), written.as_ref().map(|w| w.len()), out.stdout.len()), json!({"kind": "non-utf8-names"}));
            } else {
                st.bump("file_names_not_valid_utf8");
            }
        }
    }
    let spec = Spec {
        rule: "edge lists: every digraph on 3 vertices (4 vertices: every 4th [quick] / all [thorough]) x {-u} x {-a}, random graphs on 5-6 (thorough: also 7-8) vertices with self-loops, duplicates, one-directional edges, shuffled rows, LF / CRLF line ends, missing final newline and quoted fields, empty and complete graphs; inputs beyond 8 KiB (thousands of duplicate records, vertex names of 4-5 thousand characters); vertex names plain, with ' _ digits, non-ASCII, the pair {x, v_x}, names that differ only in case ({a, A, ab, Ab, aB, AB}, {é, É, ı, i, I, İ}), and name families that collide under string concatenation / prefixing ({a, b, a_b, b_a, a_b_a}, {v, v_v, v_, _v}, {n, n1, n10, n_1}); input via file or stdin, output via stdout or file. LARGE random graphs (17 .. 300 vertices, sparse to nearly complete, -u and directed with one-directional records) with --all: ~1 500 sampled vertex sets each (empty, singletons, pairs, greedy maximal cliques, those plus one vertex, random small sets) must be models exactly when they are cliques. The emitted text is parsed and evaluated by the reference; for EVERY subset of the vertices 'is a model' must equal 'is a (maximum) clique'. distinct = (edge set, flags); non-trivial = at least one edge and one non-adjacent pair.".into(),
        assumptions: vec![
            "vertex names are identifiers that are not keywords of the formula language (as the statement says)".into(),
            "adjacency: with -u an edge in either direction; without it both directions must be present; self-loops are ignored".into(),
        ],
        floors: vec![
            ("exhaustive_cases".into(), 256, "exhaustive part incomplete".into()),
            ("large_graphs".into(), 5, "large graphs not exercised".into()),
            ("flags_u0_a0".into(), 50, "plain flags hardly exercised".into()),
            ("flags_u1_a1".into(), 50, "-u -a hardly exercised".into()),
            ("io_1".into(), 20, "stdin input hardly exercised".into()),
            ("io_2".into(), 20, "file output hardly exercised".into()),
            ("io_3".into(), 20, "named-pipe input hardly exercised".into()),
            ("io_4".into(), 20, "/dev/stdin input hardly exercised".into()),
            ("io_5".into(), 20, "piecewise stdin hardly exercised".into()),
            ("distinct_nontrivial".into(), 100, "too few non-trivial graphs".into()),
        ],
    };
    (st, spec)
}

pub fn replay(ctx: &Ctx, _monitor: &str, case: &Value, st: &mut Stats) {
    if case.get("kind").and_then(|k| k.as_str()) == Some("large") {
        let mut c2 = ctx.clone();
        c2.seed = case.get("seed").and_then(|j| j.as_u64()).unwrap_or(ctx.seed);
        let g = |k: &str| case.get(k).and_then(|j| j.as_u64()).unwrap_or(0);
        large_graph_case(&c2, st, g("n").max(2) as usize, g("density"), case.get("undirected").and_then(|b| b.as_bool()).unwrap_or(true), g("k") as usize);
        return;
    }
    let c = Case {
        csv: case.get("csv").and_then(|c| c.as_str()).unwrap_or("").to_string(),
        undirected: case.get("undirected").and_then(|b| b.as_bool()).unwrap_or(false),
        all: case.get("all").and_then(|b| b.as_bool()).unwrap_or(false),
        io: case.get("io").and_then(|b| b.as_u64()).unwrap_or(0) as u8,
    };
    check_case(ctx, st, &c, "replay");
}
