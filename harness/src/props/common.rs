//! Helpers shared by the library-level property modules.

use crate::tt::Tt;
use crate::util::Rng;
use rsbdd::bdd::BDD;
use serde_json::{json, Value};
use std::rc::Rc;

pub type D = Rc<BDD<usize>>;

pub fn labels_json(labels: &[usize]) -> Value {
    json!(labels.iter().map(|x| x.to_string()).collect::<Vec<_>>())
}

pub fn parse_labels(case: &Value, key: &str) -> Vec<usize> {
    case.get(key).and_then(|u| u.as_array()).map(|a| a.iter().filter_map(|x| x.as_str().and_then(|s| s.parse().ok())).collect()).unwrap_or_default()
}

pub fn parse_table(case: &Value, key: &str) -> Option<Tt> {
    case.get(key).and_then(|v| v.as_str()).and_then(Tt::parse_hex)
}

/// (label, table index) for ascending labels where table variable i = labels[i]
pub fn vars_of(labels: &[usize]) -> Vec<(usize, u32)> {
    labels.iter().enumerate().map(|(i, l)| (*l, i as u32)).collect()
}

pub fn idx_fn(labels: &[usize]) -> impl Fn(&usize) -> Option<u32> + '_ {
    move |s: &usize| labels.iter().position(|x| x == s).map(|p| p as u32)
}

/// random table over n variables with the given density (out of 16)
pub fn random_table(rng: &mut Rng, n: u32, dens: u64) -> Tt {
    let mut t = Tt::constant(n, false);
    for a in 0..t.size() {
        t.set(a, rng.below(16) < dens);
    }
    t
}

/// random table that depends only on a random subset of the variables
pub fn random_table_subset(rng: &mut Rng, n: u32) -> Tt {
    let dens = [1u64, 4, 8, 12, 15][rng.usize(5)];
    let mut t = random_table(rng, n, dens);
    for i in 0..n {
        if rng.chance(1, 3) {
            t = t.cofactor(i, rng.chance(1, 2));
        }
    }
    t
}

/// pick `k` distinct labels from a pool, ascending
pub fn pick_labels(rng: &mut Rng, pool: &[usize], k: usize) -> Vec<usize> {
    let mut p = pool.to_vec();
    rng.shuffle(&mut p);
    p.truncate(k);
    p.sort();
    p
}

pub const LABEL_POOL: [usize; 18] = [0, 1, 2, 3, 4, 5, 7, 9, 20, 21, 1000, 256 + 3, 65_536 + 5, (1 << 32) + 1, (1 << 32) + 9, 1 << 40, usize::MAX - 1, usize::MAX];

/// Silence fd 2 while a closure runs (the library prints diagnostics with eprintln! in
/// retain_choice_bottom_up; millions of lines would drown the run). Restores fd 2 afterwards.
pub fn with_stderr_gagged<R>(f: impl FnOnce() -> R) -> R {
    // SAFETY: plain POSIX descriptor juggling on fds we own; no Rust object is invalidated.
    unsafe {
        let saved = libc::dup(2);
        let null = libc::open(b"/dev/null\0".as_ptr() as *const libc::c_char, libc::O_WRONLY);
        if saved >= 0 && null >= 0 {
            libc::dup2(null, 2);
        }
        let r = f();
        if saved >= 0 {
            libc::dup2(saved, 2);
            libc::close(saved);
        }
        if null >= 0 {
            libc::close(null);
        }
        r
    }
}

// ------------------------------------------------------------------ formula-level engine driver

use crate::refsyn::Ast;
use crate::util::{guarded, Caught};
use rsbdd::parser::ParsedFormula;
use rsbdd::NamedSymbol;
use std::io::BufReader;

pub struct EngineEval {
    pub result: Rc<BDD<NamedSymbol>>,
    pub free_vars: Vec<String>,
    pub vars: Vec<String>,
    pub var_ids: Vec<usize>,
    pub ast: Ast,
    pub steps: u64,
    pub fp_iters: u64,
}

pub enum EngineOut {
    /// tokenizer / parser returned Err
    Rejected(String),
    /// a panic while parsing (before evaluation started)
    ParsePanic(Caught),
    /// parsed fine (tree attached), then evaluation panicked or ran out of budget
    EvalCaught(Ast, Caught),
    Ok(EngineEval),
}

/// Parse + evaluate a text with the real engine under the H1 budgets.
pub fn engine_eval(text: &[u8], ordering: Option<Vec<NamedSymbol>>, step_cap: u64, fp_cap: u64) -> EngineOut {
    crate::util::budget(step_cap, fp_cap);
    let parsed = guarded(|| ParsedFormula::new(&mut BufReader::new(text), ordering));
    let pf = match parsed {
        Err(c) => return EngineOut::ParsePanic(c),
        Ok(Err(e)) => return EngineOut::Rejected(e.to_string()),
        Ok(Ok(pf)) => pf,
    };
    let ast = crate::conv::ast_of_engine(&pf.bdd);
    crate::util::budget(step_cap, fp_cap);
    match guarded(|| pf.eval()) {
        Err(c) => EngineOut::EvalCaught(ast, c),
        Ok(result) => EngineOut::Ok(EngineEval {
            result,
            free_vars: pf.free_vars.iter().map(|v| v.name.as_ref().clone()).collect(),
            vars: pf.vars.iter().map(|v| v.name.as_ref().clone()).collect(),
            var_ids: pf.vars.iter().map(|v| v.id).collect(),
            ast,
            steps: rsbdd::verif::steps(),
            fp_iters: rsbdd::verif::fp_iters(),
        }),
    }
}

/// Enumerate all formula trees with exactly `k` operator nodes over the names `a`, `b`
/// (lists of length <= 2 for `[..] cmp n`, <= 1 per side for `[..] cmp [..]`, constants <= 2).
pub fn enum_trees(k: usize) -> Vec<Ast> {
    use crate::refsyn::{ALL_CMPS, ALL_OPS};
    fn go(k: usize, memo: &mut Vec<Option<Vec<Ast>>>) -> Vec<Ast> {
        if let Some(v) = &memo[k] {
            return v.clone();
        }
        let names = ["a", "b"];
        let mut out: Vec<Ast> = Vec::new();
        if k == 0 {
            out.push(Ast::True);
            out.push(Ast::False);
            for n in names {
                out.push(Ast::Var(n.to_string()));
            }
        } else {
            let r = k - 1;
            for x in go(r, memo) {
                out.push(Ast::Not(Box::new(x.clone())));
                for forall in [false, true] {
                    for vs in [vec![], vec!["a"], vec!["b"], vec!["a", "b"]] {
                        out.push(Ast::Quant(forall, vs.iter().map(|s| s.to_string()).collect(), Box::new(x.clone())));
                    }
                }
                for gfp in [false, true] {
                    for n in names {
                        out.push(Ast::Fix(n.to_string(), gfp, Box::new(x.clone())));
                    }
                }
            }
            for i in 0..=r {
                let (ls, rs) = (go(i, memo), go(r - i, memo));
                for l in &ls {
                    for rr in &rs {
                        for op in ALL_OPS {
                            out.push(Ast::Bin(op, Box::new(l.clone()), Box::new(rr.clone())));
                        }
                    }
                }
            }
            for i in 0..=r {
                for j in 0..=(r - i) {
                    let (cs, ts, es) = (go(i, memo), go(j, memo), go(r - i - j, memo));
                    for c in &cs {
                        for t in &ts {
                            for e in &es {
                                out.push(Ast::Ite(Box::new(c.clone()), Box::new(t.clone()), Box::new(e.clone())));
                            }
                        }
                    }
                }
            }
            // lists of length 0..2 whose elements use r operator nodes in total
            let mut lists: Vec<Vec<Ast>> = Vec::new();
            if r == 0 {
                lists.push(vec![]);
            }
            for x in go(r, memo) {
                lists.push(vec![x]);
            }
            for i in 0..=r {
                for x in go(i, memo) {
                    for y in go(r - i, memo) {
                        lists.push(vec![x.clone(), y]);
                    }
                }
            }
            for l in &lists {
                for cmp in ALL_CMPS {
                    for n in 0..=2u64 {
                        out.push(Ast::CountConst(cmp, l.clone(), n));
                    }
                }
            }
            // list-vs-list with at most one element per side
            let mut sides: Vec<(Vec<Ast>, Vec<Ast>)> = Vec::new();
            if r == 0 {
                sides.push((vec![], vec![]));
            }
            for x in go(r, memo) {
                sides.push((vec![x.clone()], vec![]));
                sides.push((vec![], vec![x]));
            }
            for i in 0..=r {
                for x in go(i, memo) {
                    for y in go(r - i, memo) {
                        sides.push((vec![x.clone()], vec![y]));
                    }
                }
            }
            for (l, rr) in &sides {
                for cmp in ALL_CMPS {
                    out.push(Ast::CountList(cmp, l.clone(), rr.clone()));
                }
            }
        }
        memo[k] = Some(out.clone());
        out
    }
    let mut memo = vec![None; k + 1];
    go(k, &mut memo)
}

// ------------------------------------------------------------------------------ Miri tripwire

/// Thorough tier of C13 / C19: interpret the small deterministic history of /verif/miri_smoke
/// under Miri. It can only fire if a change introduces `unsafe` or provokes UB in std; the
/// evidence records what was interpreted. A missing / failing toolchain is recorded, not judged.
pub fn miri_tripwire(ctx: &crate::report::Ctx, st: &mut crate::report::Stats, ops: u64) {
    let (Ok(manifest), Ok(target)) = (std::env::var("VERIF_MIRI_MANIFEST"), std::env::var("VERIF_MIRI_TARGET")) else {
        st.bump("miri_not_configured(not judged)");
        return;
    };
    let out = std::process::Command::new("timeout")
        .args(["--signal=KILL", "2400", "cargo", "+nightly", "miri", "run", "--offline", "--manifest-path", &manifest, "--", &ctx.seed.to_string(), &ops.to_string()])
        .env("MIRIFLAGS", "-Zmiri-ignore-leaks")
        .env("CARGO_TARGET_DIR", &target)
        .env("CARGO_NET_OFFLINE", "true")
        .output();
    let Ok(out) = out else {
        st.bump("miri_unavailable(not judged)");
        return;
    };
    let text = format!("{}\n{}", String::from_utf8_lossy(&out.stdout), String::from_utf8_lossy(&out.stderr));
    if text.contains("Undefined Behavior") {
        let report: String = text.lines().skip_while(|l| !l.contains("Undefined Behavior")).take(12).collect::<Vec<_>>().join("\n");
        st.violate("miri", format!("{}:miri:undefined-behaviour", ctx.prop), format!("Miri reports undefined behaviour while interpreting the smoke history:\n{}", report), serde_json::json!({"kind": "miri", "ops": ops}));
        return;
    }
    if let Some(line) = text.lines().find(|l| l.starts_with("MIRI-SMOKE ")) {
        let field = |k: &str| line.split_whitespace().find_map(|w| w.strip_prefix(k)).and_then(|v| v.parse::<u64>().ok()).unwrap_or(0);
        st.add("miri_operations_interpreted", field("ops="));
        st.add("miri_ub_reports", 0);
        if field("mismatches=") > 0 {
            st.violate("miri", format!("{}:miri:oracle-mismatch", ctx.prop), format!("the smoke history disagrees with its oracle under Miri: {}", line), serde_json::json!({"kind": "miri", "ops": ops}));
        }
    } else {
        st.bump("miri_run_failed(not judged)");
    }
}

/// Content for an output file that "already exists": long, and not a formula / graph / DOT text.
/// A tool that writes its output into an existing file must replace the old content completely.
pub fn stale_content() -> Vec<u8> {
    let mut v = Vec::new();
    for i in 0..20_000 {
        v.extend_from_slice(format!("\"stale line {}\" ((( [ stale , {} ] = ) ) -> n_stale;\n", i, i).as_bytes());
    }
    v
}


// ------------------------------------------------------------------------- input channels

/// Ways a tool with an optional INPUT file argument can be given its input:
/// 0 regular file; 1 stdin at once; 2 regular file (callers use it for "file in, file out");
/// 3 a named pipe as INPUT; 4 `/dev/stdin` as INPUT with a pipe on stdin; 5 stdin in small pieces;
/// 6 a regular file whose name is `-` in the working directory (INPUT is a file name — the tools
/// document no other reading of it), with an EMPTY pipe on stdin; 7 stdin is a regular file of
/// which an earlier reader has already consumed a leading line (the input starts at that offset);
/// 8 stdin is a TERMINAL on which the input is typed (inputs that cannot be typed go through a pipe).
pub const INPUT_MODES: u64 = 9;

pub struct InputPlan {
    /// the INPUT argument, if the mode uses one
    pub path_arg: Option<String>,
    pub stdin: Option<Vec<u8>>,
    pub feed: crate::cli::Feed,
}

pub fn plan_input(mode: u8, dir: &std::path::Path, file_name: &str, content: &[u8]) -> InputPlan {
    let chunk = [1usize, 7, 64, 1000][content.len() % 4];
    let path = dir.join(hostile_file_name(content.len() / 3 + mode as usize, file_name));
    match mode {
        1 => InputPlan { path_arg: None, stdin: Some(content.to_vec()), feed: Default::default() },
        3 => InputPlan { path_arg: Some(path.display().to_string()), stdin: None, feed: crate::cli::Feed { stdin_chunk: 0, fifos: vec![(path, content.to_vec(), chunk)], stdin_file: None, stdout_tty: false, gnuplot_stub: false, stdin_tty: false } },
        4 => InputPlan { path_arg: Some("/dev/stdin".into()), stdin: Some(content.to_vec()), feed: crate::cli::Feed { stdin_chunk: if content.len() % 2 == 0 { 0 } else { chunk }, fifos: vec![], stdin_file: None, stdout_tty: false, gnuplot_stub: false, stdin_tty: false } },
        5 => InputPlan { path_arg: None, stdin: Some(content.to_vec()), feed: crate::cli::Feed { stdin_chunk: chunk, fifos: vec![], stdin_file: None, stdout_tty: false, gnuplot_stub: false, stdin_tty: false } },
        8 => InputPlan { path_arg: None, stdin: Some(content.to_vec()), feed: crate::cli::Feed { stdin_tty: true, ..Default::default() } },
        7 => {
            // `{ read -r header; tool; } < file`: what the earlier reader consumed is NOT input
            let consumed: &[u8] = [&b"source,target\n"[..], b"1 2 3 4\n", b"a & b\n", b"\"a header line\"\n"][content.len() % 4];
            let mut whole = consumed.to_vec();
            whole.extend_from_slice(content);
            let _ = std::fs::write(&path, &whole);
            InputPlan { path_arg: None, stdin: None, feed: crate::cli::Feed { stdin_chunk: 0, fifos: vec![], stdin_file: Some((path, consumed.len() as u64)), stdout_tty: false, gnuplot_stub: false, stdin_tty: false } }
        }
        6 => {
            let _ = std::fs::write(dir.join("-"), content);
            InputPlan { path_arg: Some("-".into()), stdin: Some(Vec::new()), feed: Default::default() }
        }
        _ => {
            let _ = std::fs::write(&path, content);
            InputPlan { path_arg: Some(path.display().to_string()), stdin: None, feed: Default::default() }
        }
    }
}

/// Run a block of harness code that calls the engine OUTSIDE the per-case guards (setting up
/// operands, filling tables): if the engine panics there — a broken engine may well — that is a
/// violation observed by this check (the engine "did not return"), never a harness error.
pub fn engine_block(st: &mut crate::report::Stats, prop: &str, what: &str, f: impl FnOnce(&mut crate::report::Stats)) {
    let mut local = crate::report::Stats::new();
    let r = crate::util::guarded(|| f(&mut local));
    st.merge(local);
    match r {
        Ok(()) => {}
        Err(crate::util::Caught::Budget(_)) => st.bump("budget_exceeded(not judged)"),
        Err(c) => st.violate(&format!("{}.panic", prop.to_lowercase()), format!("{}:{}:{}", prop, what, c.signature()), format!("{}: the engine panicked while the operands were being built: {:?}", what, c), serde_json::json!({"kind": what})),
    }
}

/// An environment whose table already holds `filler` entries (variables with labels from 1 000 000
/// upwards, far from anything a check uses): 2.2 million [quick] / 17 million [thorough] — beyond
/// 2^21 resp. 2^24. What an operation computes must not depend on how full the table is.
pub fn huge_env(filler: usize) -> rsbdd::bdd::BDDEnv<usize> {
    let env: rsbdd::bdd::BDDEnv<usize> = rsbdd::bdd::BDDEnv::new();
    crate::util::budget(u64::MAX, 1000);
    for i in 0..filler {
        let _ = env.var(1_000_000 + i);
    }
    env
}

/// Ways of SPELLING the path of an output file inside `dir` (all name the file the operating
/// system resolves them to; the harness reads the result back through the same spelling):
/// plain; with a `.` component; through `sub/..`; through `lnk/..` where lnk is a symbolic link to
/// a directory two levels down (so `lnk/..` is NOT `dir`); with a doubled separator.
pub fn spelled_output(dir: &std::path::Path, k: usize, name: &str) -> std::path::PathBuf {
    match k % 7 {
        2 => dir.join(".").join(name),
        3 => {
            let _ = std::fs::create_dir_all(dir.join("sub dir"));
            dir.join("sub dir").join("..").join(name)
        }
        4 => {
            let _ = std::fs::create_dir_all(dir.join("real").join("a").join("b"));
            let _ = std::os::unix::fs::symlink(dir.join("real").join("a").join("b"), dir.join("lnk"));
            dir.join("lnk").join("..").join(name)
        }
        5 => std::path::PathBuf::from(format!("{}//{}", dir.display(), name)),
        _ => dir.join(name),
    }
}

/// File names a user may well choose: spaces, quotes, `#`, commas, non-ASCII. (A tool that copies a
/// path into its output — a header comment, say — must survive them.)
pub const FILE_NAME_PREFIXES: [&str; 8] = ["", "my file ", "4\"x", "q\"-\"5 ", "it's ", "#1, ", "é λ ", "a\"b\"c\" "];

pub fn hostile_file_name(k: usize, base: &str) -> String {
    format!("{}{}", FILE_NAME_PREFIXES[k % FILE_NAME_PREFIXES.len()], base)
}


/// Run a tool with an INPUT and / or OUTPUT file whose NAMES are not valid UTF-8 (legal on this
/// platform). `input` is written to the input file first. Returns the run and what the output
/// file holds afterwards (None = no such file).
pub fn run_with_non_utf8_paths(ctx: &crate::report::Ctx, bin: &str, before: &[&str], input: Option<&[u8]>, between: &[&str], with_output: bool, tag: &str) -> (crate::cli::RunOut, Option<String>) {
    use std::ffi::{OsStr, OsString};
    use std::os::unix::ffi::OsStrExt;
    let dir = ctx.fresh_dir(&format!("nonutf8-{}", tag));
    let _ = std::fs::create_dir_all(&dir);
    let inp = dir.join(OsStr::from_bytes(b"entr\xE9e \xFF.txt"));
    let outp = dir.join(OsStr::from_bytes(b"r\xE9sultat \xFE.out"));
    let mut args: Vec<OsString> = before.iter().map(|s| OsString::from(*s)).collect();
    if let Some(content) = input {
        let _ = std::fs::write(&inp, content);
        args.push(inp.clone().into_os_string());
    }
    args.extend(between.iter().map(|s| OsString::from(*s)));
    if with_output {
        args.push(outp.clone().into_os_string());
    }
    let out = crate::cli::run(&ctx.bin(bin), &args, None, Some(&dir), Some((2_000_000_000, 100_000)), std::time::Duration::from_secs(120));
    let written = std::fs::read(&outp).ok().map(|b| String::from_utf8_lossy(&b).to_string());
    let _ = std::fs::remove_dir_all(&dir);
    (out, written)
}


/// A tool that cannot write its output (the device is full) must not report success.
/// `args_with_output` already contains /dev/full as the output path (or is empty when the output
/// goes to stdout, which is then connected to /dev/full). Some(true) = it failed as it should.
pub fn fails_on_full_device(ctx: &crate::report::Ctx, bin: &str, args: &[&str], stdin: Option<&[u8]>, stdout_to_full: bool) -> Option<bool> {
    use std::io::Write;
    use std::process::{Command, Stdio};
    let mut cmd = Command::new(ctx.bin(bin));
    cmd.args(args).stderr(Stdio::null());
    cmd.stdin(if stdin.is_some() { Stdio::piped() } else { Stdio::null() });
    if stdout_to_full {
        let full = std::fs::OpenOptions::new().write(true).open("/dev/full").ok()?;
        cmd.stdout(Stdio::from(full));
    } else {
        cmd.stdout(Stdio::null());
    }
    let mut child = cmd.spawn().ok()?;
    if let (Some(data), Some(mut si)) = (stdin, child.stdin.take()) {
        let _ = si.write_all(data);
    }
    let start = std::time::Instant::now();
    loop {
        match child.try_wait() {
            Ok(Some(s)) => return Some(!s.success()),
            Ok(None) if start.elapsed().as_secs() > 60 => {
                let _ = child.kill();
                let _ = child.wait();
                return None;
            }
            Ok(None) => std::thread::sleep(std::time::Duration::from_millis(5)),
            Err(_) => return None,
        }
    }
}


/// The operand as it is HANDED OVER to the engine (which takes `Rc`s by value): every third time a
/// private structural copy that the engine becomes the sole owner of, otherwise another handle to
/// the caller's diagram.
pub fn hand_over<S: rsbdd::BDDSymbol>(d: &Rc<BDD<S>>, k: u64) -> Rc<BDD<S>> {
    // (k is usually a running counter: scramble it so that the choice does not correlate with a loop)
    if crate::util::mix(k, 0x4a11d) % 3 == 0 {
        crate::conv::deep_copy(d)
    } else {
        Rc::clone(d)
    }
}
