//! Helpers shared by the library-level property modules.

use crate::tt::Tt;
use crate::util::Rng;
use rsbdd::bdd::BDD;
use serde_json::{json, Value};
use std::rc::Rc;

pub type D = Rc<BDD<usize>>;

pub fn labels_json(labels: &[usize]) -> Value {
    json!(labels.iter().map(|x| x.to_string()).collect::<Vec<_>>())
}

pub fn parse_labels(case: &Value, key: &str) -> Vec<usize> {
    case.get(key).and_then(|u| u.as_array()).map(|a| a.iter().filter_map(|x| x.as_str().and_then(|s| s.parse().ok())).collect()).unwrap_or_default()
}

pub fn parse_table(case: &Value, key: &str) -> Option<Tt> {
    case.get(key).and_then(|v| v.as_str()).and_then(Tt::parse_hex)
}

/// (label, table index) for ascending labels where table variable i = labels[i]
pub fn vars_of(labels: &[usize]) -> Vec<(usize, u32)> {
    labels.iter().enumerate().map(|(i, l)| (*l, i as u32)).collect()
}

pub fn idx_fn(labels: &[usize]) -> impl Fn(&usize) -> Option<u32> + '_ {
    move |s: &usize| labels.iter().position(|x| x == s).map(|p| p as u32)
}

/// random table over n variables with the given density (out of 16)
pub fn random_table(rng: &mut Rng, n: u32, dens: u64) -> Tt {
    let mut t = Tt::constant(n, false);
    for a in 0..t.size() {
        t.set(a, rng.below(16) < dens);
    }
    t
}

/// random table that depends only on a random subset of the variables
pub fn random_table_subset(rng: &mut Rng, n: u32) -> Tt {
    let dens = [1u64, 4, 8, 12, 15][rng.usize(5)];
    let mut t = random_table(rng, n, dens);
    for i in 0..n {
        if rng.chance(1, 3) {
            t = t.cofactor(i, rng.chance(1, 2));
        }
    }
    t
}

/// pick `k` distinct labels from a pool, ascending
pub fn pick_labels(rng: &mut Rng, pool: &[usize], k: usize) -> Vec<usize> {
    let mut p = pool.to_vec();
    rng.shuffle(&mut p);
    p.truncate(k);
    p.sort();
    p
}

pub const LABEL_POOL: [usize; 14] = [0, 1, 2, 3, 4, 5, 7, 9, 20, 21, 1000, 1 << 40, usize::MAX - 1, usize::MAX];

/// Silence fd 2 while a closure runs (the library prints diagnostics with eprintln! in
/// retain_choice_bottom_up; millions of lines would drown the run). Restores fd 2 afterwards.
pub fn with_stderr_gagged<R>(f: impl FnOnce() -> R) -> R {
    // SAFETY: plain POSIX descriptor juggling on fds we own; no Rust object is invalidated.
    unsafe {
        let saved = libc::dup(2);
        let null = libc::open(b"/dev/null\0".as_ptr() as *const libc::c_char, libc::O_WRONLY);
        if saved >= 0 && null >= 0 {
            libc::dup2(null, 2);
        }
        let r = f();
        if saved >= 0 {
            libc::dup2(saved, 2);
            libc::close(saved);
        }
        if null >= 0 {
            libc::close(null);
        }
        r
    }
}
