//! C08 — the parser accepts exactly the grammar and builds the tree it prescribes.
//!
//! Monitor: differential — for each text the engine's tokens / accept-reject decision / syntax
//! tree (public `bdd` field, variables by name) are compared with the independent reference
//! tokenizer + recursive-descent grammar (refsyn).

use crate::conv::{ast_of_engine, tok_of_engine};
use crate::gen::{self, GenCfg, Style};
use crate::refsyn::{self, Ast, SynError, Tok};
use crate::report::{Ctx, Spec, Stats};
use crate::util::{self, guarded, mix, Rng};
use rsbdd::parser::{ParsedFormula, SymbolicBDD};
use serde_json::{json, Value};
use std::io::BufReader;

/// one spelling per token kind (33 kinds; Eof is implicit)
pub const ALPHABET: [&str; 33] = [
    "a", "b", "1", "{r}", "&", "|", "^", "nor", "nand", "=>", "<=", "<=>", "-", "if", "then", "else", "exists", "forall", "=", ">=", ">", "<", "(", ")", "[", "]", ",", "false", "true", "lfp", "gfp", "#", "2",
];
/// reduced alphabet for longer sequences: plain binary connectives collapsed to `&` (and `<=`, which
/// doubles as at-most), comparisons to `=`, `<`; one constant
pub const REDUCED: [&str; 22] = ["a", "b", "1", "{r}", "&", "<=", "-", "if", "then", "else", "exists", "lfp", "=", "<", "(", ")", "[", "]", ",", "true", "#", "forall"];

fn tree_sig(a: &Ast) -> String {
    a.kind_name().to_string()
}

/// Compare engine and reference on one text. `check_tokens` also compares the token lists.
pub fn check_text(st: &mut Stats, text: &str, check_tokens: bool, origin: &str) {
    st.evals += 1;
    let case = || json!({"text": text, "origin": origin});
    let ref_toks = refsyn::tokenize(text);
    // Every eighth text (chosen by its hash, so a replay does the same) is read with a variable
    // ordering handed in through the API whose symbols are NAMED like keywords and aliases, plus
    // a few of the text's own names: the grammar does not depend on what the ordering contains.
    let ordering = |text: &str| -> Option<Vec<rsbdd::NamedSymbol>> {
        if util::hash_str(text) % 8 == 5 {
            // a SMALL ordering with gaps between its ids: the first and the last name of the text
            // (ids 1 and 4), every other name is left to the tokenizer
            let names: Vec<String> = ref_toks.as_ref().ok()?.iter().filter_map(|t| if let Tok::Var(v) = t { Some(v.clone()) } else { None }).collect();
            let (first, last) = (names.first()?.clone(), names.last()?.clone());
            let mut v = vec![rsbdd::NamedSymbol { name: std::rc::Rc::new(first.clone()), id: 1 }];
            if last != first {
                v.push(rsbdd::NamedSymbol { name: std::rc::Rc::new(last), id: 4 });
            }
            return Some(v);
        }
        if util::hash_str(text) % 8 != 3 {
            return None;
        }
        let mut names: Vec<String> = ["true", "false", "in", "not", "and", "or", "if", "then", "else", "exists", "forall", "all", "any", "mu", "nu", "lfp", "gfp", "eq", "iff", "implies", "xor", "nor", "nand"].iter().map(|s| s.to_string()).collect();
        if let Ok(ts) = &ref_toks {
            for t in ts {
                if let Tok::Var(v) = t {
                    if !names.contains(v) && names.len() < 26 {
                        names.push(v.clone());
                    }
                }
            }
        }
        Some(names.into_iter().enumerate().map(|(i, n)| rsbdd::NamedSymbol { name: std::rc::Rc::new(n), id: 2 * i + 1 }).collect())
    };
    if ordering(text).is_some() {
        st.bump("read_with_keyword_named_ordering");
    }
    if check_tokens {
        st.bump("token_lists_compared");
        let eng = guarded(|| SymbolicBDD::tokenize(&mut BufReader::new(text.as_bytes()), ordering(text)));
        match (&eng, &ref_toks) {
            (Ok(Ok(et)), Ok(rt)) => {
                let conv: Vec<Tok> = et.iter().map(tok_of_engine).collect();
                if &conv != rt {
                    st.violate("c08.tokens", "C08:tokens-differ".into(), format!("text {:?}\n engine tokens:    {:?}\n reference tokens: {:?}", text, conv, rt), case());
                    return;
                }
                // one variable per name: different names carry different ids, the same name one id
                let mut seen: Vec<(String, usize)> = Vec::new();
                for t in et {
                    if let rsbdd::parser::SymbolicBDDToken::Var(v) = t {
                        if let Some((n, i)) = seen.iter().find(|(n, i)| (n == v.name.as_ref()) != (*i == v.id)) {
                            st.violate("c08.tokens", "C08:names-and-ids-disagree".into(), format!("text {:?}: the names {:?} (id {}) and {:?} (id {}) do not stand for {} variable", text, n, i, v.name, v.id, if n == v.name.as_ref() { "one" } else { "two different" }), case());
                            return;
                        }
                        seen.push((v.name.as_ref().clone(), v.id));
                    }
                }
            }
            (Ok(Err(_)), Err(_)) => {}
            (Ok(Ok(et)), Err(le)) => {
                st.violate("c08.tokens", "C08:tokenizer-accepts-bad-number".into(), format!("text {:?}: reference rejects ({:?}), engine tokens {:?}", text, le, et.iter().map(tok_of_engine).collect::<Vec<_>>()), case());
                return;
            }
            (Ok(Err(e)), Ok(rt)) => {
                st.violate("c08.tokens", "C08:tokenizer-rejects".into(), format!("text {:?}: engine tokenizer error `{}`, reference tokens {:?}", text, e, rt), case());
                return;
            }
            (Err(c), _) => {
                st.violate("c08.tokens", format!("C08:tokenizer-{}", c.signature()), format!("text {:?}: {:?}", text, c), case());
                return;
            }
        }
    }
    let reference: Result<Ast, SynError> = match &ref_toks {
        Ok(t) => refsyn::parse_tokens(t).map_err(SynError::Parse),
        Err(e) => Err(SynError::Lex(e.clone())),
    };
    let engine = guarded(|| ParsedFormula::new(&mut BufReader::new(text.as_bytes()), ordering(text)));
    let ntoks = ref_toks.as_ref().map(|t| t.len() - 1).unwrap_or(0);
    match (engine, &reference) {
        (Err(c), _) => {
            st.violate("c08.panic", format!("C08:parser-{}", c.signature()), format!("text {:?}: neither accepted nor rejected with an error: {:?}", text, c), case());
        }
        (Ok(Ok(pf)), Ok(want)) => {
            let got = ast_of_engine(&pf.bdd);
            if &got != want {
                st.violate(
                    "c08.tree",
                    format!("C08:tree-differs:{}", tree_sig(want)),
                    format!("text {:?}\n engine tree:    {:?}\n reference tree: {:?}", text, got, want),
                    case(),
                );
            } else {
                st.bump("accepted_same_tree");
                if ntoks >= 3 {
                    st.nt.insert(util::hash_str(text));
                }
                want.visit(&mut |n| st.bump(&format!("node_{}", n.kind_name())));
                if st.want_sample() && ntoks >= 6 && st.evals % 2003 == 1 {
                    st.sample(json!({"text": text, "verdict": "accepted", "tree": format!("{:?}", want)}));
                }
            }
        }
        (Ok(Err(_)), Err(e)) => {
            st.bump("rejected_by_both");
            let consumed = match e {
                SynError::Parse(pe) => pe.at,
                SynError::Lex(_) => 0,
            };
            if ntoks >= 3 && consumed >= 2 {
                st.nt.insert(util::hash_str(text));
                st.bump("rejected_after_two_or_more_tokens");
            }
            if st.want_sample() && consumed >= 4 && st.evals % 2003 == 2 {
                st.sample(json!({"text": text, "verdict": "rejected", "reference_error": format!("{:?}", e)}));
            }
        }
        (Ok(Ok(pf)), Err(e)) => {
            let got = ast_of_engine(&pf.bdd);
            st.violate(
                "c08.accepts-non-sentence",
                format!("C08:accepts-non-sentence:{}", tree_sig(&got)),
                format!("text {:?} is not a sentence of the grammar ({:?}) but was accepted as {:?}", text, e, got),
                case(),
            );
        }
        (Ok(Err(e)), Ok(want)) => {
            st.violate("c08.rejects-sentence", format!("C08:rejects-sentence:{}", tree_sig(want)), format!("text {:?} is a sentence ({:?}) but was rejected: {}", text, want, e), case());
        }
    }
}

fn seq_job(alphabet: &[&str], len: usize, job: usize, jobs: usize, tag: &str) -> Stats {
    let mut st = Stats::new();
    let k = alphabet.len() as u64;
    let total = k.pow(len as u32);
    let mut text = String::with_capacity(64);
    let mut code = job as u64;
    while code < total {
        text.clear();
        let mut c = code;
        for i in 0..len {
            if i > 0 {
                text.push(' ');
            }
            text.push_str(alphabet[(c % k) as usize]);
            c /= k;
        }
        check_text(&mut st, &text, false, tag);
        code += jobs as u64;
    }
    st.add(&format!("sequences_{}_len{}", tag, len), (total + jobs as u64 - 1 - job as u64) / jobs as u64);
    st
}

const CHARS: [char; 16] = ['<', '=', '>', '-', '&', 'a', 'n', 'd', '1', '"', '{', '}', '[', ']', ' ', '\''];

fn chars_job(len: usize, job: usize, jobs: usize) -> Stats {
    let mut st = Stats::new();
    let k = CHARS.len() as u64;
    let total = k.pow(len as u32);
    let mut text = String::with_capacity(16);
    let mut code = job as u64;
    while code < total {
        text.clear();
        let mut c = code;
        for _ in 0..len {
            text.push(CHARS[(c % k) as usize]);
            c /= k;
        }
        check_text(&mut st, &text, true, "chars");
        code += jobs as u64;
    }
    st
}

fn it_large(st: &mut Stats) -> bool {
    st.bump("large_texts");
    true
}

fn random_job(ctx: &Ctx, job: usize, iters: u64) -> Stats {
    let mut st = Stats::new();
    let mut rng = Rng::stream(ctx.seed, "C08.random", job as u64);
    for it in 0..iters {
        let pool: &[&str] = if it % 4 == 0 { &gen::FANCY_NAMES } else if it % 8 == 1 { gen::rare_pool(it / 16 as u64) } else { &gen::PLAIN_NAMES };
        let mut cfg = GenCfg::simple(&pool[..4], 5);
        cfg.allow_ref = true;
        cfg.binder_weight = 22;
        let ast = gen::gen_ast(&mut rng, &cfg);
        match it % 3 {
            0 => {
                let text = gen::render(&ast, &mut rng, Style::Fancy);
                check_text(&mut st, &text, true, "rendered");
                st.bump("rendered_texts");
            }
            _ => {
                let toks = gen::render_tokens(&ast, &mut rng, Style::Fancy);
                let mutated = gen::mutate_tokens(&toks, &mut rng);
                let style = if rng.chance(1, 2) { Style::Plain } else { Style::Fancy };
                let text = gen::join_tokens(&mutated, &mut rng, style);
                check_text(&mut st, &text, true, "mutated");
                st.bump("mutated_texts");
            }
        }
    }
    // texts longer than any I/O buffer (8 KiB .. 60 KiB): padding (comments, whitespace, separator lines)
    // before, inside and after a formula; the tree must still be the tree of the whole text
    for _ in 0..(iters / 60).max(4) {
        let cfg = GenCfg::simple(&gen::PLAIN_NAMES[..4], 4);
        let toks = gen::render_tokens(&gen::gen_ast(&mut rng, &cfg), &mut rng, Style::Plain);
        let big = 8_000 + rng.usize(50_000);
        let pad = match rng.below(4) {
            0 => format!(" \"{}\" ", "c".repeat(big)),
            1 => " \n".repeat(big / 2),
            2 => format!("\n{}", "\"line\" ;\n".repeat(big / 10)),
            _ => format!(" {} ", "\t".repeat(big)),
        };
        let cut = rng.usize(toks.len() + 1);
        let text = format!("{}{}{}", toks[..cut].join(" "), pad, toks[cut..].join(" "));
        let tok_too = it_large(&mut st);
        check_text(&mut st, &text, tok_too, "large-text");
    }
    // splices of two formulas and token soups
    for _ in 0..iters / 4 {
        let cfg = GenCfg::simple(&gen::PLAIN_NAMES[..3], 3);
        let a = gen::render(&gen::gen_ast(&mut rng, &cfg), &mut rng, Style::Plain);
        let b = gen::render(&gen::gen_ast(&mut rng, &cfg), &mut rng, Style::Plain);
        let glue = rng.pick_str(&[" ", " & ", " , ", " ) ", " # ", " then ", " <= ", " = "]);
        check_text(&mut st, &format!("{}{}{}", a, glue, b), true, "splice");
        let n = 1 + rng.usize(10);
        let soup: Vec<String> = (0..n).map(|_| rng.pick_str(&gen::TOKEN_SPELLINGS).to_string()).collect();
        check_text(&mut st, &soup.join(" "), true, "soup");
    }
    st
}

fn judge_undecodable(st: &mut Stats, bytes: &[u8]) {
    st.evals += 1;
    st.bump("inputs_that_are_not_valid_utf8");
    let lossy = String::from_utf8_lossy(bytes).to_string();
    let lossy_tree = refsyn::parse_text(&lossy).ok();
    let shown = lossy.replace('\u{fffd}', "<?>");
    let case = || json!({"kind": "invalid-utf8", "bytes": bytes.iter().map(|b| format!("{:02x}", b)).collect::<String>()});
    match guarded(|| ParsedFormula::new(&mut BufReader::new(bytes), None)) {
        Err(c) => st.violate("c08.panic", format!("C08:parser-{}", c.signature()), format!("input {:?} (<?> = undecodable bytes): {:?}", shown, c), case()),
        Ok(Err(_)) => {
            st.bump("invalid_utf8_rejected");
            st.nt.insert(mix(util::hash_str(&lossy), 0xbad8));
        }
        Ok(Ok(pf)) => {
            let got = ast_of_engine(&pf.bdd);
            if Some(&got) == lossy_tree.as_ref() {
                st.bump("invalid_utf8_read_lossily");
            } else {
                st.violate("c08.accepts-non-sentence", format!("C08:undecodable-input-accepted:{}", tree_sig(&got)), format!("input {:?} (<?> = bytes that are not UTF-8) is accepted as {:?} — neither rejected nor the tree of the text with the bytes replaced ({:?})", shown, got, lossy_tree), case());
            }
        }
    }
}

/// Inputs that are NOT valid UTF-8 — a stray 0xFF, a Latin-1 letter inside a comment, a truncated
/// or surrogate sequence — on the first line, on a later line after a complete formula, or in the
/// middle of a line. Such an input is rejected; a reader that prefers to decode it lossily must
/// then produce the tree of the lossily decoded text. Anything else (the tree of a prefix, say) is
/// "accepted with some other meaning".
fn invalid_utf8_job(ctx: &Ctx, job: usize, iters: u64) -> Stats {
    let mut st = Stats::new();
    let mut rng = Rng::stream(ctx.seed, "C08.invalid-utf8", job as u64);
    let bad: [&[u8]; 7] = [b"\xff", b"\xfe\xff z", b"\"caf\xe9\"", b"\xc3", b"\xed\xa0\x80", b"\xf8\x88\x80\x80\x80", b"\"\xe9\xe8\" q"];
    for it in 0..iters {
        let cfg = GenCfg::simple(&gen::PLAIN_NAMES[..4], 2);
        let a = gen::render(&gen::gen_ast(&mut rng, &cfg), &mut rng, Style::Plain);
        let b = gen::render(&gen::gen_ast(&mut rng, &cfg), &mut rng, Style::Plain);
        let op = rng.pick_str(&["&", "|", "=>", "^", "<=>"]);
        let x = bad[rng.usize(bad.len())];
        let mut bytes: Vec<u8> = Vec::new();
        match it % 4 {
            0 => {
                // a complete formula, then a line with the bad bytes, then the rest of the sentence
                bytes.extend_from_slice(a.as_bytes());
                bytes.push(b'\n');
                bytes.extend_from_slice(x);
                bytes.extend_from_slice(format!("\n{} {}\n", op, b).as_bytes());
            }
            1 => {
                bytes.extend_from_slice(format!("({}) {}\n({})\n", a, op, b).as_bytes());
                bytes.extend_from_slice(x);
                bytes.push(b'\n');
            }
            2 => {
                bytes.extend_from_slice(x);
                bytes.extend_from_slice(format!("\n{}\n", a).as_bytes());
            }
            _ => {
                bytes.extend_from_slice(format!("{} ", a).as_bytes());
                bytes.extend_from_slice(x);
                bytes.extend_from_slice(format!(" {} {}", op, b).as_bytes());
            }
        }
        if std::str::from_utf8(&bytes).is_ok() {
            continue;
        }
        judge_undecodable(&mut st, &bytes);
    }
    st
}

/// Multi-byte characters lying ACROSS the block boundaries a reader may use (4 KiB .. 192 KiB):
/// a name's é / 中 / 𝒳 starts 1..3 bytes before the boundary, after padding by a comment, by
/// blanks, or inside one long name. Texts beyond 64 KiB are texts too.
fn alignment_job(job: usize, jobs: usize) -> Stats {
    let mut st = Stats::new();
    let mut k = 0usize;
    for boundary in [4096usize, 8192, 16384, 32768, 65536, 131072, 196608] {
        for ch in ["é", "中", "𝒳"] {
            for back in 1..ch.len() {
                for pad_kind in 0..3 {
                    k += 1;
                    if k % jobs != job {
                        continue;
                    }
                    // the character's first byte sits at offset boundary - back
                    let head = "caf";
                    let before = boundary - back - head.len();
                    let text = match pad_kind {
                        0 => format!("\"{}\"{}{} & b{}c", "x".repeat(before - 2), head, ch, ch),
                        1 => format!("{}{}{} & b{}c", " ".repeat(before), head, ch, ch),
                        _ => format!("{}{}{} & b{}c", "n".repeat(before), head, ch, ch),
                    };
                    debug_assert!(text.is_char_boundary(boundary - back) && !text.is_char_boundary(boundary));
                    check_text(&mut st, &text, true, "alignment");
                    st.bump("texts_with_a_character_across_a_block_boundary");
                    // and the same text one byte further on / back
                    check_text(&mut st, &format!(" {}", text), false, "alignment");
                }
            }
        }
    }
    st
}

/// Texts that look like something a shell, a quoting layer or an option parser might want to
/// "help" with: whole texts in primes (a prime is an identifier character), in double quotes
/// (a comment), in backslashes, starting with dashes or equal signs.
const CLI_TEXTS: [&str; 24] = [
    "'a & b'", "'a'", "''", "'", "'a' & 'b'", "'(a) & b'", "'a | b", "a | b'", "\"a\" b", "\"a & b\"", "\"a\" & \"b\" c", "-a", "--a", "-a & -b", "- -a", "=a", "a = b", "[a] = 1", " a ", "a\\b", "a\\ & b", "a\n& b", "a;b", "a #b",
];

/// channel 0: -e TEXT, 1: --evaluate=TEXT, 2: file, 3: standard input
fn cli_one(ctx: &Ctx, st: &mut Stats, text: &str, channel: u8, tag: &str) {
    use crate::cli;
    let text = text.to_string();
    let reference = refsyn::parse_text(&text);
    if let Ok(a) = &reference {
        if a.has_kind(&|x| matches!(x, Ast::Ref(_))) || a.names_in_text_order().len() > 10 {
            return;
        }
    }
    let mut channel = channel;
    // 4 / 5: the options come from an argument file (`rsbdd @args`, one argument per line):
    // `--evaluate=TEXT` on one line resp. `-e` and TEXT on two lines — only for one-line texts
    if channel >= 4 && (text.contains('\n') || text.contains('\r') || text.is_empty() || text.starts_with('@')) {
        channel = 1;
    }
    if channel == 5 && text.starts_with('-') {
        channel = 4; // (a separate argument that starts with a dash is an option to the argument parser)
    }
    if text.contains('\0') || (channel == 0 && text.starts_with('-')) {
        channel = if text.contains('\0') { 2 } else { 1 };
    }
    let dir = ctx.fresh_dir(&format!("c08-cli-{}", tag));
    let _ = std::fs::create_dir_all(&dir);
    let tree_path = dir.join("tree.dot");
    let mut args: Vec<String> = Vec::new();
    let mut stdin: Option<Vec<u8>> = None;
    match channel {
        0 => {
            args.push("-e".into());
            args.push(text.clone());
        }
        1 => args.push(format!("--evaluate={}", text)),
        2 => {
            let _ = std::fs::write(dir.join("in.txt"), &text);
            args.push("in.txt".into());
        }
        4 | 5 => {
            let lines = if channel == 4 { format!("--evaluate={}\n-p\ntree.dot\n", text) } else { format!("-e\n{}\n-p\ntree.dot\n", text) };
            let _ = std::fs::write(dir.join("args file"), lines);
            args.push("@args file".into());
        }
        _ => stdin = Some(text.clone().into_bytes()),
    }
    if channel < 4 {
        args.push("-p".into());
        args.push("tree.dot".into());
    }
    st.evals += 1;
    st.bump("cli_texts");
    st.bump(["cli_texts_by_-e", "cli_texts_by_--evaluate=", "cli_texts_by_file", "cli_texts_by_stdin", "cli_texts_by_argument_file(--evaluate=TEXT)", "cli_texts_by_argument_file(-e, TEXT)"][channel as usize]);
    let out = cli::run(&ctx.bin("rsbdd"), &args, stdin.as_deref(), Some(&dir), Some((20_000_000, 2_000)), std::time::Duration::from_secs(60));
    let case = || json!({"kind": "cli", "text": text, "channel": channel});
    let how = ["-e <text>", "--evaluate=<text>", "<file>", "standard input", "@argfile holding --evaluate=<text>", "@argfile holding -e and <text>"][channel as usize];
    if out.timed_out || out.budget_exceeded() {
        st.bump("cli_out_of_budget(inconclusive case)");
    } else {
        match (&reference, out.ok()) {
            (Err(e), true) => st.violate("c08.accepts-non-sentence", "C08:cli:accepts-non-sentence".into(), format!("rsbdd reading {:?} by {}: not a sentence of the grammar ({:?}) but the tool exits 0", text, how, e), case()),
            (Err(_), false) => {
                st.bump("cli_rejected_by_both");
            }
            (Ok(want), false) => st.violate("c08.rejects-sentence", format!("C08:cli:rejects-sentence:{}", out.panic_site()), format!("rsbdd reading {:?} by {}: a sentence ({:?}) but the tool fails: {}\n{}", text, how, want, out.status_string(), out.stderr_str()), case()),
            (Ok(want), true) => match std::fs::read_to_string(&tree_path).map_err(|e| e.to_string()).and_then(|d| crate::dotread::parse(&d)).and_then(|d| crate::dotread::term_of_parse_tree(&d)) {
                Ok(got) if &got == want => {
                    st.bump("cli_accepted_same_tree");
                    st.nt.insert(mix(util::hash_str(&text), 0xc11 + channel as u64));
                }
                Ok(got) => st.violate("c08.tree", format!("C08:cli:tree-differs:{}", tree_sig(want)), format!("rsbdd reading {:?} by {}:\n exported tree:  {:?}\n reference tree: {:?}", text, how, got, want), case()),
                Err(e) => st.violate("c08.tree", "C08:cli:tree-unreadable".into(), format!("rsbdd reading {:?} by {}: the -p export cannot be read back: {}", text, how, e), case()),
            },
        }
    }
    let _ = std::fs::remove_dir_all(&dir);
}

/// The tool is a reader of texts too: what `rsbdd` makes of a text given with -e / --evaluate=,
/// as a file, or on standard input — read back from its parse-tree export (-p) — is the tree the
/// grammar assigns, and a non-sentence is refused with a non-zero exit.
fn cli_job(ctx: &Ctx, job: usize, iters: u64) -> Stats {
    let mut st = Stats::new();
    let mut rng = Rng::stream(ctx.seed, "C08.cli", job as u64);
    for it in 0..iters {
        let text: String = if it < 2 {
            CLI_TEXTS[(job * 2 + it as usize) % CLI_TEXTS.len()].to_string()
        } else {
            let pool: &[&str] = if it % 4 == 0 { &gen::FANCY_NAMES } else if it % 4 == 1 { gen::rare_pool(it / 16 as u64) } else { &gen::PLAIN_NAMES };
            let mut cfg = GenCfg::simple(&pool[..3], 3);
            cfg.binder_weight = 22;
            let ast = gen::gen_ast(&mut rng, &cfg);
            match it % 3 {
                0 => gen::render(&ast, &mut rng, Style::Fancy),
                1 => {
                    let toks = gen::render_tokens(&ast, &mut rng, Style::Plain);
                    gen::join_tokens(&gen::mutate_tokens(&toks, &mut rng), &mut rng, Style::Plain)
                }
                _ => {
                    // wrapped the way a quoting layer might leave it
                    let inner = gen::render(&ast, &mut rng, Style::Plain);
                    let (l, r) = *rng.pick(&[("'", "'"), ("\"", "\""), ("'", ""), ("", "'"), ("`", "`"), ("(", ")"), ("\\", ""), (" ", " "), ("\"\"", ""), ("'\"", "\"'")]);
                    format!("{}{}{}", l, inner, r)
                }
            }
        };
        let channel = rng.below(6) as u8;
        cli_one(ctx, &mut st, &text, channel, &format!("{}-{}", job, it));
    }
    st
}

const CURATED: [&str; 40] = [
    "", " ", "\n", "a", "a'", "'", "''a", "_x", "x1", "1x", "12ab", "a12", "é", "λx & 中", "a\u{0301}", "x\u{200d}y", "a\u{00a0}b", "a‿b", "x² & y", "😀", "a 😀 b", "\"", "\"\"", "\"a", "a\"", "\"a\" b \"c\"", "{r}", "{r", "r}", "{}", "{a b}", "{a'}", "a{r}b",
    "<=>", "<= >", "< = >", "=>=", ">==", "<<=", "<=>=>",
];

pub fn run(ctx: &Ctx) -> (Stats, Spec) {
    let mut st = Stats::new();
    let jobs = 64;
    // (a) exhaustive token sequences
    let full_len = ctx.tier.pick(4usize, 5usize);
    for len in 0..=full_len {
        let parts = util::par_jobs(jobs, |job| seq_job(&ALPHABET, len, job, jobs, "full"));
        st.merge(crate::report::merge_all(parts));
    }
    st.exhaustive.push(format!("every token sequence of length <= {} over the full alphabet of 33 token kinds", full_len));
    let red_len = ctx.tier.pick(5usize, 6usize);
    let parts = util::par_jobs(jobs, |job| seq_job(&REDUCED, red_len, job, jobs, "reduced"));
    st.merge(crate::report::merge_all(parts));
    st.exhaustive.push(format!("every token sequence of length {} over a reduced alphabet of 22 kinds (plain binary connectives collapsed)", red_len));
    // (b) exhaustive character strings
    let clen = ctx.tier.pick(5usize, 6usize);
    for len in 0..=clen {
        let parts = util::par_jobs(jobs, |job| chars_job(len, job, jobs));
        st.merge(crate::report::merge_all(parts));
    }
    st.exhaustive.push(format!("every character string of length <= {} over the 16 characters `< = > - & a n d 1 \" {{ }} [ ] space '` (token lists compared too)", clen));
    // (a') grammar-directed: every sentence whose tree has <= 2 operator nodes over {a, b} (every node kind,
    //      repeated list entries, empty lists) — sentences of 7+ tokens that the sequence enumeration cannot reach
    for k in 0..=2usize {
        let parts = util::par_jobs(jobs, |job| {
            let mut st = Stats::new();
            for (i, t) in super::common::enum_trees(k).iter().enumerate() {
                if i % jobs == job {
                    check_text(&mut st, &gen::render_plain(t), false, "enumerated-sentences");
                    st.bump("enumerated_sentences");
                }
            }
            st
        });
        st.merge(crate::report::merge_all(parts));
    }
    st.exhaustive.push("every sentence whose syntax tree has <= 2 operator nodes over the names a, b (lists <= 2 entries incl. repeated ones, constants <= 2)".into());
    // (c) random, mutated, spliced
    let iters = ctx.tier.pick(6_000u64, 600_000u64);
    let parts = util::par_jobs(16, |job| random_job(ctx, job, iters));
    st.merge(crate::report::merge_all(parts));
    for t in CURATED {
        check_text(&mut st, t, true, "curated");
    }
    let parts = util::par_jobs(16, |job| invalid_utf8_job(ctx, job, ctx.tier.pick(300u64, 20_000u64)));
    st.merge(crate::report::merge_all(parts));
    let parts = util::par_jobs(16, |job| alignment_job(job, 16));
    st.merge(crate::report::merge_all(parts));
    // (d) the tool as a reader of texts
    let cli_iters = ctx.tier.pick(60u64, 4_000u64);
    let parts = util::par_jobs(16, |job| cli_job(ctx, job, cli_iters));
    st.merge(crate::report::merge_all(parts));
    // names that START with a character that is numeric but no decimal digit (letter numbers: Roman
    // numerals, ideographic zero, Hangzhou numerals; vulgar fractions, superscripts, circled digits)
    for t in ["Ⅷ & -a", "〇x | b", "ⅣA", "exists 〇x # [〇x, b] = 1", "〡 ^ 〢", "Ⅰ Ⅱ", "ⅷ <=> ⅷ", "½ & a", "a½", "² | b", "x²", "① & ②", "[Ⅷ, a] = 1", "[a] = Ⅷ", "lfp Ⅷ # Ⅷ | a", "٣ & a", "٣a", "a٣", "𝟙 | a", "𝟙x", "一 & 二", "𒐕 | a", "Ⅷ1", "1Ⅷ"] {
        check_text(&mut st, t, true, "numeric-non-digit-characters");
        st.bump("texts_with_numeric_non_digit_characters");
    }
    for t in ["-(a b c", "-[a] 3 b", "- a & b", "-a & b", "- (a) b", "-(a", "!(a & b", "not [a] = 1 b", "exists a b # a", "exists , # a", "[,] = 1", "[a,,] = 1", "[a] = ", "if a then b", "lfp # a", "lfp a, b # a", "a & & b", "(a))", "a <=> <= b"] {
        check_text(&mut st, t, true, "negation-and-edge-cases");
    }
    let spec = Spec {
        rule: "exhaustive token sequences (full 33-kind alphabet to length 4 [quick] / 5 [thorough]; reduced alphabet at length 5 / 6), exhaustive character strings over 16 characters to length 5 / 6, random well-formed texts with every alias spelling and their token-level mutations (delete / duplicate / swap / replace / insert / drop a bracket / truncate), splices, soups, a curated Unicode set, and texts of 8-60 KiB (padding by comments / whitespace / separator lines before, inside and after a formula), and texts of 4-192 KiB in which a 2-, 3- or 4-byte character of a name lies across a block boundary (4 KiB .. 192 KiB); inputs that are not valid UTF-8 (bad bytes on the first line, on a later line after a complete formula, inside a line: rejected, or read as the lossily decoded text); plus the TOOL as reader: random, mutated and quote-/prime-/bracket-wrapped texts given to rsbdd by -e, --evaluate=, file, standard input or an @argument file, its -p parse-tree export read back and compared with the reference tree (non-sentences must make it exit non-zero). distinct = text; non-trivial = >= 3 tokens and either accepted, or rejected by the reference only after >= 2 tokens were consumed.".into(),
        assumptions: vec![
            "the reference grammar is DESIGN.md 2.1/2.2 (written from README + property statement); `\\w` / `\\d` are the regex crate's Unicode classes".into(),
            "a digit run that is not an ASCII number fitting the machine integer must be rejected".into(),
        ],
        floors: vec![
            ("accepted_same_tree".into(), 50_000, "too few accepted texts".into()),
            ("rejected_after_two_or_more_tokens".into(), 50_000, "too few interesting negatives".into()),
            ("token_lists_compared".into(), 100_000, "token lists hardly compared".into()),
            ("mutated_texts".into(), 10_000, "mutations not exercised".into()),
            ("large_texts".into(), 50, "texts beyond 8 KiB not exercised".into()),
            ("inputs_that_are_not_valid_utf8".into(), 1_000, "undecodable inputs not exercised".into()),
            ("texts_with_a_character_across_a_block_boundary".into(), 100, "multi-byte characters across block boundaries not exercised".into()),
            ("cli_accepted_same_tree".into(), 150, "the tool's reading of texts hardly compared".into()),
            ("cli_rejected_by_both".into(), 100, "the tool's refusal of non-sentences hardly exercised".into()),
        ],
    };
    (st, spec)
}

pub fn replay(_ctx: &Ctx, _monitor: &str, case: &Value, st: &mut Stats) {
    if case.get("kind").and_then(|k| k.as_str()) == Some("invalid-utf8") {
        let hex = case.get("bytes").and_then(|b| b.as_str()).unwrap_or("");
        let bytes: Vec<u8> = (0..hex.len() / 2).filter_map(|i| u8::from_str_radix(&hex[2 * i..2 * i + 2], 16).ok()).collect();
        judge_undecodable(st, &bytes);
        return;
    }
    if let Some(t) = case.get("text").and_then(|t| t.as_str()) {
        if case.get("kind").and_then(|k| k.as_str()) == Some("cli") {
            cli_one(_ctx, st, t, case.get("channel").and_then(|c| c.as_u64()).unwrap_or(1) as u8, "replay");
            return;
        }
        check_text(st, t, true, "replay");
    }
}

#[allow(dead_code)]
fn _unused(_: u64) -> u64 {
    mix(0, 0)
}
