//! C12 — no input makes the parser or the command-line tool panic.
//!
//! Monitor: in-process, every stage (tokenize / parse / evaluate / print-path lookups / DOT
//! rendering) runs under catch_unwind with classified payloads; for the real binary the exit
//! status and terminating signal are observed (101 = panic, signal = abort / stack overflow).
//! The reference model only decides which inputs may be *evaluated* (convergent fixed points,
//! bounded size), so that legitimate divergence or blow-up is never blamed.

use super::common::*;
use crate::cli;
use crate::conv::{ast_of_engine, labels_of};
use crate::gen::{self, GenCfg, Style};
use crate::refsem::Sem;
use crate::refsyn::Ast;
use crate::report::{Ctx, Spec, Stats};
use crate::util::{self, guarded, Caught, Rng};
use rsbdd::bdd_io::BDDGraph;
use rsbdd::parser::{ParsedFormula, SymbolicBDD};
use rsbdd::parser_io::SymbolicParseTree;
use rsbdd::{NamedSymbol, TruthTableEntry};
use serde_json::{json, Value};
use std::io::BufReader;
use std::time::Duration;

const STEP_CAP: u64 = 2_000_000;

fn hex(b: &[u8]) -> String {
    b.iter().map(|x| format!("{:02x}", x)).collect()
}

fn unhex(s: &str) -> Vec<u8> {
    (0..s.len() / 2).filter_map(|i| u8::from_str_radix(&s[2 * i..2 * i + 2], 16).ok()).collect()
}

fn show(b: &[u8]) -> String {
    let s = String::from_utf8_lossy(b);
    let mut s: String = s.chars().take(200).collect();
    if b.len() > 200 {
        s.push('…');
    }
    s
}

fn depth(a: &Ast) -> usize {
    match a {
        Ast::False | Ast::True | Ast::Var(_) | Ast::Ref(_) => 1,
        Ast::Not(f) | Ast::Quant(_, _, f) | Ast::Fix(_, _, f) => 1 + depth(f),
        Ast::CountConst(_, xs, _) => 1 + xs.iter().map(depth).max().unwrap_or(0),
        Ast::CountList(_, xs, ys) => 1 + xs.iter().chain(ys.iter()).map(depth).max().unwrap_or(0),
        Ast::Ite(a, b, c) => 1 + depth(a).max(depth(b)).max(depth(c)),
        Ast::Bin(_, a, b) => 1 + depth(a).max(depth(b)),
    }
}

/// May this (engine-parsed) tree be evaluated without blaming legitimate divergence / blow-up?
fn evaluable(ast: &Ast) -> Option<u64> {
    let names = ast.names_in_text_order();
    if names.len() > 10 || ast.node_count() > 300 || depth(ast) > 202 {
        return None;
    }
    let mut long_list = false;
    let mut fixes = 0;
    ast.visit(&mut |n| match n {
        Ast::CountConst(_, xs, _) if xs.len() > 8 => long_list = true,
        Ast::CountList(_, xs, ys) if xs.len() + ys.len() > 8 => long_list = true,
        Ast::Fix(..) => fixes += 1,
        _ => {}
    });
    if long_list || fixes > 3 {
        return None;
    }
    let mut sem = Sem::new(&names);
    match sem.eval(ast) {
        Ok(_) => Some(sem.fp_iters * 4 + 64),
        Err(_) => None,
    }
}

/// Drive one byte string through all stages. `ordering`: bytes used as an ordering file.
pub fn check_bytes(st: &mut Stats, input: &[u8], ordering: Option<&[u8]>, origin: &str) {
    st.evals += 1;
    let case = || json!({"kind": "inproc", "input_hex": hex(input), "ordering_hex": ordering.map(hex), "origin": origin, "input_text": show(input)});
    let fail = |st: &mut Stats, stage: &str, c: &Caught| {
        st.violate("c12.inproc", format!("C12:{}", c.signature()), format!("stage {}: input {:?}{}: {:?}", stage, show(input), ordering.map(|o| format!(" ordering {:?}", show(o))).unwrap_or_default(), c), case());
    };
    // ordering file -> variable list, exactly as the binary does
    let ord_vars: Option<Vec<NamedSymbol>> = match ordering {
        None => None,
        Some(ob) => {
            util::budget(STEP_CAP, 100);
            match guarded(|| SymbolicBDD::tokenize(&mut BufReader::new(ob), None).map(|t| ParsedFormula::extract_vars(&t))) {
                Err(c) => {
                    fail(st, "tokenize-ordering", &c);
                    return;
                }
                Ok(Err(_)) => {
                    st.bump("stage_ordering_rejected");
                    return;
                }
                Ok(Ok(v)) => Some(v),
            }
        }
    };
    util::budget(STEP_CAP, 100);
    match guarded(|| SymbolicBDD::tokenize(&mut BufReader::new(input), None)) {
        Err(c) => {
            fail(st, "tokenize", &c);
            return;
        }
        Ok(Err(_)) => {
            st.bump("stage_tokenize_error");
            return;
        }
        Ok(Ok(_)) => {}
    }
    let pf = match guarded(|| ParsedFormula::new(&mut BufReader::new(input), ord_vars.clone())) {
        Err(c) => {
            fail(st, "parse", &c);
            return;
        }
        Ok(Err(_)) => {
            st.bump("stage_parse_error");
            st.nt.insert(util::hash_bytes(input));
            return;
        }
        Ok(Ok(pf)) => pf,
    };
    st.bump("stage_parsed");
    st.nt.insert(util::hash_bytes(input) ^ ordering.map(util::hash_bytes).unwrap_or(0));
    // parse-tree DOT export never needs evaluation
    if let Err(c) = guarded(|| {
        let mut buf = Vec::new();
        SymbolicParseTree::new(&pf.bdd).render_dot(&mut buf).map(|_| buf.len())
    }) {
        fail(st, "parse-tree-dot", &c);
        return;
    }
    let ast = ast_of_engine(&pf.bdd);
    let Some(fp_cap) = evaluable(&ast) else {
        st.bump("not_evaluated(non-convergent or too large)");
        return;
    };
    util::budget(STEP_CAP, fp_cap);
    let result = match guarded(|| pf.eval()) {
        Err(Caught::Budget(_)) => {
            st.bump("budget_exceeded(inconclusive case)");
            return;
        }
        Err(c) => {
            fail(st, "evaluate", &c);
            return;
        }
        Ok(r) => r,
    };
    st.bump("stage_evaluated");
    // the print path of the binary: column lookup for every label, retain, model, DOT
    let printed = guarded(|| {
        let mut n = 0usize;
        for l in labels_of(&result) {
            n += pf.to_free_index(&l);
        }
        let m = pf.env.model(std::rc::Rc::clone(&result));
        for l in labels_of(&m) {
            n += pf.to_free_index(&l);
        }
        for f in [TruthTableEntry::True, TruthTableEntry::False, TruthTableEntry::Any] {
            let r = pf.env.retain_choice_bottom_up(std::rc::Rc::clone(&result), f);
            for l in labels_of(&r) {
                n += pf.to_free_index(&l);
            }
            let mut buf = Vec::new();
            let _ = BDDGraph::new(&result, f).render_dot(&mut buf);
            n += buf.len();
        }
        n
    });
    match printed {
        Err(Caught::Budget(_)) => st.bump("budget_exceeded(inconclusive case)"),
        Err(c) => fail(st, "print-path", &c),
        Ok(_) => {
            st.bump("stage_printed");
            if st.want_sample() && st.evals % 3001 == 5 {
                st.sample(json!({"input": show(input), "ordering": ordering.map(show), "origin": origin, "deepest_stage": "printed"}));
            }
        }
    }
}

// ------------------------------------------------------------------------------ input families

pub const UNICODE: [&str; 24] = [
    "٣", "a & ٣", "[a] = ٣", "१२", "x² | y", "é & ñ", "λ => μ", "中 | 文", "a\u{0301}", "x\u{200d}y", "a\u{00a0}& b", "a‿b", "😀", "a 😀 b", "\u{feff}a", "a\u{2028}b", "ǅ", "ß", "ｆｕｌｌ", "１２", "[a] = １", "\u{0660}", "a\u{0}b", "\u{1d7d8}",
];

fn nested(kind: usize, d: usize) -> String {
    match kind {
        0 => format!("{}a{}", "(".repeat(d), ")".repeat(d)),
        1 => format!("{}a", "-".repeat(d)),
        2 => format!("{}a", "not ".repeat(d)),
        3 => format!("{}a", "exists a # ".repeat(d)),
        4 => format!("{}a", "forall b, c # ".repeat(d)),
        5 => format!("{}a{}", "if a then b else ".repeat(d / 2), ""),
        6 => format!("{}a{}", "[".repeat(d), "] = 1".repeat(d)),
        7 => format!("{}a", "lfp u # ".repeat(d)),
        8 => format!("{}a", "gfp u # ".repeat(d)),
        9 => format!("{}a{}", "(a & ".repeat(d), ")".repeat(d)),
        10 => format!("{}a", "a | ".repeat(d)),
        11 => format!("{}a{}", "if ".repeat(d.min(60)), " then a else a".repeat(d.min(60))),
        _ => format!("{}{}", "(".repeat(d), ")".repeat(d)),
    }
}

const DIGIT_FAMILIES: [[char; 3]; 5] = [['१', '२', '३'], ['٠', '١', '٢'], ['๑', '๒', '๓'], ['１', '２', '３'], ['𝟘', '𝟙', '𝟚']];

fn digits(rng: &mut Rng) -> String {
    if rng.chance(1, 3) {
        // runs of non-ASCII digits (2-, 3- and 4-byte), alone or mixed with ASCII digits, 1..40 characters
        let fam = *rng.pick(&DIGIT_FAMILIES);
        let n = 1 + rng.usize(40);
        return (0..n).map(|_| if rng.chance(1, 4) { char::from(b'0' + rng.below(10) as u8) } else { *rng.pick(&fam) }).collect();
    }
    match rng.below(8) {
        0 => "2147483647".into(),
        1 => "2147483648".into(),
        2 => "9223372036854775807".into(),
        3 => "9223372036854775808".into(),
        4 => "18446744073709551615".into(),
        5 => "18446744073709551616".into(),
        6 => {
            let n = 1 + rng.usize(40);
            (0..n).map(|_| char::from(b'0' + rng.below(10) as u8)).collect()
        }
        _ => format!("{}{}", "0".repeat(rng.usize(30)), rng.below(5)),
    }
}

fn gen_input(rng: &mut Rng, family: u64) -> (Vec<u8>, &'static str) {
    match family {
        0 => {
            let n = rng.usize(48);
            ((0..n).map(|_| rng.below(256) as u8).collect(), "random-bytes")
        }
        1 => {
            // valid formula with invalid UTF-8 / control bytes sprinkled in
            let cfg = GenCfg::simple(&gen::PLAIN_NAMES[..4], 4);
            let mut b = gen::render(&gen::gen_ast(rng, &cfg), rng, Style::Fancy).into_bytes();
            for _ in 0..(1 + rng.usize(3)) {
                let pos = rng.usize(b.len() + 1);
                b.insert(pos, *rng.pick(&[0xffu8, 0xc3, 0x80, 0x00, 0xe2, 0xf0, 0x1b]));
            }
            (b, "invalid-utf8-in-formula")
        }
        2 => {
            let n = 1 + rng.usize(24);
            let s: Vec<&str> = (0..n).map(|_| rng.pick_str(&gen::TOKEN_SPELLINGS)).collect();
            (s.join(if rng.chance(1, 3) { "" } else { " " }).into_bytes(), "token-soup")
        }
        3 => (rng.pick_str(&UNICODE).as_bytes().to_vec(), "unicode"),
        4 => {
            let d = digits(rng);
            let t = match rng.below(6) {
                0 => d,
                1 => format!("[a, b] {} {}", rng.pick_str(&["=", "<=", ">=", "<", ">"]), d),
                2 => format!("[] {} {}", rng.pick_str(&["=", "<=", ">=", "<", ">"]), d),
                3 => format!("a & {}", d),
                4 => format!("{}a", d),
                _ => format!("[a] = {} & [b] > {}", d, digits(rng)),
            };
            (t.into_bytes(), "digits")
        }
        5 => {
            let names: &[&str] = if rng.chance(1, 3) { &gen::FANCY_NAMES } else if rng.chance(1, 4) { gen::rare_pool(rng.next() as u64) } else { &gen::PLAIN_NAMES };
            let mut cfg = GenCfg::simple(&names[..5], 5);
            cfg.allow_ref = true;
            let toks = gen::render_tokens(&gen::gen_ast(rng, &cfg), rng, Style::Fancy);
            let m = gen::mutate_tokens(&toks, rng);
            (gen::join_tokens(&m, rng, Style::Fancy).into_bytes(), "mutated-formula")
        }
        6 => {
            let cfg = GenCfg::simple(&gen::PLAIN_NAMES[..4], 4);
            let mut s = gen::render(&gen::gen_ast(rng, &cfg), rng, Style::Plain);
            for _ in 0..(1 + rng.usize(2)) {
                let ch = *rng.pick(&['(', ')', '[', ']', '"', '{', '}', '\'']);
                let mut pos = rng.usize(s.len() + 1);
                while !s.is_char_boundary(pos) {
                    pos -= 1;
                }
                s.insert(pos, ch);
            }
            (s.into_bytes(), "unbalanced")
        }
        7 => (rng.pick_str(&["", " ", "\n", "\t\r\n", "\"\"", "\"only a comment\"", "#", "()", "[]", "{}", ","]).as_bytes().to_vec(), "empty-ish"),
        8 => {
            let d = *rng.pick(&[1usize, 2, 10, 50, 100, 150, 199, 200]);
            (nested(rng.usize(13), d).into_bytes(), "nesting<=200")
        }
        10 => {
            // large but legal inputs (up to ~60 KiB): huge comments, very long identifiers, long runs of
            // whitespace / separators, many short lines — around a valid formula
            let cfg = GenCfg::simple(&gen::PLAIN_NAMES[..4], 4);
            let core = gen::render(&gen::gen_ast(rng, &cfg), rng, Style::Plain);
            let big = 2_000 + rng.usize(56_000);
            let text = match rng.below(5) {
                0 => format!("\"{}\" {}", "c".repeat(big), core),
                1 => format!("{} & {}", "x".repeat(big), core),
                2 => format!("{}{}{}", " \n\t".repeat(big / 3), core, "\r\n".repeat(big / 4)),
                3 => {
                    let line = format!("\"l\" {}\n", rng.pick_str(&[";", ".", "~", "\"\""]));
                    format!("{}{}", line.repeat(big / line.len()), core)
                }
                _ => format!("{} | [{}] >= 1", core, vec!["a"; 1].join(",")).replace('a', &"a".repeat(1 + big / 64)),
            };
            (text.into_bytes(), "large-input")
        }
        _ => {
            let names: &[&str] = if rng.chance(1, 4) { &gen::FANCY_NAMES } else { &gen::PLAIN_NAMES };
            let mut cfg = GenCfg::simple(&names[..5], 5);
            cfg.allow_ref = true;
            (gen::render(&gen::gen_ast(rng, &cfg), rng, Style::Fancy).into_bytes(), "valid-formula")
        }
    }
}

fn gen_ordering(rng: &mut Rng) -> Vec<u8> {
    match rng.below(8) {
        0 => b"a b c d e f".to_vec(),
        1 => b"f,e,d;c\nb a".to_vec(),
        2 => b"zz a yy b xx".to_vec(),
        3 => b"x a b".to_vec(),
        4 => b"a a b a".to_vec(),
        5 => gen_input(rng, 2).0,
        6 => gen_input(rng, 0).0,
        _ => {
            let mut names: Vec<&str> = vec!["a", "b", "c", "d", "e", "f", "u1", "u2", "and", "\"c\"", "12", "é"];
            rng.shuffle(&mut names);
            names.truncate(1 + rng.usize(names.len()));
            names.join(rng.pick_str(&[" ", "\n", ", ", " ; "])).into_bytes()
        }
    }
}

fn inproc_job(ctx: &Ctx, job: usize, iters: u64) -> Stats {
    let mut st = Stats::new();
    let mut rng = Rng::stream(ctx.seed, "C12.inproc", job as u64);
    for it in 0..iters {
        let fam = if it % 97 == 0 { 10 } else { it % 10 };
        let (input, origin) = gen_input(&mut rng, fam);
        st.bump(&format!("family_{}", origin));
        if rng.chance(1, 4) {
            let ord = gen_ordering(&mut rng);
            check_bytes(&mut st, &input, Some(&ord), origin);
            st.bump("with_ordering");
        } else {
            check_bytes(&mut st, &input, None, origin);
        }
    }
    st
}

// ------------------------------------------------------------------------------------------ CLI

fn cli_case(ctx: &Ctx, st: &mut Stats, rng: &mut Rng, idx: u64) {
    let dir = ctx.fresh_dir(&format!("c12-{}", idx));
    let _ = std::fs::create_dir_all(&dir);
    let fam = if rng.chance(1, 12) { 10 } else { rng.below(10) };
    let (input, origin) = gen_input(rng, fam);
    let mut args: Vec<String> = Vec::new();
    let mut stdin: Option<Vec<u8>> = None;
    let utf8 = std::str::from_utf8(&input).ok().filter(|s| !s.contains('\0')).map(|s| s.to_string());
    let mut channel = rng.below(4);
    if utf8.is_none() && channel == 0 {
        channel = 1;
    }
    match channel {
        0 => args.push(format!("--evaluate={}", utf8.clone().unwrap())),
        1 => {
            let p = dir.join("input.txt");
            let _ = std::fs::write(&p, &input);
            args.push(p.display().to_string());
        }
        2 => stdin = Some(input.clone()),
        _ => args.push(dir.join("missing.txt").display().to_string()),
    }
    let mut opts = Vec::new();
    for (flag, p) in [("-t", 2), ("-v", 4), ("-m", 4), ("-r", 4)] {
        if rng.chance(1, p) {
            opts.push(flag.to_string());
        }
    }
    if rng.chance(1, 3) {
        opts.push("-c".into());
        opts.push(rng.pick_str(&["t", "f", "x", "True", "0", "*", ""]).to_string());
    }
    if rng.chance(1, 3) {
        opts.push("-f".into());
        opts.push(rng.pick_str(&["true", "True", "t", "T", "1", "false", "False", "f", "F", "0", "any", "Any", "a", "A", "*", "TRUE", "yes", "", "2"]).to_string());
    }
    if rng.chance(1, 4) {
        opts.push("-b".into());
        opts.push(rng.pick_str(&["0", "1", "3", "x", "-1", "18446744073709551616"]).to_string());
        if rng.chance(1, 2) {
            opts.push("-g".into());
        }
    }
    if rng.chance(1, 4) {
        opts.push("-d".into());
        opts.push(if rng.chance(1, 3) { "/nonexistent-dir/out.dot".to_string() } else { dir.join("out.dot").display().to_string() });
    }
    if rng.chance(1, 4) {
        opts.push("-p".into());
        opts.push(if rng.chance(1, 3) { dir.display().to_string() } else { dir.join("tree.dot").display().to_string() });
    }
    if rng.chance(1, 3) {
        opts.push("-o".into());
        match rng.below(4) {
            0 => opts.push(dir.join("no-such-ordering").display().to_string()),
            1 => opts.push(dir.display().to_string()),
            _ => {
                let p = dir.join("ordering.txt");
                let _ = std::fs::write(&p, gen_ordering(rng));
                opts.push(p.display().to_string());
            }
        }
    }
    args.extend(opts);
    st.evals += 1;
    st.bump("cli_runs");
    let out = cli::run(&ctx.bin("rsbdd"), &args, stdin.as_deref(), Some(&dir), Some((STEP_CAP, 5_000)), Duration::from_secs(60));
    let ord_hex = std::fs::read(dir.join("ordering.txt")).ok().map(|b| hex(&b));
    let case = json!({"kind": "cli", "args": args, "stdin_hex": stdin.as_ref().map(|b| hex(b)), "input_hex": hex(&input), "ordering_hex": ord_hex, "origin": origin, "dir": dir.display().to_string()});
    if out.timed_out {
        st.bump("cli_watchdog(inconclusive case)");
    } else if out.budget_exceeded() {
        st.bump("cli_budget_exceeded(not judged)");
    } else if out.crashed() {
        st.violate(
            "c12.cli",
            format!("C12:cli:{}", out.panic_site()),
            format!("rsbdd {:?} ({}; input {:?}) died: {}\n{}", args, origin, show(&input), out.status_string(), out.stderr_str().lines().filter(|l| !l.starts_with("finished ")).take(6).collect::<Vec<_>>().join("\n")),
            case,
        );
    } else {
        st.bump(&format!("cli_exit_{}", out.code.unwrap_or(-1)));
        let mut h = util::hash_bytes(&input);
        for a in &args[1.min(args.len())..] {
            if !a.starts_with('/') {
                h = util::mix(h, util::hash_str(a));
            }
        }
        st.nt.insert(h);
        if st.want_sample() && out.code == Some(0) && idx % 37 == 3 {
            st.sample(json!({"argv": args.iter().map(|a| a.replace(&dir.display().to_string(), "$D")).collect::<Vec<_>>(), "input": show(&input), "exit": 0}));
        }
    }
    let _ = std::fs::remove_dir_all(&dir);
}

/// Inputs at the very limit of the domain (64 KiB = 65536 bytes): one identifier / comment / digit
/// run / whitespace run that fills the input up to 65530..65536 bytes, as formula (file) or as
/// ordering file, with every single output option.
fn limit_job(ctx: &Ctx, job: usize, jobs: usize) -> Stats {
    let mut st = Stats::new();
    let mut k = 0usize;
    for total in [65_530usize, 65_533, 65_534, 65_535, 65_536] {
        let shapes: Vec<(&str, Vec<u8>)> = vec![
            ("one-identifier", "a".repeat(total).into_bytes()),
            ("identifier-and-more", format!("{} & b", "x".repeat(total - 4)).into_bytes()),
            ("multibyte-identifier", format!("{}{}", "é".repeat(total / 2), if total % 2 == 1 { "z" } else { "" }).into_bytes()),
            ("comment", format!("\"{}\" a", "c".repeat(total - 4)).into_bytes()),
            ("digits", "7".repeat(total).into_bytes()),
            ("whitespace", format!("{}a|b", " ".repeat(total - 3)).into_bytes()),
        ];
        for (shape, input) in shapes {
            for (oi, opts) in [vec!["-t"], vec!["-t", "-v"], vec!["-v"], vec!["-m"], vec!["-r"], vec!["-t", "-f", "t"], vec!["-d", "out.dot"], vec!["-p", "tree.dot"], vec!["-t", "-c", "t"], vec![]].iter().enumerate() {
                for as_ordering in [false, true] {
                    k += 1;
                    if k % jobs != job || (as_ordering && oi > 1) {
                        continue;
                    }
                    let dir = ctx.fresh_dir(&format!("c12-limit-{}", k));
                    let _ = std::fs::create_dir_all(&dir);
                    let mut args: Vec<String> = Vec::new();
                    let mut ord_hex = None;
                    if as_ordering {
                        let _ = std::fs::write(dir.join("input.txt"), b"a & b");
                        let _ = std::fs::write(dir.join("ordering.txt"), &input);
                        ord_hex = Some(hex(&input));
                        args.push(dir.join("input.txt").display().to_string());
                        args.push("-o".into());
                        args.push(dir.join("ordering.txt").display().to_string());
                    } else {
                        let _ = std::fs::write(dir.join("input.txt"), &input);
                        args.push(dir.join("input.txt").display().to_string());
                    }
                    args.extend(opts.iter().map(|s| if s.ends_with(".dot") { dir.join(s).display().to_string() } else { s.to_string() }));
                    st.evals += 1;
                    st.bump("cli_runs");
                    st.bump("inputs_at_the_64KiB_limit");
                    let out = cli::run(&ctx.bin("rsbdd"), &args, None, Some(&dir), Some((STEP_CAP, 5_000)), Duration::from_secs(60));
                    let file_hex = if as_ordering { hex(b"a & b") } else { hex(&input) };
                    let case = json!({"kind": "cli", "args": args, "stdin_hex": Value::Null, "input_hex": file_hex, "ordering_hex": ord_hex, "origin": format!("limit:{}:{}", shape, total), "dir": dir.display().to_string()});
                    if out.timed_out {
                        st.bump("cli_watchdog(inconclusive case)");
                    } else if out.budget_exceeded() {
                        st.bump("cli_budget_exceeded(not judged)");
                    } else if out.crashed() {
                        st.violate("c12.cli", format!("C12:cli:{}", out.panic_site()), format!("rsbdd {:?} ({} of {} bytes{}) died: {}\n{}", opts, shape, total, if as_ordering { " as ordering file" } else { "" }, out.status_string(), out.stderr_str().lines().filter(|l| !l.starts_with("finished ")).take(6).collect::<Vec<_>>().join("\n")), case);
                    } else {
                        st.bump(&format!("cli_exit_{}", out.code.unwrap_or(-1)));
                        st.nt.insert(util::mix(util::hash_str(shape), (total * 100 + oi * 2 + as_ordering as usize) as u64));
                    }
                    let _ = std::fs::remove_dir_all(&dir);
                }
            }
        }
    }
    st
}

/// EVERY name length from 1 to 300 bytes (and around 512 .. 4096), ASCII and two-byte letters,
/// in a formula whose table shows the name as True, as False and as Any, with each printing option:
/// padding, column widths and buffers are computed from the length of a name.
fn name_length_job(ctx: &Ctx, job: usize, jobs: usize) -> Stats {
    let mut st = Stats::new();
    let lengths: Vec<usize> = (1..=300usize).chain([511, 512, 513, 1023, 1024, 1025, 4095, 4096, 4097]).collect();
    let option_sets: [&[&str]; 6] = [&["-t"], &["-t", "-v"], &["-v"], &["-m", "-t"], &["-r", "-t", "-f", "t"], &["-t", "-f", "false"]];
    for (li, len) in lengths.iter().enumerate() {
        if li % jobs != job {
            continue;
        }
        for (two_byte, letter) in [(false, "v"), (true, "é")] {
            if two_byte && len % 2 == 1 {
                continue;
            }
            let name = letter.repeat(if two_byte { len / 2 } else { *len });
            // rows: name True (other open), name False & other True, name False & other False
            let text = format!("({} | o) & (p | -{})", name, name);
            let opts = option_sets[(li + two_byte as usize) % option_sets.len()];
            let mut args: Vec<String> = vec![format!("--evaluate={}", text)];
            args.extend(opts.iter().map(|s| s.to_string()));
            st.evals += 1;
            st.bump("cli_runs");
            st.bump("name_lengths_swept");
            let out = cli::run(&ctx.bin("rsbdd"), &args, None, None, Some((STEP_CAP, 5_000)), Duration::from_secs(60));
            let case = json!({"kind": "cli", "args": args, "stdin_hex": Value::Null, "input_hex": Value::Null, "ordering_hex": Value::Null, "origin": format!("name-length:{}", len), "dir": ""});
            if out.timed_out {
                st.bump("cli_watchdog(inconclusive case)");
            } else if out.budget_exceeded() {
                st.bump("cli_budget_exceeded(not judged)");
            } else if out.crashed() {
                st.violate("c12.cli", format!("C12:cli:{}", out.panic_site()), format!("rsbdd {:?} on a formula with a name of {} bytes died: {}\n{}", opts, len, out.status_string(), out.stderr_str().lines().filter(|l| !l.starts_with("finished ")).take(6).collect::<Vec<_>>().join("\n")), case);
            } else {
                st.nt.insert(util::mix(0x1e9, (*len * 2 + two_byte as usize) as u64));
            }
        }
    }
    st
}

/// Formulas with {references} whose definitions are supplied through the API (as syntax), with a
/// reference used outside a fixed point, inside one, or both; evaluated two or three times with a
/// re-definition in between. Evaluation returns or fails with an error value — it does not panic.
fn definitions_job(ctx: &Ctx, job: usize, iters: u64) -> Stats {
    use rsbdd::parser::ReferenceContents;
    let mut st = Stats::new();
    let mut rng = Rng::stream(ctx.seed, "C12.definitions", job as u64);
    let mains = ["{R} & gfp X # (X & {R})", "(lfp X # X | {R}) | {S}", "{R} | {S}", "gfp X # (X & ({R} | {S}))", "exists a # {R} & (mu X # (X | {S}) & {R})", "[{R}, {S}, a] >= 2", "if {R} then (nu X # {S} & X) else {R}", "-{R} ^ (lfp Y # Y | (gfp X # X & {R}))"];
    let defs = ["a | b", "a & -b", "true", "false", "exists b # b & a", "[a, b] = 1", "{S} | a", "lfp Z # Z | b"];
    for _ in 0..iters {
        let main = *rng.pick(&mains);
        let script: Vec<(&str, &str)> = (0..2 + rng.usize(3)).map(|i| (if i % 2 == 0 { "R" } else { "S" }, *rng.pick(&defs))).collect();
        st.evals += 1;
        st.bump("formulas_with_api_definitions");
        let case = json!({"kind": "definitions", "main": main, "script": script.iter().map(|(n, d)| format!("{} := {}", n, d)).collect::<Vec<_>>()});
        util::budget(20_000_000, 2_000);
        let script2 = script.clone();
        let r = guarded(move || -> std::io::Result<()> {
            let pf = ParsedFormula::new(&mut std::io::BufReader::new(main.as_bytes()), None)?;
            for (name, text) in &script2 {
                if *name == "S" && text.contains("{S}") {
                    continue; // (a definition that refers to itself never ends: not a formula whose evaluation converges)
                }
                let sub = ParsedFormula::new_with_env(std::rc::Rc::clone(&pf.env), &mut std::io::BufReader::new(text.as_bytes()), None)?;
                pf.define(name, ReferenceContents::Syntax(sub.bdd.clone()));
                let _ = pf.eval();
                let _ = pf.eval();
            }
            Ok(())
        });
        match r {
            Ok(_) => {
                st.nt.insert(util::mix(util::hash_str(main), script.len() as u64 * 131 + util::hash_str(script[0].1)));
            }
            Err(util::Caught::Budget(_)) => st.bump("budget_exceeded(not judged)"),
            Err(c) => st.violate("c12.inproc", format!("C12:{}", c.signature()), format!("`{}` with the definitions {:?} (made through the API, evaluated after each): {:?}", main, script, c), case),
        }
    }
    st
}

fn cli_job(ctx: &Ctx, job: usize, iters: u64) -> Stats {
    let mut st = Stats::new();
    let mut rng = Rng::stream(ctx.seed, "C12.cli", job as u64);
    for i in 0..iters {
        cli_case(ctx, &mut st, &mut rng, job as u64 * 1_000_000 + i);
    }
    st
}

pub fn run(ctx: &Ctx) -> (Stats, Spec) {
    let (iters, cli_iters) = ctx.tier.pick((12_000u64, 150u64), (1_500_000u64, 6_000u64));
    let mut st = with_stderr_gagged(|| {
        let parts = util::par_jobs(16, |job| inproc_job(ctx, job, iters));
        let mut st = crate::report::merge_all(parts);
        // deterministic probes: every Unicode sample and every nesting kind at the bound, also as ordering
        for u in UNICODE {
            check_bytes(&mut st, u.as_bytes(), None, "unicode");
            check_bytes(&mut st, b"a & b", Some(u.as_bytes()), "unicode-as-ordering");
        }
        for k in 0..13 {
            for d in [199usize, 200] {
                check_bytes(&mut st, nested(k, d).as_bytes(), None, "nesting<=200");
            }
        }
        for t in ["99999999999999999999999", "[a] >= 9223372036854775808", "[a] > 9223372036854775807", "[a] < 0", "[] < 0"] {
            check_bytes(&mut st, t.as_bytes(), None, "digits");
            check_bytes(&mut st, b"a", Some(t.as_bytes()), "digits-as-ordering");
        }
        // texts consisting of comments only (with and without anything after the last quote), also as ordering
        for t in ["\"c\"", "\"\"", "\"a\" \"b\"", "\"a\"\"b\"", " \"c\"", "\"c\" ", "\"c\"\n", "\"multi\nline\"", "\"", "\"\"\"", "", " ", "\n"] {
            check_bytes(&mut st, t.as_bytes(), None, "comments-only");
            check_bytes(&mut st, b"a | b", Some(t.as_bytes()), "comments-only-as-ordering");
        }
        for (f, o) in [("w", "p q r s t u v w"), ("v | w", "p q r s t u v w"), ("exists v # v & w", "p q r s t u v w"), ("w", "x0 x1 x2 x3 x4 x5 x6 x7 x8 x9 x10 x11 x12 x13 x14 x15 x16 x17 x18 x19 w"), ("a & b", "x a b"), ("a & b", "b"), ("a & b", "b zz a"), ("exists a # a & b", "a b"), ("c | (a & b)", "zz yy xx c")] {
            check_bytes(&mut st, f.as_bytes(), Some(o.as_bytes()), "ordering-superset");
        }
        st
    });
    let parts = util::par_jobs(16, |job| {
        let mut s = cli_job(ctx, job, cli_iters);
        s.merge(limit_job(ctx, job, 16));
        s.merge(name_length_job(ctx, job, 16));
        s.merge(definitions_job(ctx, job, cli_iters));
        s
    });
    st.merge(crate::report::merge_all(parts));
    let spec = Spec {
        rule: "byte strings from 11 families plus inputs of exactly 65530-65536 bytes (one identifier / multi-byte identifier / comment / digit run / whitespace run filling the whole input, as formula and as ordering file, with each output option), names of EVERY length from 1 to 300 bytes (ASCII and two-byte letters; also 511-513, 1023-1025, 4095-4097) in a formula whose table shows the name as True, False and Any, under six option sets (large inputs up to ~60 KiB: huge comments, very long identifiers, long whitespace runs, thousands of lines; random bytes; invalid UTF-8 inside formulas; token soups incl. braces/quotes; curated Unicode incl. non-ASCII digits; digit runs around 2^31/2^63/2^64 and up to 40 digits, also of 2-/3-/4-byte non-ASCII digits mixed with ASCII ones; mutated formulas; unbalanced brackets/quotes; empty input; every nestable construct nested up to exactly 200; valid formulas), a quarter of them combined with a hostile ordering; CLI: the same families through --evaluate / file / stdin / missing file x random subsets of -t -v -m -r -c -f -b -g -d -p -o with valid and invalid values. distinct = input bytes (+ ordering / options); non-trivial = the input got past tokenisation (reached the parser or beyond).".into(),
        assumptions: vec![
            "'nesting depth <= 200' is read as depth of the syntax tree (a right-nested chain of n binary operators has depth n)".into(),
            "formulas are evaluated only when the reference finds their fixed points convergent and their size bounded (<= 10 names, lists <= 8, <= 300 nodes); exceeding the logical step budget is an inconclusive case".into(),
            "stdout/stderr write failures (closed pipe, /dev/full) are environment faults and are not injected".into(),
        ],
        floors: vec![
            ("stage_tokenize_error".into(), 20, "tokenizer errors never reached".into()),
            ("stage_parse_error".into(), 1_000, "parse errors never reached".into()),
            ("stage_parsed".into(), 1_000, "nothing parsed".into()),
            ("stage_evaluated".into(), 1_000, "nothing evaluated".into()),
            ("stage_printed".into(), 1_000, "print path never reached".into()),
            ("with_ordering".into(), 1_000, "orderings never exercised".into()),
            ("cli_runs".into(), 1_000, "CLI hardly exercised".into()),
            ("inputs_at_the_64KiB_limit".into(), 200, "inputs at the size limit not exercised".into()),
            ("name_lengths_swept".into(), 300, "name lengths not swept".into()),
            ("cli_exit_0".into(), 100, "CLI never succeeded".into()),
        ],
    };
    (st, spec)
}

pub fn replay(ctx: &Ctx, _monitor: &str, case: &Value, st: &mut Stats) {
    let get_hex = |k: &str| case.get(k).and_then(|v| v.as_str()).map(unhex);
    if case.get("kind").and_then(|k| k.as_str()) == Some("cli") {
        let old_dir = case.get("dir").and_then(|d| d.as_str()).unwrap_or("").to_string();
        let dir = ctx.fresh_dir("c12-replay");
        let _ = std::fs::create_dir_all(&dir);
        if let Some(b) = get_hex("input_hex") {
            let _ = std::fs::write(dir.join("input.txt"), b);
        }
        if let Some(b) = get_hex("ordering_hex") {
            let _ = std::fs::write(dir.join("ordering.txt"), b);
        }
        let args: Vec<String> = case.get("args").and_then(|a| a.as_array()).map(|a| a.iter().filter_map(|x| x.as_str().map(|s| if old_dir.is_empty() { s.to_string() } else { s.replace(&old_dir, &dir.display().to_string()) })).collect()).unwrap_or_default();
        let stdin = get_hex("stdin_hex");
        st.evals += 1;
        let out = cli::run(&ctx.bin("rsbdd"), &args, stdin.as_deref(), Some(&dir), Some((STEP_CAP, 5_000)), Duration::from_secs(60));
        if out.crashed() {
            st.violate("c12.cli", format!("C12:cli:{}", out.panic_site()), format!("rsbdd {:?} died: {}\n{}", args, out.status_string(), out.stderr_str()), case.clone());
        }
        let _ = std::fs::remove_dir_all(&dir);
        return;
    }
    let Some(input) = get_hex("input_hex") else { return };
    let ord = get_hex("ordering_hex");
    with_stderr_gagged(|| check_bytes(st, &input, ord.as_deref(), "replay"));
}
