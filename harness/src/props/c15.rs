//! C15 — n_queens_gen emits a formula whose models are exactly the n-queens solutions.
//!
//! Monitor: offline checker over the real generator's output: reference parse, independent model
//! enumeration (solve3) vs an independent backtracking enumerator (exact set equality), `rsbdd`
//! cross-check for small n, attack-pair / placement probes for large n.

use crate::cli;
use crate::puzzles;
use crate::refsyn;
use crate::report::{Ctx, Spec, Stats};
use crate::solve3::{self, Problem};
use crate::util::{self, mix, Rng};
use serde_json::{json, Value};
use std::collections::BTreeSet;
use std::time::Duration;

fn generate(ctx: &Ctx, n: usize, via_file: bool, tag: &str) -> Result<String, String> {
    let dir = ctx.fresh_dir(&format!("c15-{}", tag));
    let _ = std::fs::create_dir_all(&dir);
    // every accepted spelling of the option
    let mut args: Vec<String> = match (n + via_file as usize) % 5 {
        0 => vec![format!("-n{}", n)],
        1 => vec![format!("-n={}", n)],
        2 => vec![format!("--queens={}", n)],
        3 => vec!["--queens".to_string(), n.to_string()],
        _ => vec!["-n".to_string(), n.to_string()],
    };
    let file = super::common::spelled_output(&dir, n, &super::common::hostile_file_name(n, "queens.txt"));
    if via_file {
        // the output file already exists and is longer than what will be written
        let _ = std::fs::write(&file, super::common::stale_content());
        args.push(file.display().to_string());
    }
    // the formula printed to a TERMINAL (every third size) instead of a pipe
    let feed = cli::Feed { stdout_tty: !via_file && n % 3 == 1, ..Default::default() };
    let out = cli::run_fed(&ctx.bin("n_queens_gen"), &args, None, &feed, Some(&dir), None, Duration::from_secs(120));
    let res = if out.timed_out {
        Err("watchdog".to_string())
    } else if !out.ok() {
        Err(format!("n_queens_gen -n {} failed: {} {}", n, out.status_string(), out.stderr_str().lines().take(4).collect::<Vec<_>>().join(" | ")))
    } else if via_file {
        std::fs::read_to_string(&file).map_err(|e| format!("output file not written: {}", e))
    } else {
        Ok(out.stdout_str())
    };
    let _ = std::fs::remove_dir_all(&dir);
    res
}

/// OUTPUT is a file whose NAME is not valid UTF-8 (legal on this platform): the formula must be
/// in that file and nothing on stdout. Ok((file content, stdout)).
fn generate_to_non_utf8_name(ctx: &Ctx, n: usize) -> Result<(String, String), String> {
    use std::ffi::OsString;
    use std::os::unix::ffi::OsStrExt;
    let dir = ctx.fresh_dir(&format!("c15-nonutf8-{}", n));
    let _ = std::fs::create_dir_all(&dir);
    let file = dir.join(std::ffi::OsStr::from_bytes(b"reines_\xE9 \xFF.txt"));
    let args: Vec<OsString> = vec!["-n".into(), n.to_string().into(), file.clone().into_os_string()];
    let out = cli::run(&ctx.bin("n_queens_gen"), &args, None, Some(&dir), None, Duration::from_secs(120));
    let res = if out.timed_out {
        Err("watchdog".to_string())
    } else if !out.ok() {
        Err(format!("n_queens_gen -n {} <file with a non-UTF-8 name> failed: {} {}", n, out.status_string(), out.stderr_str().lines().take(4).collect::<Vec<_>>().join(" | ")))
    } else {
        Ok((std::fs::read_to_string(&file).unwrap_or_default(), out.stdout_str()))
    };
    let _ = std::fs::remove_dir_all(&dir);
    res
}

fn generate_to_dev_stdout(ctx: &Ctx, n: usize) -> Result<String, String> {
    let args = vec!["-n".to_string(), n.to_string(), "/dev/stdout".to_string()];
    let out = cli::run(&ctx.bin("n_queens_gen"), &args, None, None, None, Duration::from_secs(120));
    if out.timed_out {
        Err("watchdog".to_string())
    } else if !out.ok() {
        Err(format!("n_queens_gen -n {} /dev/stdout failed: {} {}", n, out.status_string(), out.stderr_str().lines().take(4).collect::<Vec<_>>().join(" | ")))
    } else {
        Ok(out.stdout_str())
    }
}

/// OUTPUT is the file an EARLIER run of the generator wrote for another board size (sizes whose
/// decimals are prefixes of one another included): after the last run the file holds the formula
/// of the last size — the same formula as that size gives on stdout.
fn rerun_job(ctx: &Ctx, st: &mut Stats) {
    let sequences: [&[usize]; 12] = [&[12, 1], &[10, 1], &[1, 12], &[40, 4], &[4, 40], &[25, 2], &[5, 5], &[100, 10], &[8, 4], &[31, 3], &[6, 64, 6], &[11, 1, 11]];
    for (si, seq) in sequences.iter().enumerate() {
        let dir = ctx.fresh_dir(&format!("c15-rerun-{}", si));
        let _ = std::fs::create_dir_all(&dir);
        let file = super::common::spelled_output(&dir, si + 2, &super::common::hostile_file_name(si, "board.txt"));
        let case = || json!({"kind": "rerun", "sequence": seq});
        st.evals += 1;
        let mut failed = false;
        for n in seq.iter() {
            let args = vec!["-n".to_string(), n.to_string(), file.display().to_string()];
            let out = cli::run(&ctx.bin("n_queens_gen"), &args, None, Some(&dir), None, Duration::from_secs(120));
            if out.timed_out {
                st.bump("watchdog(inconclusive case)");
                failed = true;
                break;
            }
            if !out.ok() {
                st.violate("c15.run", "C15:rerun:generator-failed".into(), format!("n_queens_gen -n {} OUTPUT (OUTPUT left by earlier runs of the sequence {:?}) failed: {} {}", n, seq, out.status_string(), out.stderr_str().lines().take(3).collect::<Vec<_>>().join(" | ")), case());
                failed = true;
                break;
            }
        }
        if !failed {
            let last = *seq.last().unwrap();
            let held = std::fs::read_to_string(&file).unwrap_or_default();
            match generate(ctx, last, false, &format!("rerun-ref-{}", si)) {
                Ok(want) => {
                    if held == want || matches!((refsyn::parse_text(&held), refsyn::parse_text(&want)), (Ok(x), Ok(y)) if x == y) {
                        st.bump("outputs_onto_a_file_left_by_an_earlier_run");
                        st.nt.insert(mix(0x15_4e, si as u64));
                    } else {
                        st.violate("c15.run", "C15:rerun:file-holds-another-formula".into(), format!("runs for the sizes {:?} onto ONE output file: afterwards the file holds {} bytes (first line {:?}), which is not the formula of n = {} ({} bytes on stdout)", seq, held.len(), held.lines().next().unwrap_or(""), last, want.len()), case());
                    }
                }
                Err(_) => st.bump("watchdog(inconclusive case)"),
            }
        }
        let _ = std::fs::remove_dir_all(&dir);
    }
}

/// WITHOUT -n the board size is the documented default (4) — also when OUTPUT is a file whose name
/// consists of digits: the formula of the 4-queens problem is written to that file, nothing to stdout.
fn default_size_job(ctx: &Ctx, st: &mut Stats) {
    let want = match generate(ctx, 4, false, "default-ref") {
        Ok(t) => t,
        Err(_) => return,
    };
    let same = |a: &str, b: &str| a == b || matches!((refsyn::parse_text(a), refsyn::parse_text(b)), (Ok(x), Ok(y)) if x == y);
    for (i, out_name) in [None, Some("6"), Some("12"), Some("2024"), Some("0"), Some("65536"), Some("out.txt"), Some("8x8")].iter().enumerate() {
        let dir = ctx.fresh_dir(&format!("c15-default-{}", i));
        let _ = std::fs::create_dir_all(&dir);
        let args: Vec<String> = out_name.iter().map(|s| s.to_string()).collect();
        st.evals += 1;
        let out = cli::run(&ctx.bin("n_queens_gen"), &args, None, Some(&dir), None, Duration::from_secs(60));
        let case = || json!({"kind": "default-size", "output": out_name});
        if out.timed_out {
            st.bump("watchdog(inconclusive case)");
        } else if !out.ok() {
            st.violate("c15.run", "C15:default-size:generator-failed".into(), format!("n_queens_gen {:?} (no -n) failed: {}", args, out.status_string()), case());
        } else {
            let (held, so) = match out_name {
                Some(n) => (std::fs::read_to_string(dir.join(n)).unwrap_or_default(), out.stdout_str()),
                None => (out.stdout_str(), String::new()),
            };
            if !same(&held, &want) || (out_name.is_some() && refsyn::parse_text(so.trim()).is_ok() && !so.trim().is_empty()) {
                st.violate("c15.run", "C15:default-size:another-formula".into(), format!("n_queens_gen {:?} (no -n: the default size is 4): {} holds {} bytes (first line {:?}), stdout {} bytes; the 4-queens formula has {} bytes", args, out_name.map(|n| format!("the file `{}`", n)).unwrap_or("stdout".into()), held.len(), held.lines().next().unwrap_or(""), so.len(), want.len()), case());
            } else {
                st.bump("runs_without_a_size_option");
            }
        }
        let _ = std::fs::remove_dir_all(&dir);
    }
}

fn var_index(p: &Problem, k: usize) -> Option<usize> {
    p.index.get(&format!("v_{}", k)).copied()
}

pub fn check_n(ctx: &Ctx, st: &mut Stats, n: usize, exact: bool, with_rsbdd: bool, seed: u64, probes: u64) {
    st.evals += 1;
    st.bump("board_sizes");
    let case = || json!({"n": n, "exact": exact, "with_rsbdd": with_rsbdd, "probes": probes});
    let text = match generate(ctx, n, false, &format!("{}-a", n)) {
        Ok(t) => t,
        Err(e) if e == "watchdog" => {
            st.inconclusive(format!("n_queens_gen -n {} hit the watchdog", n));
            return;
        }
        Err(e) => {
            st.violate("c15.run", format!("C15:generator-failed:n={}", n), e, case());
            return;
        }
    };
    if n <= 64 {
        // OUTPUT may also name the process's own standard output
        match generate_to_dev_stdout(ctx, n) {
            Ok(t3) if t3 == text => st.bump("dev_stdout_output_equals_stdout"),
            Ok(t3) if matches!((refsyn::parse_text(&t3), refsyn::parse_text(&text)), (Ok(x), Ok(y)) if x == y) => st.bump("dev_stdout_output_is_the_same_formula_as_stdout"),
            Ok(t3) => st.violate("c15.run", format!("C15:dev-stdout-output-differs:n={}", n), format!("n = {}: `n_queens_gen -n {} /dev/stdout` writes something else than without OUTPUT: {} vs {} bytes; tail: {:?}", n, n, t3.len(), text.len(), t3.chars().rev().take(80).collect::<String>().chars().rev().collect::<String>()), case()),
            Err(e) if e == "watchdog" => st.bump("watchdog(inconclusive case)"),
            Err(e) => st.violate("c15.run", format!("C15:generator-failed:n={}", n), e, case()),
        }
        match generate_to_non_utf8_name(ctx, n) {
            Ok((t4, so)) => {
                if !matches!((refsyn::parse_text(&t4), refsyn::parse_text(&text)), (Ok(x), Ok(y)) if x == y) || refsyn::parse_text(so.trim()).is_ok() && !so.trim().is_empty() {
                    st.violate("c15.run", format!("C15:non-utf8-output-name:n={}", n), format!("n = {}: OUTPUT with a file name that is not valid UTF-8: the file holds {} bytes (stdout without OUTPUT: {}), stdout holds {} bytes", n, t4.len(), text.len(), so.len()), case());
                } else {
                    st.bump("output_file_with_a_non_utf8_name");
                }
            }
            Err(e) if e == "watchdog" => st.bump("watchdog(inconclusive case)"),
            Err(e) => st.violate("c15.run", format!("C15:generator-failed:n={}", n), e, case()),
        }
        match generate(ctx, n, true, &format!("{}-b", n)) {
            Ok(t2) if t2 == text => st.bump("file_output_equals_stdout"),
            // (comments may differ — a header may name the output; what counts is the formula)
            Ok(t2) if matches!((refsyn::parse_text(&t2), refsyn::parse_text(&text)), (Ok(x), Ok(y)) if x == y) => st.bump("file_output_is_the_same_formula_as_stdout"),
            Ok(t2) => st.violate("c15.run", format!("C15:file-output-differs:n={}", n), format!("n = {}: output written to an (already existing, longer) file differs from stdout: {} vs {} bytes; tail of the file: {:?}", n, t2.len(), text.len(), t2.chars().rev().take(60).collect::<String>().chars().rev().collect::<String>()), case()),
            Err(e) if e == "watchdog" => st.inconclusive(format!("n_queens_gen -n {} (file output) hit the watchdog or could not be started", n)),
            Err(e) => st.violate("c15.run", format!("C15:generator-failed:n={}", n), e, case()),
        }
    }
    let ast = match refsyn::parse_text(&text) {
        Ok(a) => a,
        Err(e) => {
            st.violate("c15.well-formed", format!("C15:not-a-formula:n={}", n), format!("n = {}: the output is not a sentence of the grammar: {:?}", n, e), case());
            return;
        }
    };
    let p = match solve3::compile(&ast) {
        Ok(p) => p,
        Err(e) => {
            st.violate("c15.well-formed", format!("C15:unexpected-construct:n={}", n), format!("n = {}: {}", n, e), case());
            return;
        }
    };
    // exactly the variables v_0 .. v_(n*n-1)
    let want_names: BTreeSet<String> = (0..n * n).map(|k| format!("v_{}", k)).collect();
    let have_names: BTreeSet<String> = p.names.iter().cloned().collect();
    if want_names != have_names {
        let extra: Vec<&String> = have_names.difference(&want_names).take(5).collect();
        let missing: Vec<&String> = want_names.difference(&have_names).take(5).collect();
        st.violate(
            "c15.variables",
            format!("C15:wrong-variable-set:n={}", n),
            format!("n = {}: the formula mentions {} variables, expected v_0..v_{}; unexpected e.g. {:?}, missing e.g. {:?}", n, have_names.len(), n * n - 1, extra, missing),
            case(),
        );
        return;
    }
    st.add("variables_checked", (n * n) as u64);
    st.add("conjuncts_compiled", p.conjuncts.len() as u64);
    if exact {
        let reference: BTreeSet<Vec<usize>> = puzzles::queens_all(n).into_iter().map(|cols| cols.iter().enumerate().map(|(r, c)| r * n + c).collect()).collect();
        match solve3::Search::new(&p, 200_000, 50_000_000).run() {
            Err(_) => st.inconclusive(format!("model enumeration gave up for n = {}", n)),
            Ok((models, nodes)) => {
                st.add("search_nodes", nodes);
                let mut got: BTreeSet<Vec<usize>> = BTreeSet::new();
                for m in &models {
                    if m.iter().any(|x| x.is_none()) {
                        st.violate("c15.models", format!("C15:unconstrained-variable:n={}", n), format!("n = {}: a model leaves a variable unconstrained", n), case());
                        return;
                    }
                    let mut on: Vec<usize> = (0..n * n).filter(|k| m[var_index(&p, *k).unwrap()] == Some(true)).collect();
                    on.sort();
                    got.insert(on);
                }
                if got != reference {
                    let extra: Vec<&Vec<usize>> = got.difference(&reference).take(2).collect();
                    let missing: Vec<&Vec<usize>> = reference.difference(&got).take(2).collect();
                    st.violate(
                        "c15.models",
                        format!("C15:model-set-differs:n={}", n),
                        format!("n = {}: the formula has {} models, there are {} placements; models that are no placement: {:?}; placements that are no model: {:?}", n, got.len(), reference.len(), extra, missing),
                        case(),
                    );
                    return;
                }
                st.add("models_compared_exactly", got.len() as u64);
                st.bump("exact_sizes");
                st.nt.insert(n as u64);
                if st.want_sample() {
                    st.sample(json!({"n": n, "models": got.len(), "first_model_squares": got.iter().next(), "search_nodes": nodes}));
                }
            }
        }
    }
    if with_rsbdd {
        // "solving it with rsbdd lists those placements"
        let dir = ctx.fresh_dir(&format!("c15-rs-{}", n));
        let _ = std::fs::create_dir_all(&dir);
        let f = dir.join("q.txt");
        let _ = std::fs::write(&f, &text);
        let out = cli::run(&ctx.bin("rsbdd"), &[f.display().to_string(), "-t".into(), "-ft".into()], None, Some(&dir), Some((2_000_000_000, 1000)), Duration::from_secs(300));
        let _ = std::fs::remove_dir_all(&dir);
        if out.timed_out || out.budget_exceeded() {
            st.bump("rsbdd_cross_check_out_of_budget");
        } else if !out.ok() {
            st.violate("c15.rsbdd", format!("C15:rsbdd-failed:n={}", n), format!("rsbdd on the generated {}-queens formula: {} {}", n, out.status_string(), out.stderr_str().lines().last().unwrap_or("")), case());
        } else {
            let so = out.stdout_str();
            let lines: Vec<&str> = so.lines().collect();
            match cli::parse_table(&lines) {
                Err(e) => st.violate("c15.rsbdd", format!("C15:rsbdd-table:n={}", n), e, case()),
                Ok((table, _)) => {
                    let mut got: BTreeSet<Vec<usize>> = BTreeSet::new();
                    let mut bad = false;
                    for (cells, res) in &table.rows {
                        if !*res || cells.iter().any(|c| *c == cli::Cell::Any) {
                            bad = true;
                        }
                        let mut on: Vec<usize> = Vec::new();
                        for (h, c) in table.header.iter().zip(cells.iter()) {
                            if *c == cli::Cell::True {
                                if let Some(k) = h.strip_prefix("v_").and_then(|x| x.parse::<usize>().ok()) {
                                    on.push(k);
                                }
                            }
                        }
                        on.sort();
                        got.insert(on);
                    }
                    let reference: BTreeSet<Vec<usize>> = puzzles::queens_all(n).into_iter().map(|cols| cols.iter().enumerate().map(|(r, c)| r * n + c).collect()).collect();
                    if bad || got != reference {
                        st.violate("c15.rsbdd", format!("C15:rsbdd-lists-other-placements:n={}", n), format!("n = {}: rsbdd -t -ft lists {} rows; there are {} placements", n, table.rows.len(), reference.len()), case());
                    } else {
                        st.bump("rsbdd_cross_checks");
                    }
                }
            }
        }
    }
    if probes > 0 {
        let mut rng = Rng::stream(seed, "C15.probes", n as u64);
        let cells = n * n;
        let vi: Vec<usize> = (0..cells).map(|k| var_index(&p, k).unwrap()).collect();
        // soundness: two queens on attacking squares are definitely excluded; non-attacking pairs are not
        let all_pairs = cells * (cells - 1) / 2 <= probes as usize * 4;
        let mut pair = |a: usize, b: usize, st: &mut Stats| -> bool {
            let v = solve3::probe(&p, &[(vi[a], true), (vi[b], true)], false);
            if puzzles::attacks(n, a, b) {
                st.bump("attacking_pairs_probed");
                if v != Some(false) {
                    st.violate("c15.probe", format!("C15:attacking-pair-allowed:n={}", n), format!("n = {}: queens on squares {} and {} attack each other but no constraint excludes the pair", n, a, b), json!({"n": n, "probes": probes}));
                    return false;
                }
            } else {
                st.bump("non_attacking_pairs_probed");
                if v == Some(false) {
                    st.violate("c15.probe", format!("C15:non-attacking-pair-excluded:n={}", n), format!("n = {}: squares {} and {} do not attack each other but a constraint excludes the pair", n, a, b), json!({"n": n, "probes": probes}));
                    return false;
                }
            }
            true
        };
        if all_pairs {
            'o: for a in 0..cells {
                for b in (a + 1)..cells {
                    if !pair(a, b, st) {
                        break 'o;
                    }
                }
            }
            st.bump("sizes_with_all_pairs_probed");
        } else {
            for _ in 0..probes {
                let a = rng.usize(cells);
                // bias towards attacking pairs: same row / column / diagonal half of the time
                let b = if rng.chance(1, 2) {
                    let (r, c) = (a / n, a % n);
                    let d = 1 + rng.usize(n - 1);
                    let cand = [(r, (c + d) % n), ((r + d) % n, c), (r + d, c + d), (r + d, c.wrapping_sub(d))];
                    let (rr, cc) = cand[rng.usize(4)];
                    if rr < n && cc < n {
                        rr * n + cc
                    } else {
                        rng.usize(cells)
                    }
                } else {
                    rng.usize(cells)
                };
                if a != b && !pair(a.min(b), a.max(b), st) {
                    break;
                }
            }
        }
        // an empty row / column is definitely excluded
        for k in 0..n.min(40) {
            let r = if n <= 40 { k } else { rng.usize(n) };
            let row: Vec<(usize, bool)> = (0..n).map(|c| (vi[r * n + c], false)).collect();
            let col: Vec<(usize, bool)> = (0..n).map(|rr| (vi[rr * n + r], false)).collect();
            st.bump("empty_lines_probed");
            if solve3::probe(&p, &row, false) != Some(false) || solve3::probe(&p, &col, false) != Some(false) {
                st.violate("c15.probe", format!("C15:empty-line-allowed:n={}", n), format!("n = {}: row or column {} without a queen is not excluded", n, r), case());
                break;
            }
        }
        // completeness: a constructed placement satisfies; near-misses falsify
        if let Some(cols) = puzzles::queens_construct(n) {
            let mut asg = vec![false; p.names.len()];
            for (r, c) in cols.iter().enumerate() {
                asg[vi[r * n + c]] = true;
            }
            st.bump("constructed_placements_probed");
            if !solve3::eval_total(&p, &asg) {
                st.violate("c15.probe", format!("C15:placement-rejected:n={}", n), format!("n = {}: a valid placement {:?}... falsifies the formula", n, &cols[..cols.len().min(12)]), case());
            }
            for _ in 0..6 {
                let r = rng.usize(n);
                let c2 = (cols[r] + 1 + rng.usize(n - 1)) % n;
                let mut a2 = asg.clone();
                a2[vi[r * n + cols[r]]] = false;
                a2[vi[r * n + c2]] = true;
                st.bump("near_misses_probed");
                if solve3::eval_total(&p, &a2) {
                    st.violate("c15.probe", format!("C15:near-miss-accepted:n={}", n), format!("n = {}: moving the queen of row {} to column {} still satisfies the formula", n, r, c2), case());
                }
            }
        }
        st.nt.insert(1_000_000 + n as u64);
    }
}

/// Board sizes whose complete formula cannot be held (n up to 65535, the largest value the option
/// accepts: ~300 GB): the generator streams, so the first `limit` bytes are read and the process
/// is stopped. Every COMPLETE clause of that prefix must be implied by the rules on its own:
/// `[..] <= 1` over distinct squares of one row / column / diagonal, `[..] = 1` over exactly one
/// complete row or column, no square index beyond n^2 - 1. Anything else in the prefix (another
/// encoding) is not judged.
fn check_prefix(ctx: &Ctx, st: &mut Stats, n: usize, limit: usize) {
    use std::io::Read;
    use std::process::{Command, Stdio};
    st.evals += 1;
    st.bump("huge_board_sizes_checked_by_prefix");
    let case = || json!({"kind": "prefix", "n": n, "limit": limit});
    let mut child = match Command::new(ctx.bin("n_queens_gen")).args(["-n", &n.to_string()]).stdin(Stdio::null()).stdout(Stdio::piped()).stderr(Stdio::piped()).spawn() {
        Ok(c) => c,
        Err(e) => {
            st.inconclusive(format!("cannot start n_queens_gen: {}", e));
            return;
        }
    };
    let mut buf = vec![0u8; limit];
    let mut got = 0usize;
    if let Some(mut so) = child.stdout.take() {
        while got < limit {
            match so.read(&mut buf[got..]) {
                Ok(0) | Err(_) => break,
                Ok(k) => got += k,
            }
        }
    }
    let _ = child.kill();
    let status = child.wait();
    buf.truncate(got);
    if got < limit {
        // the generator stopped by itself before the limit: it must not have failed
        if let Ok(s) = status {
            if !s.success() {
                let mut err = String::new();
                if let Some(mut se) = child.stderr.take() {
                    let _ = se.read_to_string(&mut err);
                }
                st.violate("c15.run", format!("C15:generator-failed:n={}", n), format!("n_queens_gen -n {} stopped after {} bytes: {} {}", n, got, s, err.lines().take(3).collect::<Vec<_>>().join(" | ")), case());
                return;
            }
        }
    }
    let text = String::from_utf8_lossy(&buf).to_string();
    // cut after the last complete clause
    let Some(cut) = text.rfind("&\n") else {
        st.bump("prefix_without_a_complete_clause(not judged)");
        return;
    };
    let body = format!("{} true", &text[..cut + 1]);
    let Ok(ast) = refsyn::parse_text(&body) else {
        st.bump("prefix_not_a_conjunction_of_clauses(not judged)");
        return;
    };
    let mut clauses: Vec<&refsyn::Ast> = Vec::new();
    let mut cur = &ast;
    loop {
        match cur {
            refsyn::Ast::Bin(refsyn::Op::And, l, r) => {
                // right-nested or left-nested: collect the non-And side
                if matches!(l.as_ref(), refsyn::Ast::Bin(refsyn::Op::And, ..)) {
                    clauses.push(r);
                    cur = l;
                } else {
                    clauses.push(l);
                    cur = r;
                }
            }
            other => {
                clauses.push(other);
                break;
            }
        }
    }
    let mut seen: std::collections::HashSet<Vec<usize>> = std::collections::HashSet::new();
    let mut judged = 0u64;
    for c in clauses {
        let (cmp, items) = match c {
            refsyn::Ast::True => continue,
            refsyn::Ast::CountConst(cmp, items, 1) => (*cmp, items),
            _ => {
                st.bump("prefix_clause_of_another_shape(not judged)");
                continue;
            }
        };
        let mut sq: Vec<usize> = Vec::with_capacity(items.len());
        let mut ok_names = true;
        for it in items {
            match it {
                refsyn::Ast::Var(v) => match v.strip_prefix("v_").and_then(|x| x.parse::<usize>().ok()) {
                    Some(k) => sq.push(k),
                    None => ok_names = false,
                },
                _ => ok_names = false,
            }
        }
        if !ok_names {
            st.bump("prefix_clause_of_another_shape(not judged)");
            continue;
        }
        judged += 1;
        let show: Vec<usize> = sq.iter().take(6).cloned().collect();
        if let Some(k) = sq.iter().find(|k| **k >= n * n) {
            st.violate("c15.prefix", format!("C15:square-out-of-range:n={}", n), format!("n = {}: a clause mentions v_{} (the board has squares 0..{}); clause starts {:?}", n, k, n * n - 1, show), case());
            return;
        }
        let mut sorted = sq.clone();
        sorted.sort();
        if sorted.windows(2).any(|w| w[0] == w[1]) {
            st.violate("c15.prefix", format!("C15:square-repeated-in-a-clause:n={}", n), format!("n = {}: a clause of {} entries repeats a square (a repeated entry counts twice: the square can never hold a queen); clause starts {:?}", n, sq.len(), show), case());
            return;
        }
        let (r0, c0) = (sq[0] / n, sq[0] % n);
        let same_row = sq.iter().all(|k| k / n == r0);
        let same_col = sq.iter().all(|k| k % n == c0);
        let same_d1 = sq.iter().all(|k| (k / n) as i64 - (k % n) as i64 == r0 as i64 - c0 as i64);
        let same_d2 = sq.iter().all(|k| k / n + k % n == r0 + c0);
        let fine = match cmp {
            refsyn::Cmp::AtMost => same_row || same_col || same_d1 || same_d2,
            refsyn::Cmp::Exactly => (same_row || same_col) && sq.len() == n,
            _ => {
                st.bump("prefix_clause_of_another_shape(not judged)");
                continue;
            }
        };
        if !fine {
            st.violate("c15.prefix", format!("C15:clause-not-implied-by-the-rules:n={}", n), format!("n = {}: clause {:?} over {} squares starting {:?} is neither an at-most-one over squares of one line nor an exactly-one over a complete row / column", n, cmp, sq.len(), show), case());
            return;
        }
        if !seen.insert(sorted) {
            st.bump("prefix_clause_emitted_twice(statistic)");
        }
    }
    st.add("prefix_clauses_judged", judged);
    if judged > 0 {
        st.nt.insert(2_000_000 + n as u64);
    }
}

pub fn run(ctx: &Ctx) -> (Stats, Spec) {
    let exact_max = ctx.tier.pick(10usize, 12usize);
    let rsbdd_max = ctx.tier.pick(6usize, 7usize);
    let mut sizes: Vec<(usize, bool, bool, u64)> = (1..=exact_max).map(|n| (n, true, n <= rsbdd_max, if n >= 4 { 2_000 } else { 0 })).collect();
    let large: Vec<usize> = ctx.tier.pick(vec![10, 11, 12, 13, 16, 24, 31, 64, 100, 255, 256, 257, 316, 317, 320, 1025], vec![12, 13, 14, 15, 16, 24, 32, 33, 64, 100, 128, 200, 255, 256, 257, 300, 316, 317, 400, 999, 1000, 1001, 1024, 1025, 1026, 2049]);
    let probes = ctx.tier.pick(20_000u64, 400_000u64);
    for n in large {
        // a size that is already compared exactly only gets the larger probe budget (one job per size)
        if let Some(e) = sizes.iter_mut().find(|s| s.0 == n) {
            e.3 = e.3.max(probes);
        } else {
            sizes.push((n, false, false, probes));
        }
    }
    let parts = util::par_jobs(sizes.len(), |j| {
        let mut st = Stats::new();
        let (n, exact, rs, pr) = sizes[j];
        check_n(ctx, &mut st, n, exact, rs, ctx.seed, pr);
        st
    });
    let mut st = crate::report::merge_all(parts);
    // the corner values of the size option (u16) and sizes whose square count passes 2^31 / 2^32
    let huge: Vec<usize> = ctx.tier.pick(vec![32_768, 46_341, 65_534, 65_535], vec![4_097, 32_767, 32_768, 46_340, 46_341, 50_000, 65_534, 65_535]);
    let limit = ctx.tier.pick(6usize << 20, 48usize << 20);
    let parts = util::par_jobs(huge.len(), |j| {
        let mut s = Stats::new();
        check_prefix(ctx, &mut s, huge[j], limit);
        s
    });
    st.merge(crate::report::merge_all(parts));
    rerun_job(ctx, &mut st);
    default_size_job(ctx, &mut st);
    // a full output device: no formula can be stored, so the generator must not report success
    if std::path::Path::new("/dev/full").exists() {
        for n in ["1", "4", "6", "30"] {
            for to_stdout in [false, true] {
                st.evals += 1;
                let args: Vec<&str> = if to_stdout { vec!["-n", n] } else { vec!["-n", n, "/dev/full"] };
                match super::common::fails_on_full_device(ctx, "n_queens_gen", &args, None, to_stdout) {
                    Some(true) => st.bump("full_device_reported"),
                    Some(false) => st.violate("c15.run", "C15:success-although-nothing-could-be-written".into(), format!("n_queens_gen -n {} with the output on a full device ({}) exits 0 although no formula could be stored", n, if to_stdout { "stdout" } else { "OUTPUT = /dev/full" }), json!({"kind": "full-device", "n": n})),
                    None => st.bump("watchdog(inconclusive case)"),
                }
            }
        }
    }
    st.exhaustive.push(format!("exact model-set equality for every board size n = 1..{}", exact_max));
    let spec = Spec {
        rule: "every board size n = 1..10 [quick] / 1..12 [thorough]: the real generator's output (stdout, a file that already exists with longer content, and — twelve sequences of sizes, e.g. 12 then 1, 40 then 4, 6 then 64 then 6 — the file an earlier run wrote for another size) is parsed by the reference grammar, its variable set must be v_0..v_(n^2-1), and ALL its models (three-valued propagation search) are compared as a set with an independent backtracking enumeration; rsbdd -t -ft cross-check for n <= 6 / 7; larger n incl. 255, 256, 257 (16-bit boundary), 316, 317 (six-digit indices), 1025 (lists of more than 1024 entries), thorough also 999-1001 (seven digits), 1024-1026, 2049: variable set, attacking and non-attacking square pairs (all pairs when feasible, else sampled with a bias to shared lines), empty rows/columns, a constructed placement and near-misses; HUGE sizes up to 65535 (the largest value the option accepts; also 32768, 46341 where the square count passes 2^30 / 2^31): the first 6 MiB [quick] / 48 MiB [thorough] of the streamed output are read and every complete clause must be implied by the rules on its own (distinct squares of one line for <= 1, a complete row / column for = 1, indices below n^2). distinct = board size (exact) / board size (probed); every board size is a configuration.".into(),
        assumptions: vec![
            "v_k is read as 'a queen on row k div n, column k mod n'".into(),
            "for n beyond the enumerable bound the model set is only probed, not compared".into(),
        ],
        floors: vec![
            ("exact_sizes".into(), 8, "exact comparison missing for some n".into()),
            ("rsbdd_cross_checks".into(), 3, "rsbdd cross-check missing".into()),
            ("attacking_pairs_probed".into(), 10_000, "too few attacking pairs probed".into()),
            ("constructed_placements_probed".into(), 5, "no placements probed".into()),
            ("prefix_clauses_judged".into(), 10, "huge board sizes not exercised".into()),
            ("outputs_onto_a_file_left_by_an_earlier_run".into(), 8, "output files left by earlier runs not exercised".into()),
        ],
    };
    (st, spec)
}

pub fn replay(ctx: &Ctx, _monitor: &str, case: &Value, st: &mut Stats) {
    let n = case.get("n").and_then(|n| n.as_u64()).unwrap_or(4) as usize;
    if case.get("kind").and_then(|k| k.as_str()) == Some("prefix") {
        check_prefix(ctx, st, n, case.get("limit").and_then(|l| l.as_u64()).unwrap_or(6 << 20) as usize);
        return;
    }
    let exact = case.get("exact").and_then(|b| b.as_bool()).unwrap_or(n <= 8);
    let rs = case.get("with_rsbdd").and_then(|b| b.as_bool()).unwrap_or(false);
    let probes = case.get("probes").and_then(|p| p.as_u64()).unwrap_or(if n >= 4 { 5_000 } else { 0 });
    check_n(ctx, st, n, exact, rs, ctx.seed, probes);
}
