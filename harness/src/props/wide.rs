//! The library monitors over MANY variables (65-300 labels — more than a machine word of them),
//! where truth tables are out of reach: operands are random DNFs, the oracle evaluates the DNFs and
//! the engine's diagrams pointwise on sampled assignments (biased so that both outcomes occur) and
//! walks every result (ordered + reduced). Used by C02, C03, C04, C05, C07 and C20.

use crate::conv::{check_ordered_reduced, labels_of, short};
use crate::report::{Ctx, Stats};
use crate::util::{self, guarded, mix, Rng};
use rsbdd::bdd::{BDDEnv, BDD};
use rsbdd::TruthTableEntry;
use serde_json::json;
use std::collections::HashMap;
use std::rc::Rc;

type D = Rc<BDD<usize>>;
/// disjunction of cubes; a cube is a list of (variable index, polarity); indices into `labels`
type Dnf = Vec<Vec<(usize, bool)>>;

struct World {
    labels: Vec<usize>,
    index: HashMap<usize, usize>,
}

impl World {
    fn new(rng: &mut Rng) -> World {
        let n = *rng.pick(&[65usize, 66, 70, 96, 128, 129, 200, 255, 256, 257, 300]);
        let stride = 1 + rng.usize(3);
        let mut labels: Vec<usize> = (0..n).map(|i| i * stride + rng.usize(stride)).collect();
        labels.sort();
        labels.dedup();
        if rng.chance(1, 3) {
            labels.push(usize::MAX);
        }
        let index = labels.iter().enumerate().map(|(i, l)| (*l, i)).collect();
        World { labels, index }
    }
    fn n(&self) -> usize {
        self.labels.len()
    }
    fn random_dnf(&self, rng: &mut Rng) -> Dnf {
        let cubes = 1 + rng.usize(4);
        (0..cubes)
            .map(|_| {
                let mut cube: Vec<(usize, bool)> = Vec::new();
                for _ in 0..(1 + rng.usize(5)) {
                    let v = if rng.chance(1, 2) { rng.usize(self.n()) } else { self.n() - 1 - rng.usize(self.n().min(12)) };
                    if !cube.iter().any(|(x, _)| *x == v) {
                        cube.push((v, rng.chance(1, 2)));
                    }
                }
                cube
            })
            .collect()
    }
    fn build(&self, env: &BDDEnv<usize>, f: &Dnf) -> D {
        let mut acc = env.mk_const(false);
        for cube in f {
            let mut c = env.mk_const(true);
            for (v, pos) in cube {
                let lit = if *pos { env.var(self.labels[*v]) } else { env.not(env.var(self.labels[*v])) };
                c = env.and(c, lit);
            }
            acc = env.or(acc, c);
        }
        acc
    }
    fn eval_dnf(f: &Dnf, a: &[bool]) -> bool {
        f.iter().any(|cube| cube.iter().all(|(v, pos)| a[*v] == *pos))
    }
    /// None = the diagram tests a label that is not in the world
    fn eval_bdd(&self, d: &D, a: &[bool]) -> Option<bool> {
        let mut cur = d;
        loop {
            match cur.as_ref() {
                BDD::True => return Some(true),
                BDD::False => return Some(false),
                BDD::Choice(t, s, f) => {
                    let i = *self.index.get(s)?;
                    cur = if a[i] { t } else { f };
                }
            }
        }
    }
    /// assignments biased towards the cubes of the given functions
    fn samples(&self, rng: &mut Rng, fs: &[&Dnf], count: usize) -> Vec<Vec<bool>> {
        let mut out = Vec::with_capacity(count);
        for k in 0..count {
            let dens = [1u64, 5, 9][k % 3];
            let mut a: Vec<bool> = (0..self.n()).map(|_| rng.chance(dens, 10)).collect();
            if k % 4 != 3 && !fs.is_empty() {
                // force one (sometimes two) cubes; flip one of their literals every third time
                for _ in 0..(1 + (k % 2)) {
                    let f = *rng.pick(fs);
                    if f.is_empty() {
                        continue;
                    }
                    let cube = rng.pick(f);
                    for (v, pos) in cube {
                        a[*v] = *pos;
                    }
                    if k % 3 == 0 && !cube.is_empty() {
                        let (v, _) = rng.pick(cube);
                        a[*v] = !a[*v];
                    }
                }
            }
            out.push(a);
        }
        out
    }
}

fn show(w: &World, f: &Dnf) -> String {
    f.iter().map(|c| c.iter().map(|(v, p)| format!("{}{}", if *p { "" } else { "-" }, w.labels[*v])).collect::<Vec<_>>().join("&")).collect::<Vec<_>>().join(" | ")
}

const SAMPLES: usize = 48;

/// which: "C02" | "C03" | "C04" | "C05" | "C07" | "C20"
pub fn wide_job(ctx: &Ctx, which: &str, job: usize, iters: u64) -> Stats {
    let mut st = Stats::new();
    let mut rng = Rng::stream(ctx.seed, &format!("{}.wide", which), job as u64);
    let mut world = World::new(&mut rng);
    let mut env: BDDEnv<usize> = BDDEnv::new();
    for it in 0..iters {
        if it % 64 == 0 {
            world = World::new(&mut rng);
            env = BDDEnv::new();
        }
        let w = &world;
        st.evals += 1;
        st.bump("many_variable_cases");
        st.max("max_variables_in_one_environment", w.n() as u64);
        let case = json!({"kind": "wide", "seed": ctx.seed, "job": job, "iteration": it});
        util::budget(50_000_000, 1000);
        let (fa, fb, fc) = (w.random_dnf(&mut rng), w.random_dnf(&mut rng), w.random_dnf(&mut rng));
        let built = guarded(|| (w.build(&env, &fa), w.build(&env, &fb), w.build(&env, &fc)));
        let (a, b, c) = match built {
            Ok(x) => x,
            Err(e) => {
                st.violate(&format!("{}.panic", which.to_lowercase()), format!("{}:wide:build:{}", which, e.signature()), format!("{:?}", e), case);
                continue;
            }
        };
        let samples = w.samples(&mut rng, &[&fa, &fb, &fc], SAMPLES);
        let (va, vb, vc): (Vec<bool>, Vec<bool>, Vec<bool>) = (samples.iter().map(|s| World::eval_dnf(&fa, s)).collect(), samples.iter().map(|s| World::eval_dnf(&fb, s)).collect(), samples.iter().map(|s| World::eval_dnf(&fc, s)).collect());
        // the operands themselves must be what their DNF says (guards the oracle's own plumbing)
        let mut judge = |st: &mut Stats, monitor: &str, sig: String, what: String, r: &D, want: &dyn Fn(usize) -> bool, walk: bool| -> bool {
            if walk {
                if let Err(m) = check_ordered_reduced(r) {
                    st.violate(monitor, format!("{}:not-ordered-reduced", sig), format!("{} over {} variables: {} in {}", what, w.n(), m, short(r)), case.clone());
                    return false;
                }
            }
            for (k, s) in samples.iter().enumerate() {
                match w.eval_bdd(r, s) {
                    Some(got) if got == want(k) => {}
                    Some(got) => {
                        let on: Vec<usize> = s.iter().enumerate().filter(|(_, b)| **b).map(|(i, _)| w.labels[i]).collect();
                        st.violate(monitor, format!("{}:wrong-value", sig), format!("{} over {} variables is {} under the assignment that sets exactly {:?}, expected {}\n a = {}\n b = {}\n c = {}\n result = {}", what, w.n(), got, on, want(k), show(w, &fa), show(w, &fb), show(w, &fc), short(r)), case.clone());
                        return false;
                    }
                    None => {
                        st.violate(monitor, format!("{}:foreign-variable", sig), format!("{}: the result tests a label outside the environment's variables: {}", what, short(r)), case.clone());
                        return false;
                    }
                }
            }
            true
        };
        // the operands must be what their DNF says; if not, that is C03's finding, not this check's
        if which == "C03" {
            if !judge(&mut st, "c03.pointwise", "C03:wide:dnf-operand".into(), "a DNF built with and / or / not".into(), &a, &|k| va[k], true) {
                continue;
            }
        } else if samples.iter().enumerate().any(|(k, s)| w.eval_bdd(&a, s) != Some(va[k]) || w.eval_bdd(&b, s) != Some(vb[k]) || w.eval_bdd(&c, s) != Some(vc[k])) {
            st.bump("operand_not_as_built(C03's business, case skipped)");
            continue;
        }
        match which {
            "C03" | "C02" => {
                let ops: [(&str, Box<dyn Fn() -> D + '_>, Box<dyn Fn(usize) -> bool + '_>); 10] = [
                    ("and", Box::new(|| env.and(Rc::clone(&a), Rc::clone(&b))), Box::new(|k| va[k] && vb[k])),
                    ("or", Box::new(|| env.or(Rc::clone(&a), Rc::clone(&b))), Box::new(|k| va[k] || vb[k])),
                    ("xor", Box::new(|| env.xor(Rc::clone(&a), Rc::clone(&b))), Box::new(|k| va[k] != vb[k])),
                    ("nor", Box::new(|| env.nor(Rc::clone(&a), Rc::clone(&b))), Box::new(|k| !(va[k] || vb[k]))),
                    ("nand", Box::new(|| env.nand(Rc::clone(&a), Rc::clone(&b))), Box::new(|k| !(va[k] && vb[k]))),
                    ("implies", Box::new(|| env.implies(Rc::clone(&a), Rc::clone(&b))), Box::new(|k| !va[k] || vb[k])),
                    ("eq", Box::new(|| env.eq(Rc::clone(&a), Rc::clone(&b))), Box::new(|k| va[k] == vb[k])),
                    ("not", Box::new(|| env.not(Rc::clone(&a))), Box::new(|k| !va[k])),
                    ("ite", Box::new(|| env.ite(Rc::clone(&a), Rc::clone(&b), Rc::clone(&c))), Box::new(|k| if va[k] { vb[k] } else { vc[k] })),
                    ("ite'", Box::new(|| env.ite(Rc::clone(&c), Rc::clone(&a), Rc::clone(&b))), Box::new(|k| if vc[k] { va[k] } else { vb[k] })),
                ];
                if which == "C03" {
                    for (name, run, want) in ops.iter() {
                        match guarded(|| run()) {
                            Ok(r) => {
                                if judge(&mut st, "c03.pointwise", format!("C03:wide:{}", name), format!("{}(a, b[, c])", name), &r, &**want, true) {
                                    st.nt.insert(mix(util::hash_str(name), mix(it, job as u64)));
                                }
                            }
                            Err(e) => st.violate("c03.panic", format!("C03:wide:{}:{}", name, e.signature()), format!("{:?}", e), case.clone()),
                        }
                    }
                } else {
                    // two routes to the same function must give the same diagram (and hash)
                    let routes: [(&str, Box<dyn Fn() -> D + '_>, Box<dyn Fn() -> D + '_>); 5] = [
                        ("and / De Morgan", Box::new(|| env.and(Rc::clone(&a), Rc::clone(&b))), Box::new(|| env.not(env.or(env.not(Rc::clone(&a)), env.not(Rc::clone(&b)))))),
                        ("or / swapped", Box::new(|| env.or(Rc::clone(&a), Rc::clone(&b))), Box::new(|| env.or(Rc::clone(&b), Rc::clone(&a)))),
                        ("ite / and-or", Box::new(|| env.ite(Rc::clone(&c), Rc::clone(&a), Rc::clone(&b))), Box::new(|| env.or(env.and(Rc::clone(&c), Rc::clone(&a)), env.and(env.not(Rc::clone(&c)), Rc::clone(&b))))),
                        ("xor / eq", Box::new(|| env.xor(Rc::clone(&a), Rc::clone(&b))), Box::new(|| env.not(env.eq(Rc::clone(&a), Rc::clone(&b))))),
                        ("absorption", Box::new(|| Rc::clone(&a)), Box::new(|| env.or(Rc::clone(&a), env.and(Rc::clone(&a), Rc::clone(&b))))),
                    ];
                    for (name, r1, r2) in routes.iter() {
                        match guarded(|| (r1(), r2())) {
                            Ok((x, y)) => {
                                if x.as_ref() != y.as_ref() || x.get_hash() != y.get_hash() {
                                    st.violate("c02.canonical", format!("C02:wide:{}:routes-differ", name), format!("two routes to one function over {} variables give different diagrams: {} vs {}\n a = {}\n b = {}\n c = {}", w.n(), short(&x), short(&y), show(w, &fa), show(w, &fb), show(w, &fc)), case.clone());
                                } else if let Err(m) = check_ordered_reduced(&x) {
                                    st.violate("c02.walker", format!("C02:wide:{}:not-ordered-reduced", name), format!("{} in {}", m, short(&x)), case.clone());
                                } else {
                                    st.nt.insert(mix(util::hash_str(name), mix(it, job as u64)));
                                }
                            }
                            Err(e) => st.bump(&format!("wide_route_panic[{}](not judged here)", e.signature())),
                        }
                    }
                }
            }
            "C04" => {
                // 1-3 listed variables from a's support plus up to 40 that a does not mention
                let support: Vec<usize> = {
                    let mut s: Vec<usize> = fa.iter().flatten().map(|(v, _)| *v).collect();
                    s.sort();
                    s.dedup();
                    s
                };
                let mut listed: Vec<usize> = Vec::new();
                for _ in 0..(1 + rng.usize(3)) {
                    let v = *rng.pick(&support);
                    if !listed.contains(&v) {
                        listed.push(v);
                    }
                }
                let mut list: Vec<usize> = listed.clone();
                for _ in 0..rng.usize(41) {
                    let v = rng.usize(w.n());
                    if !support.contains(&v) {
                        list.push(v);
                    }
                }
                rng.shuffle(&mut list);
                let forall = rng.chance(1, 2);
                let label_list: Vec<usize> = list.iter().map(|v| w.labels[*v]).collect();
                let want: Vec<bool> = samples
                    .iter()
                    .map(|s| {
                        let mut s2 = s.clone();
                        let mut any = false;
                        let mut all = true;
                        for m in 0..(1u32 << listed.len()) {
                            for (j, v) in listed.iter().enumerate() {
                                s2[*v] = (m >> j) & 1 == 1;
                            }
                            let x = World::eval_dnf(&fa, &s2);
                            any |= x;
                            all &= x;
                        }
                        if forall { all } else { any }
                    })
                    .collect();
                let name = if forall { "all" } else { "exists" };
                match guarded(|| if forall { env.all(label_list.clone(), Rc::clone(&a)) } else { env.exists(label_list.clone(), Rc::clone(&a)) }) {
                    Ok(r) => {
                        if judge(&mut st, "c04.semantics", format!("C04:wide:{}", name), format!("{}({} variables: {:?}.., a)", name, label_list.len(), &label_list[..label_list.len().min(6)]), &r, &|k| want[k], true) {
                            if let Some(l) = labels_of(&r).iter().find(|l| label_list.contains(l)) {
                                st.violate("c04.independence", format!("C04:wide:{}:depends-on-quantified", name), format!("{}({:?}, a) still tests {}: {}", name, label_list, l, short(&r)), case.clone());
                            } else {
                                st.nt.insert(mix(it, mix(job as u64, label_list.len() as u64)));
                                st.max("max_quantifier_list_length", label_list.len() as u64);
                            }
                        }
                    }
                    Err(e) => st.violate("c04.panic", format!("C04:wide:{}:{}", name, e.signature()), format!("{:?}", e), case.clone()),
                }
            }
            "C05" => {
                let ops: Vec<(D, &Vec<bool>)> = [(Rc::clone(&a), &va), (Rc::clone(&b), &vb), (Rc::clone(&c), &vc), (Rc::clone(&a), &va)].into_iter().take(2 + rng.usize(3)).collect();
                let ds: Vec<D> = ops.iter().map(|x| Rc::clone(&x.0)).collect();
                let n = rng.range(0, ds.len() as i64);
                for name in ["aln", "amn", "exn"] {
                    let want = |k: usize| {
                        let cnt = ops.iter().filter(|x| x.1[k]).count() as i64;
                        match name {
                            "aln" => cnt >= n,
                            "amn" => cnt <= n,
                            _ => cnt == n,
                        }
                    };
                    match guarded(|| match name {
                        "aln" => env.aln(&ds, n),
                        "amn" => env.amn(&ds, n),
                        _ => env.exn(&ds, n),
                    }) {
                        Ok(r) => {
                            if judge(&mut st, "c05.count", format!("C05:wide:{}", name), format!("{}({} operands, {})", name, ds.len(), n), &r, &want, true) {
                                st.nt.insert(mix(util::hash_str(name), mix(it, job as u64)));
                            }
                        }
                        Err(e) => st.violate("c05.panic", format!("C05:wide:{}:{}", name, e.signature()), format!("{:?}", e), case.clone()),
                    }
                }
                for (name, cmp) in [("count_leq", 0), ("count_lt", 1), ("count_geq", 2), ("count_gt", 3), ("count_eq", 4)] {
                    let (l, r): (Vec<D>, Vec<D>) = (vec![Rc::clone(&a), Rc::clone(&c)], vec![Rc::clone(&b), Rc::clone(&a), Rc::clone(&b)]);
                    let want = |k: usize| {
                        let (x, y) = (va[k] as i64 + vc[k] as i64, 2 * vb[k] as i64 + va[k] as i64);
                        [x <= y, x < y, x >= y, x > y, x == y][cmp]
                    };
                    match guarded(|| match cmp {
                        0 => env.count_leq(&l, &r),
                        1 => env.count_lt(&l, &r),
                        2 => env.count_geq(&l, &r),
                        3 => env.count_gt(&l, &r),
                        _ => env.count_eq(&l, &r),
                    }) {
                        Ok(d) => {
                            judge(&mut st, "c05.count", format!("C05:wide:{}", name), format!("{}([a, c], [b, a, b])", name), &d, &want, true);
                        }
                        Err(e) => st.violate("c05.panic", format!("C05:wide:{}:{}", name, e.signature()), format!("{:?}", e), case.clone()),
                    }
                }
            }
            "C07" => match guarded(|| env.model(Rc::clone(&a))) {
                Ok(m) => {
                    // the model is one path of forced choices; whatever else is assigned, it implies a
                    let sat = !fa.is_empty(); // every cube is consistent
                    if matches!(m.as_ref(), BDD::False) == sat {
                        st.violate("c07.unsat", "C07:wide:false-for-satisfiable".into(), format!("model(a) = false although a = {} is satisfiable", show(w, &fa)), case.clone());
                        continue;
                    }
                    let mut ok = true;
                    for s in &samples {
                        if w.eval_bdd(&m, s) == Some(true) && !World::eval_dnf(&fa, s) {
                            let on: Vec<usize> = s.iter().enumerate().filter(|(_, b)| **b).map(|(i, _)| w.labels[i]).collect();
                            st.violate("c07.implies", "C07:wide:not-a-model".into(), format!("over {} variables the assignment that sets exactly {:?} satisfies model(a) = {} but not a = {}", w.n(), on, short(&m), show(w, &fa)), case.clone());
                            ok = false;
                            break;
                        }
                    }
                    // samples that follow the model's own path
                    if ok {
                        let mut path: Vec<(usize, bool)> = Vec::new();
                        let mut cur = &m;
                        let mut cube_shaped = true;
                        while let BDD::Choice(t, s, f) = cur.as_ref() {
                            let Some(i) = w.index.get(s) else { break };
                            match (t.as_ref(), f.as_ref()) {
                                (_, BDD::False) => {
                                    path.push((*i, true));
                                    cur = t;
                                }
                                (BDD::False, _) => {
                                    path.push((*i, false));
                                    cur = f;
                                }
                                _ => {
                                    cube_shaped = false;
                                    break;
                                }
                            }
                        }
                        if !cube_shaped {
                            st.violate("c07.cube", "C07:wide:not-a-cube".into(), format!("model(a) = {} is not a conjunction of literals", short(&m)), case.clone());
                        } else {
                            for s in samples.iter().take(16) {
                                let mut s2 = s.clone();
                                for (i, v) in &path {
                                    s2[*i] = *v;
                                }
                                if !World::eval_dnf(&fa, &s2) {
                                    st.violate("c07.implies", "C07:wide:not-a-model".into(), format!("an assignment extending model(a) = {} falsifies a = {}", short(&m), show(w, &fa)), case.clone());
                                    ok = false;
                                    break;
                                }
                            }
                            if ok {
                                st.nt.insert(mix(it, job as u64));
                            }
                        }
                    }
                }
                Err(e) => st.violate("c07.panic", format!("C07:wide:{}", e.signature()), format!("{:?}", e), case.clone()),
            },
            _ => {
                let f = guarded(|| env.or(env.and(Rc::clone(&a), Rc::clone(&b)), Rc::clone(&c)));
                let Ok(f) = f else { continue };
                let vf: Vec<bool> = (0..samples.len()).map(|k| (va[k] && vb[k]) || vc[k]).collect();
                for (fname, filter) in [("True", TruthTableEntry::True), ("False", TruthTableEntry::False), ("Any", TruthTableEntry::Any)] {
                    match guarded(|| env.retain_choice_bottom_up(Rc::clone(&f), filter)) {
                        Ok(r) => {
                            if let Err(m) = check_ordered_reduced(&r) {
                                st.violate("c20.walker", format!("C20:wide:{}:not-ordered-reduced", fname), format!("{} in {}", m, short(&r)), case.clone());
                                continue;
                            }
                            let mut ok = true;
                            for (k, s) in samples.iter().enumerate() {
                                let Some(got) = w.eval_bdd(&r, s) else {
                                    st.violate("c20.walker", format!("C20:wide:{}:foreign-variable", fname), short(&r), case.clone());
                                    ok = false;
                                    break;
                                };
                                let fine = match fname {
                                    "True" => !vf[k] || got,
                                    "False" => !got || vf[k],
                                    _ => got == vf[k],
                                };
                                if !fine {
                                    st.violate("c20.direction", format!("C20:wide:{}:wrong-direction", fname), format!("over {} variables: retain(f, {}) = {} is {} where f is {}\n f = (a & b) | c, a = {}, b = {}, c = {}", w.n(), fname, short(&r), got, vf[k], show(w, &fa), show(w, &fb), show(w, &fc)), case.clone());
                                    ok = false;
                                    break;
                                }
                            }
                            if ok && fname != "Any" {
                                st.nt.insert(mix(util::hash_str(fname), mix(it, job as u64)));
                            }
                        }
                        Err(e) => st.violate("c20.panic", format!("C20:wide:{}:{}", fname, e.signature()), format!("{:?}", e), case.clone()),
                    }
                }
            }
        }
    }
    st
}

/// Replay of a recorded wide case: the job's stream is re-run up to the recorded iteration.
pub fn replay_wide(ctx: &Ctx, which: &str, case: &serde_json::Value, st: &mut Stats) {
    let job = case.get("job").and_then(|j| j.as_u64()).unwrap_or(0) as usize;
    let it = case.get("iteration").and_then(|j| j.as_u64()).unwrap_or(0);
    let mut c2 = ctx.clone();
    c2.seed = case.get("seed").and_then(|j| j.as_u64()).unwrap_or(ctx.seed);
    st.merge(wide_job(&c2, which, job, it + 1));
}
