//! C02 — canonical form: same function <=> identical (== and equal hash) diagram, by whatever
//! route it was built, in the same or another environment; every diagram ordered and reduced.
//!
//! Monitor: each function is built by many independent routes through the public API; every
//! result is compared (==, get_hash) with an independently built ROBDD (conv::build_ref), walked
//! for order/reduction, and a structure->table map detects "== but different".

use crate::conv::{build_in_env, build_ref, check_ordered_reduced, labels_of, short, tt_of_bdd};
use crate::report::{Ctx, Spec, Stats};
use crate::tt::Tt;
use crate::util::{self, guarded, mix, Rng};
use rsbdd::bdd::{BDDEnv, BDD};
use rsbdd::parser::ParsedFormula;
use rsbdd::{NamedSymbol, TruthTableEntry};
use serde_json::{json, Value};
use std::collections::HashMap;
use std::io::BufReader;
use std::rc::Rc;

type D = Rc<BDD<usize>>;

pub const ROUTES: [&str; 19] = [
    "mk_choice", "dnf", "cnf", "shannon-ite", "xor-detour", "double-negation", "absorption", "demorgan", "quantifier-detour", "counting-detour",
    "fixpoint-detour", "fixpoint-through-constant", "model-of-minterms", "retain-any+clean", "split-or-ab", "split-or-ba", "cross-env-or", "cross-env-absorption", "cross-env-ite",
];

fn lit(env: &BDDEnv<usize>, label: usize, pos: bool) -> D {
    let v = env.var(label);
    if pos {
        v
    } else {
        env.not(v)
    }
}

fn minterm(env: &BDDEnv<usize>, labels: &[usize], a: u64) -> D {
    let mut r = env.mk_const(true);
    // deliberately from the last label to the first and back, so that operands arrive in both orders
    for (i, l) in labels.iter().enumerate().rev() {
        r = env.and(lit(env, *l, (a >> i) & 1 == 1), r);
    }
    r
}

fn maxterm(env: &BDDEnv<usize>, labels: &[usize], a: u64) -> D {
    // the clause that is false exactly under assignment a
    let mut r = env.mk_const(false);
    for (i, l) in labels.iter().enumerate() {
        r = env.or(r, lit(env, *l, (a >> i) & 1 == 0));
    }
    r
}

fn shannon(env: &BDDEnv<usize>, t: &Tt, labels: &[usize], k: usize) -> D {
    if k == labels.len() {
        return env.mk_const(t.get(0));
    }
    // expand on the LAST label first: exercises ite with a root below its branches
    let i = (labels.len() - 1 - k) as u32;
    let hi = shannon(env, &t.cofactor(i, true), labels, k + 1);
    let lo = shannon(env, &t.cofactor(i, false), labels, k + 1);
    env.ite(env.var(labels[i as usize]), hi, lo)
}

/// Build table `t` (over `labels`, ascending; variable i of the table = labels[i]) by `route`.
/// `spare` is a label not in `labels` (for the quantifier detour); `g` an arbitrary helper diagram.
pub fn build_route(env: &BDDEnv<usize>, alt: &BDDEnv<usize>, route: &str, t: &Tt, labels: &[usize], spare: usize, g: &D) -> D {
    let n = labels.len() as u32;
    let vars: Vec<(usize, u32)> = labels.iter().enumerate().map(|(i, l)| (*l, i as u32)).collect();
    let ones: Vec<u64> = (0..t.size()).filter(|a| t.get(*a)).collect();
    let zeros: Vec<u64> = (0..t.size()).filter(|a| !t.get(*a)).collect();
    match route {
        "mk_choice" => build_in_env(env, t, &vars),
        "dnf" => {
            let mut r = env.mk_const(false);
            for a in &ones {
                r = env.or(r, minterm(env, labels, *a));
            }
            r
        }
        "cnf" => {
            let mut r = env.mk_const(true);
            for a in &zeros {
                r = env.and(maxterm(env, labels, *a), r);
            }
            r
        }
        "shannon-ite" => shannon(env, t, labels, 0),
        "xor-detour" => {
            let f = build_in_env(env, t, &vars);
            env.xor(Rc::clone(g), env.xor(Rc::clone(g), f))
        }
        "double-negation" => {
            let f = build_route(env, alt, "dnf", t, labels, spare, g);
            env.not(env.not(f))
        }
        "absorption" => {
            let f = build_route(env, alt, "cnf", t, labels, spare, g);
            env.and(Rc::clone(&f), env.or(f, Rc::clone(g)))
        }
        "demorgan" => {
            // f = not( or_{a in zeros} minterm(a) )  and  via nand/nor spellings
            let mut r = env.mk_const(false);
            for a in &zeros {
                r = env.nor(env.nor(r, minterm(env, labels, *a)), env.mk_const(false));
            }
            env.nand(Rc::clone(&r), r)
        }
        "quantifier-detour" => {
            if n == 0 {
                return env.mk_const(t.get(0));
            }
            // exists y # (y <=> x) & f[x := y], x = a label of the support (middle one)
            let xi = (n / 2) as usize;
            let mut labels2 = labels.to_vec();
            labels2[xi] = spare;
            // table over labels2 in ascending order of labels2
            let mut order: Vec<usize> = (0..labels2.len()).collect();
            order.sort_by_key(|i| labels2[*i]);
            let vars2: Vec<(usize, u32)> = order.iter().map(|i| (labels2[*i], *i as u32)).collect();
            let f2 = build_in_env(env, t, &vars2);
            let link = env.eq(env.var(spare), env.var(labels[xi]));
            env.exists(vec![spare], env.and(link, f2))
        }
        "counting-detour" => {
            let ms: Vec<D> = ones.iter().map(|a| minterm(env, labels, *a)).collect();
            if ms.len() <= 8 {
                env.exn(&ms, 1)
            } else {
                // split into blocks of <= 8 mutually exclusive minterms
                let mut r = env.mk_const(false);
                for chunk in ms.chunks(8) {
                    r = env.or(env.aln(chunk, 1), r);
                }
                r
            }
        }
        "fixpoint-detour" => {
            let f = build_route(env, alt, "dnf", t, labels, spare, g);
            env.fp(env.mk_const(false), |r| env.or(r, Rc::clone(&f)))
        }
        "fixpoint-through-constant" => {
            // an iteration that is not monotone but stabilises: false, true, f, f (f satisfiable)
            // resp. true, false, f, f (f = false: true, false, false)
            let f = build_route(env, alt, "dnf", t, labels, spare, g);
            let ls: Vec<usize> = labels.to_vec();
            if t.is_false() {
                env.fp(env.mk_const(true), |r| env.and(Rc::clone(&f), env.not(env.all(ls.clone(), r))))
            } else {
                env.fp(env.mk_const(false), |r| env.or(Rc::clone(&f), env.not(env.exists(ls.clone(), r))))
            }
        }
        "model-of-minterms" => {
            let mut r = env.mk_const(false);
            for a in ones.iter().rev() {
                let m = env.model(minterm(env, labels, *a));
                r = env.or(m, r);
            }
            r
        }
        "retain-any+clean" => {
            let f = build_in_env(env, t, &vars);
            let r = env.retain_choice_bottom_up(f, TruthTableEntry::Any);
            env.clean(r)
        }
        "split-or-ab" | "split-or-ba" => {
            let f = build_in_env(env, t, &vars);
            let p1 = env.and(Rc::clone(&f), Rc::clone(g));
            let p2 = env.and(env.not(Rc::clone(g)), Rc::clone(&f));
            if route == "split-or-ab" {
                env.or(p1, p2)
            } else {
                env.or(p2, p1)
            }
        }
        // operands obtained in ANOTHER environment handed to an operation of this one
        "cross-env-or" => {
            let f_alt = build_in_env(alt, t, &vars);
            let g_alt = helper_g(alt, labels, spare, 1);
            let p1 = alt.and(f_alt, Rc::clone(&g_alt));
            let f = build_in_env(env, t, &vars);
            let g_here = helper_g(env, labels, spare, 1);
            let p2 = env.and(env.not(g_here), f);
            env.or(p1, p2)
        }
        "cross-env-absorption" => {
            let f_alt = build_route(alt, env, "dnf", t, labels, spare, g);
            let f = build_in_env(env, t, &vars);
            env.and(f_alt, env.or(f, Rc::clone(g)))
        }
        "cross-env-ite" => {
            if n == 0 {
                return env.mk_const(t.get(0));
            }
            // Shannon expansion on the first label with cofactors built in the other environment
            let hi = build_in_env(alt, &t.cofactor(0, true), &vars);
            let lo = build_in_env(alt, &t.cofactor(0, false), &vars);
            env.ite(env.var(labels[0]), hi, lo)
        }
        _ => unreachable!("unknown route {}", route),
    }
}

fn helper_g(env: &BDDEnv<usize>, labels: &[usize], spare: usize, k: u64) -> D {
    // a helper function overlapping the support and reaching outside it
    let a = env.var(labels[(k as usize) % labels.len().max(1)].min(usize::MAX));
    let b = env.var(spare);
    match k % 3 {
        0 => env.xor(a, b),
        1 => env.and(a, env.not(b)),
        _ => env.or(env.not(a), b),
    }
}

struct Family {
    name: &'static str,
    labels: Vec<usize>,
    spare: usize,
}

fn families(nvars: usize) -> Vec<Family> {
    match nvars {
        3 => vec![
            Family { name: "adjacent", labels: vec![0, 1, 2], spare: 3 },
            Family { name: "sparse-extreme", labels: vec![0, 7, usize::MAX], spare: 3 },
        ],
        4 => vec![
            Family { name: "adjacent", labels: vec![0, 1, 2, 3], spare: 4 },
            Family { name: "sparse-extreme", labels: vec![0, 3, 20, usize::MAX], spare: 7 },
        ],
        _ => unreachable!(),
    }
}

#[allow(clippy::too_many_arguments)]
fn check_function(
    st: &mut Stats,
    env: &BDDEnv<usize>,
    other_env: &BDDEnv<usize>,
    t: &Tt,
    labels: &[usize],
    spare: usize,
    fam: &str,
    routes: &[&str],
    seen: &mut HashMap<BDD<usize>, Tt>,
    hashes: &mut HashMap<u64, Tt>,
    salt: u64,
) {
    let vars: Vec<(usize, u32)> = labels.iter().enumerate().map(|(i, l)| (*l, i as u32)).collect();
    let reference = build_ref(t, &vars);
    let ref_hash = reference.get_hash();
    let n = labels.len() as u32;
    let idx = |s: &usize| labels.iter().position(|x| x == s).map(|p| p as u32);
    let nontrivial = !t.is_const() && t.support().len() >= 2;
    let g = helper_g(env, labels, spare, salt);
    let g2 = helper_g(other_env, labels, spare, salt);
    for (ri, route) in routes.iter().enumerate() {
        // alternate environments: the same function built in a fresh/other environment must compare equal too
        let (e, ealt, gg, envname) = if (ri as u64 + salt) % 3 == 0 { (other_env, env, &g2, "other-env") } else { (env, other_env, &g, "main-env") };
        st.evals += 1;
        st.bump(&format!("route_{}", route));
        let case = || json!({"table": t.hex(), "labels": labels.iter().map(|x| x.to_string()).collect::<Vec<_>>(), "spare": spare.to_string(), "route": route, "salt": salt});
        util::budget(20_000_000, 10_000);
        let r = match guarded(|| build_route(e, ealt, route, t, labels, spare, gg)) {
            Ok(r) => r,
            Err(c) => {
                st.violate("c02.panic", format!("C02:{}:{}", route, c.signature()), format!("route {} did not return: {:?}", route, c), case());
                continue;
            }
        };
        // (1) denotes the intended function (otherwise the route is not a valid witness; reported, since every route is an identity)
        match tt_of_bdd(&r, n, &idx) {
            Ok(got) if got == *t => {}
            Ok(got) => {
                st.violate("c02.route-function", format!("C02:{}:wrong-function", route), format!("route {} over labels {:?} built table {} instead of {}: {}", route, labels, got.hex(), t.hex(), short(&r)), case());
                continue;
            }
            Err(e2) => {
                st.violate("c02.route-function", format!("C02:{}:foreign-variable", route), format!("route {}: {} in {}", route, e2, short(&r)), case());
                continue;
            }
        }
        // (2) identical to the independent canonical form
        if r.as_ref() != reference.as_ref() {
            st.violate(
                "c02.canonical",
                format!("C02:{}:not-canonical", route),
                format!("same function, different diagram ({} / {}, family {})\n route result: {}\n canonical:    {}", route, envname, fam, short(&r), short(&reference)),
                case(),
            );
        }
        if r.get_hash() != ref_hash {
            st.violate("c02.hash", format!("C02:{}:hash-differs", route), format!("same function hashes differently via {}: {} vs canonical {}", route, short(&r), short(&reference)), case());
        }
        // (3) ordered + reduced  (pointer sharing inside the environment is C13's subject, not checked here)
        if let Err(m) = check_ordered_reduced(&r) {
            st.violate("c02.walker", format!("C02:{}:not-ordered-reduced", route), format!("{} in result of {}: {}", m, route, short(&r)), case());
        } else {
            st.add("nodes_walked", crate::conv::count_nodes(&r));
        }
        // (5) leaves for constants
        if t.is_true() && !matches!(r.as_ref(), BDD::True) || t.is_false() && !matches!(r.as_ref(), BDD::False) {
            st.violate("c02.leaf", format!("C02:{}:constant-not-leaf", route), format!("constant function is not the leaf: {}", short(&r)), case());
        }
        // (6) == implies same function (structure -> table map)
        if let Some(prev) = seen.get(r.as_ref()) {
            if prev != t {
                st.violate("c02.eq-implies-same", format!("C02:{}:equal-but-different", route), format!("diagram {} compares == to a diagram of table {} but denotes {}", short(&r), prev.hex(), t.hex()), case());
            }
        } else {
            seen.insert(r.as_ref().clone(), t.clone());
        }
        match hashes.get(&r.get_hash()) {
            Some(prev) if prev != t => st.bump("hash_collisions_between_different_functions(counted,not a violation)"),
            Some(_) => {}
            None => {
                hashes.insert(r.get_hash(), t.clone());
            }
        }
        if nontrivial {
            st.nt.insert(mix(mix(t.hash64(), util::hash_str(route)), mix(util::hash_str(fam), labels.len() as u64)));
        }
        if st.want_sample() && nontrivial && (salt + ri as u64) % 4099 == 7 {
            st.sample(json!({"table": t.hex(), "labels": labels.iter().map(|x| x.to_string()).collect::<Vec<_>>(), "route": route, "env": envname, "diagram": short(&r)}));
        }
    }
}

fn text_route_id(i: usize, n: usize) -> usize {
    let h = (n + 1) / 2;
    if i < h { i } else { (1usize << 32) + (i - h) }
}

fn text_route(st: &mut Stats, t: &Tt, n: u32) {
    // the same function through the formula language (NamedSymbol env, ids = label order)
    let names: Vec<String> = (0..n).map(|i| format!("x{}", i)).collect();
    let mut terms = Vec::new();
    for a in 0..t.size() {
        if t.get(a) {
            let lits: Vec<String> = (0..n).map(|i| if (a >> i) & 1 == 1 { names[i as usize].clone() } else { format!("-{}", names[i as usize]) }).collect();
            terms.push(format!("({})", lits.join(" & ")));
        }
    }
    let dnf = if terms.is_empty() { "false".to_string() } else { terms.join(" | ") };
    // ids that coincide when narrowed to 32 bits (x0 ~ x_h, x1 ~ x_h+1, ..): identity is the full id
    let ordering: Vec<NamedSymbol> = names.iter().enumerate().map(|(i, s)| NamedSymbol { name: Rc::new(s.clone()), id: text_route_id(i, n as usize) }).collect();
    // the DNF itself and detours through other constructs of the language that denote the same function
    let texts = [
        dnf.clone(),
        format!("lfp Zfix # (false | exists Zfix # (Zfix & ({})))", dnf),
        format!("gfp Zfix # (({}) & forall Zfix # (Zfix | true))", dnf),
        format!("[{}, false] >= 1", dnf),
        format!("if true then ({}) else false", dnf),
        format!("forall q # exists r # ((q <=> r) & ({}))", dnf),
        // constants as operands of every connective
        format!("false <= -({})", dnf),
        format!("({}) <= true", dnf),
        format!("true => ({})", dnf),
        format!("false nor -({})", dnf),
        format!("true nand -({})", dnf),
        format!("(({}) | false) & true", dnf),
        format!("(({}) ^ false) <=> true", dnf),
        format!("-({}) => -true", dnf),
        // the bound name of a fixed point in every position of a counting comparison (right list,
        // left list, both, inside an operand); all of them stabilise at F after two rounds
        format!("lfp Zfix # ({}) | ([true] <= [Zfix])", dnf),
        format!("gfp Zfix # ({}) & ([true, true] <= [Zfix, true])", dnf),
        format!("lfp Zfix # [true] <= [Zfix, ({})]", dnf),
        format!("gfp Zfix # [Zfix, ({})] > [true]", dnf),
        format!("lfp Zfix # [Zfix | ({})] = [true]", dnf),
        format!("gfp Zfix # [true, true] < [true, Zfix, ({})]", dnf),
        format!("lfp Zfix # [Zfix, ({})] >= 1", dnf),
    ];
    for text in texts {
        text_route_one(st, t, n, &text, &ordering);
    }
    // fixed points whose iteration is NOT monotone but stabilises all the same, passing through the
    // opposite constant on the way: false, true, F, F (F satisfiable) resp. true, false, F, F (F not valid)
    if n > 0 && !t.is_false() {
        text_route_one(st, t, n, &format!("lfp Zfix # ({}) | -(exists {} # Zfix)", dnf, names.join(", ")), &ordering);
        st.bump("route_non-monotone-fixed-point");
    }
    if n > 0 && !t.is_true() {
        text_route_one(st, t, n, &format!("gfp Zfix # ({}) & -(forall {} # Zfix)", dnf, names.join(", ")), &ordering);
    }
    partial_ordering_route(st, t, n, &dnf, &names);
    definition_route(st, t, n, &terms, &ordering);
    // the same diagram under OTHER NAMES for the same ids (identity of a symbol is its id): equal
    // diagrams, equal hashes, and one copy of every node when both live in one environment
    let renamed_text = dnf.replace('x', "other_name_");
    let renamed: Vec<NamedSymbol> = ordering.iter().map(|s| NamedSymbol { name: Rc::new(s.name.replace('x', "other_name_")), id: s.id }).collect();
    util::budget(50_000_000, 200);
    let r = guarded(|| {
        let env = Rc::new(BDDEnv::<NamedSymbol>::new());
        let a = ParsedFormula::new_with_env(Rc::clone(&env), &mut BufReader::new(dnf.as_bytes()), Some(ordering.clone()))?.eval();
        let size_after_first = env.size();
        let b = ParsedFormula::new_with_env(Rc::clone(&env), &mut BufReader::new(renamed_text.as_bytes()), Some(renamed.clone()))?.eval();
        Ok::<_, std::io::Error>((a.as_ref() == b.as_ref(), a.get_hash() == b.get_hash(), Rc::ptr_eq(&a, &b), size_after_first, env.size()))
    });
    st.evals += 1;
    st.bump("route_renamed-symbols");
    let case = json!({"table": t.hex(), "route": "formula-text", "text": dnf});
    match r {
        Ok(Ok((eq, same_hash, same_node, s1, s2))) => {
            if !eq || !same_hash {
                st.violate("c02.canonical", "C02:renamed-symbols:equal-diagrams-differ".into(), format!("`{}` and the same text with other names for the same ids: equal = {}, hashes equal = {}", dnf, eq, same_hash), case);
            } else if !same_node || s1 != s2 {
                st.violate("c02.canonical", "C02:renamed-symbols:second-copy-in-one-environment".into(), format!("`{}` and the same text with other names for the same ids in ONE environment: same node = {}, table size {} -> {}", dnf, same_node, s1, s2), case);
            }
        }
        Ok(Err(_)) | Err(_) => st.bump("renamed_route_failed(judged by the formula-text route)"),
    }
}

/// A route through DEFINITIONS with a history: the formula is `{outer}`, outer := `{inner} | B`,
/// and inner is defined as false, then — after an evaluation — as A, as true, and as A again
/// (A | B being the function's DNF). After each step the result must be the canonical diagram of
/// what the definitions then say.
fn definition_route(st: &mut Stats, t: &Tt, n: u32, terms: &[String], ordering: &[NamedSymbol]) {
    use rsbdd::parser::ReferenceContents;
    if terms.len() < 2 {
        return;
    }
    let (a, b) = terms.split_at(terms.len() / 2);
    let (a, b) = (a.join(" | "), b.join(" | "));
    st.evals += 1;
    st.bump("route_definitions-with-a-history");
    let case = json!({"table": t.hex(), "route": "definitions", "text": format!("{{outer}} with outer := {{inner}} | {} and inner := false, {}, true, {}", b, a, a)});
    util::budget(50_000_000, 200);
    let ord = ordering.to_vec();
    let r = guarded(|| -> std::io::Result<Vec<Rc<BDD<NamedSymbol>>>> {
        let env = Rc::new(BDDEnv::<NamedSymbol>::new());
        let parse = |text: &str| ParsedFormula::new_with_env(Rc::clone(&env), &mut BufReader::new(text.as_bytes()), Some(ord.clone()));
        let pf = parse("{outer}")?;
        pf.define("inner", ReferenceContents::Syntax(parse("false")?.bdd.clone()));
        pf.define("outer", ReferenceContents::Syntax(parse(&format!("{{inner}} | ({})", b))?.bdd.clone()));
        let mut out = vec![pf.eval()];
        for text in [a.as_str(), "true", a.as_str()] {
            pf.define("inner", ReferenceContents::Syntax(parse(text)?.bdd.clone()));
            out.push(pf.eval());
        }
        Ok(out)
    });
    match r {
        Ok(Ok(out)) => {
            let vars: Vec<(usize, u32)> = (0..n).map(|i| (text_route_id(i as usize, n as usize), i)).collect();
            let reference = build_ref(t, &vars);
            let plain = |d: &Rc<BDD<NamedSymbol>>| -> BDD<usize> { BDD::from(d.as_ref().clone()) };
            if &plain(&out[1]) != reference.as_ref() || &plain(&out[3]) != reference.as_ref() {
                st.violate("c02.canonical", "C02:definitions:not-canonical".into(), format!("`{{outer}}` with outer := {{inner}} | {}: after inner := {} (earlier: false; later: true, then {} again) the results are {} and {}, canonical is {}", b, a, a, short(&out[1]), short(&out[3]), short(&reference)), case);
            } else if !matches!(out[2].as_ref(), BDD::True) {
                st.violate("c02.canonical", "C02:definitions:valid-function-is-not-the-true-leaf".into(), format!("`{{outer}}` with outer := {{inner}} | {} and inner := true (after earlier definitions and evaluations) evaluates to {}", b, short(&out[2])), case);
            } else if !t.is_const() {
                st.nt.insert(mix(t.hash64(), 0x7e89));
            }
        }
        Ok(Err(e)) => st.violate("c02.route-function", "C02:definitions:rejected".into(), format!("definition route rejected: {}", e), case),
        Err(crate::util::Caught::Budget(_)) => st.bump("step_budget_exceeded(inconclusive case)"),
        Err(c) => st.violate("c02.panic", format!("C02:definitions:{}", c.signature()), format!("{:?}", c), case),
    }
}

/// An ordering that lists only SOME of the names, with ids of its own choosing (beyond its length,
/// with gaps, or dense): the other names receive ids from the parser. Whatever ids it picks, they
/// must name different variables — the function read through the names is the table — and the
/// result must be the canonical diagram for the ids in use.
fn partial_ordering_route(st: &mut Stats, t: &Tt, n: u32, dnf: &str, names: &[String]) {
    let salt = t.hash64();
    for variant in 0..3u64 {
        let listed: Vec<usize> = (0..n as usize).filter(|i| (mix(salt, variant) >> i) & 1 == 1).collect();
        if listed.is_empty() || listed.len() == n as usize {
            continue;
        }
        let len = listed.len();
        let ordering: Vec<NamedSymbol> = listed
            .iter()
            .enumerate()
            .map(|(j, i)| NamedSymbol { name: Rc::new(names[*i].clone()), id: match variant { 0 => len + j, 1 => 3 * j + 1, _ => j } })
            .collect();
        st.evals += 1;
        st.bump("route_partial-ordering");
        let case = json!({"table": t.hex(), "route": "formula-text", "text": dnf, "ordering": ordering.iter().map(|s| format!("{}={}", s.name, s.id)).collect::<Vec<_>>()});
        util::budget(50_000_000, 200);
        let r = guarded(|| {
            let pf = ParsedFormula::new(&mut BufReader::new(dnf.as_bytes()), Some(ordering.clone()))?;
            Ok::<_, std::io::Error>(pf.eval())
        });
        let shown = |o: &[NamedSymbol]| o.iter().map(|s| format!("{}={}", s.name, s.id)).collect::<Vec<_>>().join(",");
        match r {
            Ok(Ok(d)) => {
                let idx = |s: &NamedSymbol| names.iter().position(|x| x == s.name.as_ref()).map(|p| p as u32);
                let got = tt_of_bdd(&d, n, &idx);
                if got.as_ref().ok() != Some(t) {
                    st.violate("c02.route-function", "C02:partial-ordering:wrong-function".into(), format!("`{}` under the partial ordering [{}] evaluates to {} (table {:?}), expected table {}", dnf, shown(&ordering), short(&d), got.map(|x| x.hex()), t.hex()), case);
                    continue;
                }
                // the ids in use, then the canonical diagram for them
                let labels = labels_of(&d);
                let mut vars: Vec<(usize, u32)> = Vec::new();
                let mut clash = false;
                for l in &labels {
                    let i = idx(l).unwrap();
                    if vars.iter().any(|(id, j)| (*id == l.id) != (*j == i)) {
                        clash = true;
                    }
                    if !vars.iter().any(|(_, j)| *j == i) {
                        vars.push((l.id, i));
                    }
                }
                for i in 0..n {
                    if !vars.iter().any(|(_, j)| *j == i) {
                        vars.push((usize::MAX - i as usize, i)); // not in the support: any unused id
                    }
                }
                vars.sort();
                let plain: BDD<usize> = BDD::from(d.as_ref().clone());
                if clash || &plain != build_ref(t, &vars).as_ref() || check_ordered_reduced(&d).is_err() {
                    st.violate("c02.canonical", "C02:partial-ordering:not-canonical".into(), format!("`{}` under the partial ordering [{}] evaluates to {}, which is not the canonical diagram for the ids in use", dnf, shown(&ordering), short(&d)), case);
                } else if !t.is_const() {
                    st.nt.insert(mix(t.hash64(), 0x7e88 + variant));
                }
            }
            Ok(Err(e)) => st.violate("c02.route-function", "C02:partial-ordering:rejected".into(), format!("`{}` under the partial ordering [{}] rejected: {}", dnf, shown(&ordering), e), case),
            Err(crate::util::Caught::Budget(_)) => st.bump("step_budget_exceeded(inconclusive case)"),
            Err(c) => st.violate("c02.panic", format!("C02:partial-ordering:{}", c.signature()), format!("{:?}", c), case),
        }
    }
}

fn text_route_one(st: &mut Stats, t: &Tt, n: u32, text: &str, ordering: &[NamedSymbol]) {
    let ordering = ordering.to_vec();
    st.evals += 1;
    st.bump("route_formula-text");
    let case = json!({"table": t.hex(), "route": "formula-text", "text": text});
    // (the detours' fixed points stabilise after two rounds; anything near the budget is a loop)
    util::budget(50_000_000, 200);
    let r = guarded(|| {
        let pf = ParsedFormula::new(&mut BufReader::new(text.as_bytes()), Some(ordering.clone()))?;
        Ok::<_, std::io::Error>(pf.eval())
    });
    match r {
        Ok(Ok(d)) => {
            let plain: BDD<usize> = BDD::from(d.as_ref().clone());
            let vars: Vec<(usize, u32)> = (0..n).map(|i| (text_route_id(i as usize, n as usize), i)).collect();
            let reference = build_ref(t, &vars);
            if &plain != reference.as_ref() {
                st.violate("c02.canonical", "C02:formula-text:not-canonical".into(), format!("formula `{}` evaluates to {} but canonical is {}", text, short(&Rc::new(plain)), short(&reference)), case);
            } else if !t.is_const() {
                st.nt.insert(mix(t.hash64(), 0x7e87));
            }
        }
        Ok(Err(e)) => st.violate("c02.route-function", "C02:formula-text:rejected".into(), format!("DNF text rejected: {} : {}", text, e), case),
        Err(crate::util::Caught::Budget("fp")) => st.violate("c02.route-function", "C02:formula-text:fixed-point-does-not-converge".into(), format!("`{}`: more than 200 fixed-point rounds (two suffice)", text), case),
        Err(crate::util::Caught::Budget(_)) => st.bump("step_budget_exceeded(inconclusive case)"),
        Err(c) => st.violate("c02.panic", format!("C02:formula-text:{}", c.signature()), format!("{:?}", c), case),
    }
}

fn exhaustive_job(nvars: usize, fam_idx: usize, chunk: usize, chunks: usize, stride_sample: u64) -> Stats {
    let mut st = Stats::new();
    let fam = &families(nvars)[fam_idx];
    let total: u64 = 1u64 << (1u32 << nvars);
    let mut env: BDDEnv<usize> = BDDEnv::new();
    let mut other: BDDEnv<usize> = BDDEnv::new();
    let mut seen = HashMap::new();
    let mut hashes = HashMap::new();
    let mut count = 0u64;
    for bits in 0..total {
        if (bits as usize) % chunks != chunk {
            continue;
        }
        if stride_sample > 1 && (bits / chunks as u64) % stride_sample != 0 {
            continue;
        }
        count += 1;
        if count % 512 == 0 {
            // keep unique tables small; sharing across long histories is C13's subject
            env = BDDEnv::new();
            other = BDDEnv::default();
        }
        let t = Tt::from_u64(nvars as u32, bits);
        check_function(&mut st, &env, &other, &t, &fam.labels, fam.spare, fam.name, &ROUTES, &mut seen, &mut hashes, bits);
        if fam_idx == 0 {
            text_route(&mut st, &t, nvars as u32);
        }
    }
    st.add("distinct_diagram_shapes_seen", seen.len() as u64);
    st
}

fn random_job(ctx: &Ctx, job: usize, iters: u64) -> Stats {
    let mut st = Stats::new();
    let mut rng = Rng::stream(ctx.seed, "C02.random", job as u64);
    let pool: Vec<usize> = vec![0, 1, 2, 3, 5, 7, 9, 20, 21, 1000, usize::MAX - 1, usize::MAX];
    let mut seen = HashMap::new();
    let mut hashes = HashMap::new();
    for it in 0..iters {
        let env: BDDEnv<usize> = BDDEnv::default();
        let other: BDDEnv<usize> = BDDEnv::new();
        let nvars = 5 + rng.usize(3);
        let mut labels: Vec<usize> = Vec::new();
        while labels.len() < nvars + 1 {
            let c = *rng.pick(&pool);
            if !labels.contains(&c) {
                labels.push(c);
            }
        }
        let spare = labels.pop().unwrap();
        labels.sort();
        let mut t = Tt::constant(nvars as u32, false);
        // biased density so that sparse / dense / balanced functions all occur
        let dens = [1u64, 4, 8, 12, 15][rng.usize(5)];
        for a in 0..t.size() {
            t.set(a, rng.below(16) < dens);
        }
        // a random subset of routes per function (all of them over time)
        let mut routes: Vec<&str> = ROUTES.to_vec();
        rng.shuffle(&mut routes);
        routes.truncate(5);
        // label sets differ per iteration, so structures are only comparable within one function
        seen.clear();
        hashes.clear();
        check_function(&mut st, &env, &other, &t, &labels, spare, "random-sparse", &routes, &mut seen, &mut hashes, it);
        st.bump("random_functions");
    }
    st
}

/// Whatever a public operation hands out must be THE canonical diagram of the function it
/// denotes: random sequences of API calls (connectives, ite, quantifiers, counting over lists of
/// plain variables in arbitrary order and of compound operands, model, retain, fp); every result
/// is walked (ordered + reduced) and compared with the independent ROBDD of its own truth table.
fn api_soup_job(ctx: &Ctx, job: usize, sequences: u64, len: usize) -> Stats {
    use super::c13::{apply, Op, BIN};
    let mut st = Stats::new();
    // (retain prints diagnostics with eprintln!; the caller silences fd 2)
    let mut rng = Rng::stream(ctx.seed, "C02.soup", job as u64);
    for seq in 0..sequences {
        let nv = 4 + rng.usize(3);
        let labels = super::common::pick_labels(&mut rng, &super::common::LABEL_POOL, nv);
        let vars: Vec<(usize, u32)> = labels.iter().enumerate().map(|(i, l)| (*l, i as u32)).collect();
        let idx = |s: &usize| labels.iter().position(|x| x == s).map(|p| p as u32);
        let env: BDDEnv<usize> = BDDEnv::new();
        // pool: the variables in a random order, their negations, then results
        let mut pool: Vec<D> = Vec::new();
        let mut order: Vec<usize> = labels.clone();
        rng.shuffle(&mut order);
        for l in &order {
            pool.push(env.var(*l));
        }
        for l in &order {
            pool.push(env.not(env.var(*l)));
        }
        let base = pool.len();
        let mut done: Vec<String> = Vec::new();
        for _ in 0..len {
            let pick = |rng: &mut Rng, pool: &Vec<D>| -> usize {
                if rng.chance(3, 5) {
                    rng.usize(base.min(pool.len()))
                } else {
                    rng.usize(pool.len())
                }
            };
            // lists repeat entries often (a repeated entry counts twice)
            let list = |rng: &mut Rng, pool: &Vec<D>, max: usize| -> Vec<usize> {
                let mut v: Vec<usize> = Vec::new();
                for _ in 0..rng.usize(max + 1) {
                    if !v.is_empty() && rng.chance(1, 3) {
                        let again = v[rng.usize(v.len())];
                        v.push(again);
                    } else {
                        v.push(pick(rng, pool));
                    }
                }
                v
            };
            let op = match rng.below(15) {
                12 => Op::Retain(pick(&mut rng, &pool), rng.below(3) as u8),
                13 => Op::Clean(rng.usize(pool.len())),
                14 => Op::ExistsImpl(*rng.pick(&labels), pick(&mut rng, &pool)),
                0 | 1 => Op::Bin(BIN[rng.usize(BIN.len())], pick(&mut rng, &pool), pick(&mut rng, &pool)),
                2 => Op::Ite(pick(&mut rng, &pool), pick(&mut rng, &pool), pick(&mut rng, &pool)),
                3 => Op::Not(pick(&mut rng, &pool)),
                4 => Op::Exists((0..rng.usize(3)).map(|_| *rng.pick(&labels)).collect(), pick(&mut rng, &pool)),
                5 => Op::All((0..rng.usize(3)).map(|_| *rng.pick(&labels)).collect(), pick(&mut rng, &pool)),
                6 | 7 | 8 => {
                    let xs = list(&mut rng, &pool, 5);
                    let n = rng.range(-1, xs.len() as i64 + 1);
                    Op::CountConst(["aln", "amn", "exn"][rng.usize(3)], xs, n)
                }
                9 => {
                    let xs = list(&mut rng, &pool, 4);
                    let mut ys = list(&mut rng, &pool, 4);
                    if !xs.is_empty() && rng.chance(1, 3) {
                        ys.push(xs[rng.usize(xs.len())]); // the lists share entries
                    }
                    Op::CountList(["leq", "lt", "geq", "gt", "eq"][rng.usize(5)], xs, ys)
                }
                10 => Op::Model(pick(&mut rng, &pool)),
                _ => Op::Fp(pick(&mut rng, &pool), pick(&mut rng, &pool), pick(&mut rng, &pool)),
            };
            done.push(format!("{:?}", op));
            st.evals += 1;
            st.bump("api_soup_calls");
            let case = || json!({"kind": "api-soup", "labels": labels.iter().map(|x| x.to_string()).collect::<Vec<_>>(), "variable_order_in_pool": order.iter().map(|x| x.to_string()).collect::<Vec<_>>(), "ops": done, "seed": ctx.seed, "job": job, "sequence": seq, "len": len});
            util::budget(50_000_000, 10_000);
            let r = match guarded(|| apply(&env, &op, &|i| Rc::clone(&pool[i]))) {
                Ok((Some(r), _)) => r,
                Ok((None, _)) => continue,
                Err(c) => {
                    st.bump(&format!("api_soup_panic[{}](not judged here)", c.signature()));
                    break;
                }
            };
            // the mirrored spelling of a list comparison is the same function: same diagram
            if let Op::CountList(k, xs, ys) = &op {
                let mirrored = Op::CountList(match *k { "leq" => "geq", "lt" => "gt", "geq" => "leq", "gt" => "lt", _ => "eq" }, ys.clone(), xs.clone());
                if let Ok((Some(r2), _)) = guarded(|| apply(&env, &mirrored, &|i| Rc::clone(&pool[i]))) {
                    st.bump("mirrored_list_comparisons");
                    if r2.as_ref() != r.as_ref() {
                        st.violate("c02.canonical", "C02:api:CountList:mirrored-differs".into(), format!("{:?} gives {} but the mirrored call {:?} gives {}\n operands: {:?}", op, short(&r), mirrored, short(&r2), super::c13_operands_short(&op, &pool)), case());
                        break;
                    }
                }
            }
            match check_ordered_reduced(&r) {
                Ok(k) => st.add("nodes_walked", k),
                Err(m) => {
                    st.violate("c02.walker", format!("C02:api:{}:not-ordered-reduced", done.last().unwrap().split('(').next().unwrap_or("?")), format!("{} in the result of {}: {}\n operands: {:?}", m, done.last().unwrap(), short(&r), super::c13_operands_short(&op, &pool)), case());
                    break;
                }
            }
            if let Ok(t) = tt_of_bdd(&r, labels.len() as u32, &idx) {
                let reference = build_ref(&t, &vars);
                if r.as_ref() != reference.as_ref() || r.get_hash() != reference.get_hash() {
                    st.violate("c02.canonical", format!("C02:api:{}:not-canonical", done.last().unwrap().split('(').next().unwrap_or("?")), format!("result of {} is {} but the canonical diagram of the function it denotes is {}", done.last().unwrap(), short(&r), short(&reference)), case());
                    break;
                }
                if !t.is_const() {
                    st.nt.insert(mix(mix(t.hash64(), util::hash_str(done.last().unwrap())), nv as u64));
                }
            }
            pool.push(r);
        }
    }
    st
}

/// Routes to one function through quantifiers on BIG diagrams: f = if x0 then parity(x1..xk) else
/// (x1 & s) — the then-branch is a wide block that does not mention s, the bound variable sits
/// behind it. `exists [s]`, `exists_impl s`, `all [s]` and the direct constructions must meet in
/// one diagram each (equal, equal hash).
fn big_diagram_routes(st: &mut Stats, k: usize) {
    let env: BDDEnv<usize> = BDDEnv::new();
    util::budget(u64::MAX, 1000);
    let s = 500usize;
    let parity = (1..=k).rev().fold(env.mk_const(false), |acc, i| env.xor(env.var(i), acc));
    for (shape, f, by_exists, by_all) in [
        ("then-branch", env.ite(env.var(0), Rc::clone(&parity), env.and(env.var(1), env.var(s))), env.ite(env.var(0), Rc::clone(&parity), env.var(1)), env.and(env.var(0), Rc::clone(&parity))),
        ("else-branch", env.ite(env.var(0), env.or(env.var(2), env.var(s)), Rc::clone(&parity)), env.ite(env.var(0), env.mk_const(true), Rc::clone(&parity)), env.ite(env.var(0), env.var(2), Rc::clone(&parity))),
    ] {
        st.evals += 1;
        st.bump("route_quantifiers-on-big-diagrams");
        let case = json!({"kind": "big-diagram", "k": k, "shape": shape});
        let routes: Vec<(&str, D, &D)> = vec![("exists([s], f)", env.exists(vec![s], Rc::clone(&f)), &by_exists), ("exists_impl(s, f)", env.exists_impl(&s, Rc::clone(&f)), &by_exists), ("all([s], f)", env.all(vec![s], Rc::clone(&f)), &by_all), ("exists([s, s], f)", env.exists(vec![s, s], Rc::clone(&f)), &by_exists)];
        let mut ok = true;
        for (name, got, want) in routes {
            if got.as_ref() != want.as_ref() || got.get_hash() != want.get_hash() {
                st.violate("c02.canonical", "C02:big-diagram:routes-differ".into(), format!("f = if x0 then .. else .. with a parity of {} variables on the {}: {} and the direct construction of the same function are different diagrams (the result still tests s: {})", k, shape, name, crate::conv::labels_of(&got).contains(&s)), case.clone());
                ok = false;
                break;
            }
        }
        if ok {
            st.nt.insert(mix(0xb19d, k as u64 * 2 + (shape == "then-branch") as u64));
        }
    }
}

pub fn run(ctx: &Ctx) -> (Stats, Spec) {
    let mut st = Stats::new();
    for k in ctx.tier.pick(vec![13usize, 14], vec![12, 13, 14, 15, 16]) {
        super::common::engine_block(&mut st, "C02", "big-diagram", |s| big_diagram_routes(s, k));
    }
    let (seqs, slen) = ctx.tier.pick((400u64, 40usize), (20_000u64, 60usize));
    let parts = super::common::with_stderr_gagged(|| util::par_jobs(16, |job| api_soup_job(ctx, job, seqs, slen)));
    st.merge(crate::report::merge_all(parts));
    let wide_iters = ctx.tier.pick(400u64, 8_000u64);
    let parts = util::par_jobs(16, |job| {
        let mut s = super::wide::wide_job(ctx, "C02", job, wide_iters);
        // one environment in which kept functions meet another operation exactly 65 536 (256)
        // operations after the last one (see c13.rs::periodic_revisit_job)
        if job == 0 {
            s.merge(super::c13::periodic_revisit_job(ctx, "C02", 65_536, 3));
        }
        if job == 1 {
            s.merge(super::c13::periodic_revisit_job(ctx, "C02", 256, 30));
        }
        s
    });
    st.merge(crate::report::merge_all(parts));
    // all 256 functions over 3 variables, both families
    let parts = util::par_jobs(2 * 8, |job| exhaustive_job(3, job / 8, job % 8, 8, 1));
    st.merge(crate::report::merge_all(parts));
    st.exhaustive.push("all 256 functions over 3 variables x 18 construction routes x 2 label families (+ formula-text route)".into());
    // functions over 4 variables: quick = every 16th (4096 per family), thorough = all 65 536
    let stride = ctx.tier.pick(2u64, 1u64);
    let parts = util::par_jobs(2 * 16, |job| exhaustive_job(4, job / 16, job % 16, 16, stride));
    st.merge(crate::report::merge_all(parts));
    if stride == 1 {
        st.exhaustive.push("all 65 536 functions over 4 variables x 18 routes x 2 label families".into());
    }
    let iters = ctx.tier.pick(1_000u64, 40_000u64);
    let parts = util::par_jobs(16, |job| random_job(ctx, job, iters));
    st.merge(crate::report::merge_all(parts));

    let spec = Spec {
        rule: "each Boolean function (all over 3 variables; every 2nd [quick] / all [thorough] over 4; random over 5-7 sparse labels incl. usize::MAX) is built by 18 independent routes through the public API (operands from another environment handed to an operation [or, absorption, ite], mk_choice, DNF, CNF, Shannon/ite, xor detour, double negation, absorption, De Morgan via nor/nand, quantifier detour, counting detour, fixed-point detour (also with the bound name in the left / right list of counting comparisons), model of minterms, retain(Any)+clean, operand-order split) alternating between two environments, plus the formula language; and random sequences of API calls (connectives, ite, quantifiers, counting over lists of plain variables in arbitrary order and compound operands, model, fp, retain, clean, exists_impl) whose every result is compared with the canonical diagram of its own truth table; distinct = (table, route, family); non-trivial = non-constant table with >= 2 support variables. MANY VARIABLES: the same judgement on environments with 65-200 variables (more than a machine word of them), where operands are random DNFs and results are compared pointwise on 48 sampled assignments per case (biased towards the operands' cubes) and walked for order / reduction.".into(),
        assumptions: vec![
            "'hash equal' is demanded only in the direction same function => same hash; collisions between different functions are counted, not reported".into(),
            "FxHash collisions on usize labels are not constructed here; hash-for-equality confusions are exercised through a constant-hash symbol type in C03 / C04 / C05 / C06 / C07 / C20".into(),
            "variables > 7 and histories longer than one function's routes are outside this check (C13 covers long histories)".into(),
        ],
        floors: vec![
            ("many_variable_cases".into(), 1_000, "environments with more than 64 variables never exercised".into()),
            ("route_quantifier-detour".into(), 500, "quantifier route never exercised".into()),
            ("route_fixpoint-detour".into(), 500, "fixed-point route never exercised".into()),
            ("route_formula-text".into(), 200, "formula-text route never exercised".into()),
            ("api_soup_calls".into(), 50_000, "API sequences hardly exercised".into()),
            ("nodes_walked".into(), 10_000, "walker saw too few nodes".into()),
            ("distinct_nontrivial".into(), 5_000, "too few non-trivial cases".into()),
        ],
    };
    (st, spec)
}

pub fn replay(_ctx: &Ctx, _monitor: &str, case: &Value, st: &mut Stats) {
    if case.get("kind").and_then(|k| k.as_str()) == Some("wide") {
        super::wide::replay_wide(_ctx, "C02", case, st);
        return;
    }
    if case.get("kind").and_then(|k| k.as_str()) == Some("periodic") {
        let g = |k: &str| case.get(k).and_then(|j| j.as_u64()).unwrap_or(0);
        let mut c2 = _ctx.clone();
        c2.seed = g("seed");
        st.merge(super::c13::periodic_revisit_job(&c2, "C02", g("period").max(2) as usize, g("rounds").max(2) as usize));
        return;
    }
    if case.get("kind").and_then(|k| k.as_str()) == Some("api-soup") {
        // deterministic: re-run the recorded job's stream (same seed, job) — the sequence is found again
        let job = case.get("job").and_then(|j| j.as_u64()).unwrap_or(0) as usize;
        let seq = case.get("sequence").and_then(|j| j.as_u64()).unwrap_or(0);
        let mut c2 = _ctx.clone();
        c2.seed = case.get("seed").and_then(|j| j.as_u64()).unwrap_or(_ctx.seed);
        let len = case.get("len").and_then(|j| j.as_u64()).unwrap_or(40) as usize;
        let s2 = super::common::with_stderr_gagged(|| api_soup_job(&c2, job, seq + 1, len));
        st.merge(s2);
        return;
    }
    let Some(t) = case.get("table").and_then(|v| v.as_str()).and_then(Tt::parse_hex) else { return };
    if matches!(case.get("route").and_then(|r| r.as_str()), Some("formula-text") | Some("definitions")) {
        text_route(st, &t, t.n);
        return;
    }
    let labels: Vec<usize> = case.get("labels").and_then(|u| u.as_array()).map(|a| a.iter().filter_map(|x| x.as_str().and_then(|s| s.parse().ok())).collect()).unwrap_or_default();
    let spare: usize = case.get("spare").and_then(|s| s.as_str()).and_then(|s| s.parse().ok()).unwrap_or(usize::MAX - 7);
    let salt = case.get("salt").and_then(|s| s.as_u64()).unwrap_or(0);
    let route = case.get("route").and_then(|r| r.as_str()).unwrap_or("");
    let routes: Vec<&str> = ROUTES.iter().filter(|r| **r == route).copied().collect();
    let routes = if routes.is_empty() { ROUTES.to_vec() } else { routes };
    let env = BDDEnv::new();
    let other = BDDEnv::new();
    // try every environment alternation so that the recorded one is among them
    for s in 0..3 {
        check_function(st, &env, &other, &t, &labels, spare, "replay", &routes, &mut HashMap::new(), &mut HashMap::new(), salt + s);
    }
}
