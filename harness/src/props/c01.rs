//! C01 — evaluating a formula yields exactly its documented truth function.
//!
//! Monitor: text -> reference tokens -> reference tree -> reference truth table, versus
//! text -> ParsedFormula::new -> eval() -> the diagram walked under every assignment BY NAME.
//! The ground truth is always the reference parse of the very text handed to the engine.

use super::common::*;
use crate::conv::{short, tt_of_named};
use crate::gen::{self, GenCfg, Style};
use crate::refsem::{self, EvalError, Sem};
use crate::refsyn::{self, Ast};
use crate::report::{Ctx, Spec, Stats};
use crate::util::{self, mix, Caught, Rng};
use rsbdd::bdd::BDD;
use serde_json::{json, Value};

const STEP_CAP: u64 = 3_000_000;

pub fn nontrivial(ast: &Ast, table_const: bool) -> bool {
    ast.op_count() >= 2 && (!table_const || ast.has_kind(&|a| matches!(a, Ast::Quant(..) | Ast::Fix(..) | Ast::CountConst(..) | Ast::CountList(..))))
}

/// Judge one text. Returns false when the case was not judged (skipped).
pub fn check_text(st: &mut Stats, text: &str, origin: &str) -> bool {
    check_text_ordered(st, text, origin, &[])
}

/// `ordering`: variable ordering handed to `ParsedFormula::new` (name, id) — ids need not be
/// dense, need not start at 0 and need not cover the formula's names; empty = none.
pub fn check_text_ordered(st: &mut Stats, text: &str, origin: &str, ordering: &[(String, usize)]) -> bool {
    st.evals += 1;
    let case = || json!({"text": text, "origin": origin, "ordering": ordering});
    let syms: Option<Vec<rsbdd::NamedSymbol>> = if ordering.is_empty() { None } else { Some(ordering.iter().map(|(n, id)| rsbdd::NamedSymbol { name: std::rc::Rc::new(n.clone()), id: *id }).collect()) };
    if syms.is_some() {
        st.bump("evaluated_under_an_api_ordering");
    }
    let ast = match refsyn::parse_text(text) {
        Ok(a) => a,
        Err(_) => {
            st.bump("not_a_sentence(skipped)");
            return false;
        }
    };
    if ast.has_kind(&|a| matches!(a, Ast::Ref(_))) {
        st.bump("contains_reference(skipped)");
        return false;
    }
    if ast.has_kind(&|a| matches!(a, Ast::CountConst(_, _, n) if *n >= (1u64 << 31))) {
        st.bump("huge_constant(C05's business, skipped)");
        return false;
    }
    let names = ast.names_in_text_order();
    if names.len() > 16 {
        st.bump("too_many_names(skipped)");
        return false;
    }
    let mut sem = Sem::new(&names);
    let want = match sem.eval(&ast) {
        Ok(t) => t,
        Err(EvalError::NonConvergent) => {
            st.bump("non_convergent_fixed_point(skipped: engine may legitimately loop)");
            return false;
        }
        Err(EvalError::UnknownName(_)) => unreachable!(),
    };
    let fp_cap = sem.fp_iters * 4 + 64;
    match engine_eval(text.as_bytes(), syms, STEP_CAP, fp_cap) {
        EngineOut::Rejected(e) => {
            st.violate("c01.accepts-sentences", "C01:rejects-well-formed".into(), format!("well-formed formula rejected: `{}`\n error: {}\n reference tree: {:?}", text, e, ast), case());
        }
        EngineOut::ParsePanic(c) => {
            st.violate("c01.panic", format!("C01:parse-{}", c.signature()), format!("`{}`: {:?}", text, c), case());
        }
        EngineOut::EvalCaught(_, Caught::Budget("steps")) => {
            st.bump("step_budget_exceeded(inconclusive case)");
            return false;
        }
        EngineOut::EvalCaught(_, Caught::Budget(_)) => {
            st.violate(
                "c01.terminates",
                "C01:fixed-point-does-not-converge".into(),
                format!("`{}`: the reference converges after {} fixed-point iterations in total, the engine exceeded {}", text, sem.fp_iters, fp_cap),
                case(),
            );
        }
        EngineOut::EvalCaught(_, c) => {
            st.violate("c01.panic", format!("C01:eval-{}", c.signature()), format!("`{}`: {:?}", text, c), case());
        }
        EngineOut::Ok(ev) => {
            st.add("mk_choice_steps", ev.steps);
            st.add("fixed_point_iterations", ev.fp_iters);
            if ev.ast != ast {
                st.bump("tree_differs_from_reference(C08's business; semantics still judged)");
            }
            match tt_of_named(&ev.result, &names) {
                Ok(got) => {
                    if got != want {
                        let a = got.xor(&want).first_one().unwrap_or(0);
                        let asg: Vec<String> = names.iter().enumerate().map(|(i, n)| format!("{}={}", n, (a >> i) & 1)).collect();
                        st.violate(
                            "c01.semantics",
                            format!("C01:wrong-value:{}", root_kind(&ast)),
                            format!("`{}`\n under {} the formula is {} but the diagram says {}\n diagram: {}\n reference tree: {:?}", text, asg.join(" "), want.get(a), got.get(a), short(&ev.result), ast),
                            case(),
                        );
                    } else {
                        let leaf_ok = (want.is_true() == matches!(ev.result.as_ref(), BDD::True)) && (want.is_false() == matches!(ev.result.as_ref(), BDD::False));
                        if !leaf_ok {
                            st.violate("c01.constant-leaf", "C01:valid-or-unsat-not-leaf".into(), format!("`{}` is {} but the answer is {}", text, if want.is_true() { "valid" } else { "unsatisfiable" }, short(&ev.result)), case());
                        }
                    }
                }
                Err(e) => st.violate("c01.semantics", "C01:foreign-variable".into(), format!("`{}`: {}", text, e), case()),
            }
            ast.visit(&mut |n| st.bump(&format!("node_{}", n.kind_name())));
            st.max("max_names", names.len() as u64);
            st.max("max_operator_nodes", ast.op_count() as u64);
            if nontrivial(&ast, want.is_const()) {
                let mut h = 0u64;
                ast.visit(&mut |n| {
                    h = mix(h, util::hash_str(n.kind_name()));
                    if let Ast::Var(v) = n {
                        h = mix(h, util::hash_str(v));
                    }
                    if let Ast::CountConst(_, _, c) = n {
                        h = mix(h, *c);
                    }
                });
                st.nt.insert(h);
            }
            if want.is_true() {
                st.bump("valid_formulas");
            } else if want.is_false() {
                st.bump("unsatisfiable_formulas");
            }
            if st.want_sample() && ast.op_count() >= 4 && st.evals % 1009 == 17 {
                st.sample(json!({"text": text, "names": names, "table": want.hex(), "diagram": short(&ev.result)}));
            }
            return true;
        }
    }
    true
}

fn root_kind(a: &Ast) -> &'static str {
    // the innermost-most-suspicious classification is not knowable; use the set of "rare" kinds present
    let mut k = a.kind_name();
    let rare = ["nor", "nand", "impliesinv", "xor", "lfp", "gfp", "count<n", "count>n", "count<list", "count>list", "count=list", "count<=list", "count>=list", "ite", "forall", "exists"];
    a.visit(&mut |n| {
        if rare.contains(&n.kind_name()) && !rare.contains(&k) {
            k = n.kind_name();
        }
    });
    k
}

fn random_job(ctx: &Ctx, job: usize, iters: u64, max_names: usize, depth: u32) -> Stats {
    let mut st = Stats::new();
    let mut rng = Rng::stream(ctx.seed, "C01.random", job as u64);
    for it in 0..iters {
        let fancy_names = rng.chance(1, 4);
        let pool: &[&str] = if fancy_names { &gen::FANCY_NAMES } else if rng.chance(1, 10) { gen::rare_pool(rng.next() as u64) } else { &gen::PLAIN_NAMES };
        let k = 1 + rng.usize(max_names.min(pool.len()));
        let mut names: Vec<&str> = pool.to_vec();
        rng.shuffle(&mut names);
        names.truncate(k);
        let mut cfg = GenCfg::simple(&names, depth);
        // profiles: connective-heavy, binder-heavy, counting-heavy
        match it % 4 {
            0 => cfg.binder_weight = 5,
            1 => cfg.binder_weight = 35,
            2 => {
                cfg.max_list = 4;
                cfg.binder_weight = 10;
            }
            _ => {}
        }
        if k > 5 {
            cfg.max_fix_depth = 1;
        }
        let ast = gen::gen_ast(&mut rng, &cfg);
        let style = if rng.chance(1, 5) { Style::Plain } else { Style::Fancy };
        let mut text = gen::render(&ast, &mut rng, style);
        if it % 500 == 7 {
            // beyond any I/O buffer: pad with a big comment / whitespace in front of or behind the formula
            let big = 9_000 + rng.usize(40_000);
            text = if rng.chance(1, 2) { format!("\"{}\"\n{}", "pad ".repeat(big / 4), text) } else { format!("{}{}\"tail\"", text, "\n ".repeat(big / 2)) };
            st.bump("large_texts");
        }
        if it % 6 == 5 {
            // an ordering through the API: a shuffled subset of the names (and a stranger) with
            // increasing but sparse ids that need not start at 0
            let mut ord_names: Vec<String> = names.iter().filter(|_| rng.chance(2, 3)).map(|s| s.to_string()).collect();
            if rng.chance(1, 3) {
                ord_names.push("stranger".into());
            }
            rng.shuffle(&mut ord_names);
            let mut id = rng.usize(3);
            let mut ordering: Vec<(String, usize)> = ord_names.into_iter().map(|n| { let cur = id; id += 1 + rng.usize(3) * rng.usize(2); (n, cur) }).collect();
            // (the vector need not be sorted by id either)
            if rng.chance(1, 2) {
                rng.shuffle(&mut ordering);
            }
            check_text_ordered(&mut st, &text, "random+ordering", &ordering);
        } else {
            check_text(&mut st, &text, "random");
        }
    }
    st
}

fn exhaustive_job(job: usize, jobs: usize, k: usize) -> Stats {
    let mut st = Stats::new();
    let trees = enum_trees(k);
    for (i, t) in trees.iter().enumerate() {
        if i % jobs != job {
            continue;
        }
        let text = gen::render_plain(t);
        if check_text(&mut st, &text, "exhaustive") {
            st.bump(&format!("exhaustive_trees_{}_ops", k));
        }
    }
    st
}

/// Every tree with `k` operator nodes over {a, b} as BODY of `lfp a #` / `gfp a #` (monotone or
/// not): whatever iteration the reference finds convergent must come out with the reference's
/// value — "repeatedly apply until stable" — also when the iterates pass through a constant.
fn exhaustive_fix_job(job: usize, jobs: usize, k: usize, stride: usize) -> Stats {
    let mut st = Stats::new();
    let trees = enum_trees(k);
    for (i, t) in trees.iter().enumerate() {
        if i % jobs != job || (i / jobs) % stride != 0 {
            continue;
        }
        let body = gen::render_plain(t);
        for kw in ["lfp", "gfp"] {
            let text = format!("{} a # ({})", kw, body);
            if check_text(&mut st, &text, "exhaustive-fixed-point-bodies") {
                st.bump(&format!("exhaustive_fixed_point_bodies_{}_ops", k));
            }
        }
    }
    st
}

/// FUNCTION-SPACE COUNTERS: X holds a counter in its truth vector over n variables (bit j = the
/// value of X at assignment j, read as `exists vars # (minterm_j & X)`); each round adds one until
/// the vector equals a given pattern. The iteration converges after `pattern` rounds — up to 15
/// for two variables, 255 for three — far more than 2^n: it is not monotone, and "repeatedly apply
/// until stable" is all the meaning of a fixed point promises.
pub fn counter_text(n: usize, pattern: usize, gfp: bool) -> String {
    let vars: Vec<&str> = ["a", "b", "c"][..n].to_vec();
    let all = vars.join(", ");
    let bits = 1usize << n;
    let minterm = |k: usize| -> String { format!("({})", (0..n).map(|i| if (k >> i) & 1 == 1 { vars[i].to_string() } else { format!("-{}", vars[i]) }).collect::<Vec<_>>().join(" & ")) };
    // for gfp the vector is stored complemented (start: all ones = counter 0)
    let bit = |j: usize| -> String { if gfp { format!("-(exists {} # ({} & X))", all, minterm(j)) } else { format!("(exists {} # ({} & X))", all, minterm(j)) } };
    let done: Vec<String> = (0..bits).map(|j| if (pattern >> j) & 1 == 1 { bit(j) } else { format!("-{}", bit(j)) }).collect();
    let not_done = format!("-({})", done.join(" & "));
    let parts: Vec<String> = (0..bits)
        .map(|j| {
            let carry = if j == 0 { "true".to_string() } else { format!("({})", (0..j).map(bit).collect::<Vec<_>>().join(" & ")) };
            let next = format!("({} ^ ({} & {}))", bit(j), carry, not_done);
            if gfp { format!("({} & -{})", minterm(j), next) } else { format!("({} & {})", minterm(j), next) }
        })
        .collect();
    format!("{} X # {}", if gfp { "gfp" } else { "lfp" }, parts.join(" | "))
}

fn examples(ctx: &Ctx, st: &mut Stats) {
    // the repository's own example formulas that are small enough for truth tables
    for f in ["examples/4_queens.txt", "examples/fixedpoint.txt", "examples/fp.txt", "examples/state_machine.txt", "examples/cliques.txt", "examples/graph_coloring.txt"] {
        let p = ctx.repo_dir.join(f);
        if let Ok(text) = std::fs::read_to_string(&p) {
            if check_text(st, &text, f) {
                st.bump("repository_examples_judged");
            }
        }
    }
    for k in 1..=8usize {
        for variant in 0..4usize {
            if check_text(st, &super::c09::closed_inner_fixed_points_text(k, variant), "closed-inner-fixed-points") {
                st.bump("closed_inner_fixed_points_in_an_iterated_outer_one");
            }
        }
    }
    for (n, pattern) in [(1usize, 3usize), (1, 2), (2, 15), (2, 9), (2, 8), (2, 6), (3, 255), (3, 200), (3, 37)] {
        for gfp in [false, true] {
            if check_text(st, &counter_text(n, pattern, gfp), "function-space-counter") {
                st.bump("function_space_counters");
            }
        }
    }
    for t in [
        "gfp X # X", "lfp X # X", "nu X # X", "mu X # X", "gfp X # a", "lfp X # a", "gfp X # true", "lfp X # false", "if a then b else c", "if exists a # a <=> b then b <=> c else false | c",
        "forall a, b # exists c # (c | a) & (c | b)", "[a, b, c] = 1", "[a, b, c] < [d, e, f]", "([a1,a2,a3,a4] >= [b1,b2,b3,b4] & [b1,b2,b3,b4] >= [c1,c2,c3,c4]) => [a1,a2,a3,a4] >= [c1,c2,c3,c4]",
        "a nor b", "a nand b", "a <= b", "a in b", "a eq b", "[] = 0", "[] > 0", "[a] < 0", "[a, a] = 1", "exists # a", "forall a, # a",
    ] {
        check_text(st, t, "readme");
    }
}

pub fn run(ctx: &Ctx) -> (Stats, Spec) {
    let mut st = Stats::new();
    for k in 0..=2usize {
        let parts = util::par_jobs(64, |job| exhaustive_job(job, 64, k));
        st.merge(crate::report::merge_all(parts));
    }
    st.exhaustive.push("all formula trees with <= 2 operator nodes over the names a, b (every node kind; lists <= 2 elements, constants <= 2)".into());
    for k in 0..=2usize {
        let parts = util::par_jobs(64, |job| exhaustive_fix_job(job, 64, k, 1));
        st.merge(crate::report::merge_all(parts));
    }
    // quantifiers INSIDE a fixed point that reach their variable only through the fixed-point
    // variable, the same name being bound again outside
    {
        let mut rng = Rng::stream(ctx.seed, "C01.innerquant", 0);
        let cfg = { let mut c = GenCfg::simple(&["a", "b", "c"], 2); c.allow_fix = false; c };
        for i in 0..ctx.tier.pick(600u64, 10_000u64) {
            let g = gen::render(&gen::gen_ast(&mut rng, &cfg), &mut rng, Style::Plain);
            let v = *rng.pick(&["a", "b", "c"]);
            let (fix, op) = *rng.pick(&[("lfp", "|"), ("gfp", "&"), ("mu", "or"), ("nu", "and")]);
            let (q1, q2) = (*rng.pick(&["forall", "exists"]), *rng.pick(&["exists", "forall", "any", "all"]));
            let text = match i % 3 {
                0 => format!("{} {} # ({} X # (({}) {} {} {} # X))", q1, v, fix, g, op, q2, v),
                1 => format!("{} {} # (({} <=> c) & {} X # (({}) {} ({} & {} {} # X)))", q1, v, v, fix, g, op, v, q2, v),
                _ => format!("{} {}, b # ({} X # (({}) {} {} b, {} # (X {} a)))", q1, v, fix, g, op, q2, v, op),
            };
            if check_text(&mut st, &text, "inner-quantifier-over-the-fixed-point-variable") {
                st.bump("inner_quantifier_over_the_fixed_point_variable");
            }
        }
    }
    // sampled bodies with 3 operator nodes: a 2-node tree under one more node
    let wrapped = ctx.tier.pick(2_000u64, 60_000u64);
    let parts = util::par_jobs(16, |job| {
        let mut s = Stats::new();
        let mut rng = Rng::stream(ctx.seed, "C01.fixbodies", job as u64);
        let (small, trees) = (enum_trees(1), enum_trees(2));
        for _ in 0..wrapped {
            let t = rng.pick(&trees).clone();
            let other = rng.pick(&small).clone();
            let body = match rng.below(6) {
                0 => Ast::Not(Box::new(t)),
                1 => Ast::Quant(rng.chance(1, 2), vec![rng.pick_str(&["a", "b"]).to_string()], Box::new(t)),
                2 => Ast::Bin(*rng.pick(&refsyn::ALL_OPS), Box::new(t), Box::new(other)),
                3 => Ast::Bin(*rng.pick(&refsyn::ALL_OPS), Box::new(other), Box::new(t)),
                4 => Ast::Ite(Box::new(other), Box::new(t), Box::new(Ast::Var("a".into()))),
                _ => Ast::Quant(rng.chance(1, 2), vec!["b".into(), "a".into()], Box::new(t)),
            };
            let text = format!("{} a # ({})", if rng.chance(1, 2) { "lfp" } else { "gfp" }, gen::render_plain(&body));
            if check_text(&mut s, &text, "sampled-fixed-point-bodies") {
                s.bump("sampled_fixed_point_bodies_3+_ops");
            }
        }
        s
    });
    st.merge(crate::report::merge_all(parts));
    // NESTED fixed points of one kind (also of both kinds) whose inner body mentions the outer
    // variable: the inner one is solved again in every round of the outer one, from its constant.
    // Arbitrary connectives — whatever nest the reference iteration finds convergent is judged.
    let nests = ctx.tier.pick(12_000u64, 200_000u64);
    let parts = util::par_jobs(16, |job| {
        let mut s = Stats::new();
        let mut rng = Rng::stream(ctx.seed, "C01.nests", job as u64);
        let mut outer_cfg = GenCfg::simple(&["X", "a", "HOLE", "b"], 2);
        outer_cfg.allow_fix = false;
        let mut inner_cfg = GenCfg::simple(&["X", "Y", "b", "a"], 2);
        inner_cfg.allow_fix = false;
        for _ in 0..nests {
            let has = |t: &str, name: &str| t.split(|c: char| !(c.is_alphanumeric() || c == '_')).any(|w| w == name);
            let (mut outer, mut inner) = (String::new(), String::new());
            for _ in 0..30 {
                outer = gen::render(&gen::gen_ast(&mut rng, &outer_cfg), &mut rng, Style::Plain);
                if has(&outer, "HOLE") {
                    break;
                }
            }
            for _ in 0..30 {
                inner = gen::render(&gen::gen_ast(&mut rng, &inner_cfg), &mut rng, Style::Plain);
                if has(&inner, "X") && has(&inner, "Y") {
                    break;
                }
            }
            if !has(&outer, "HOLE") || !has(&inner, "X") || !has(&inner, "Y") {
                continue;
            }
            let (k1, k2) = match rng.below(6) {
                0 | 1 => ("lfp", "lfp"),
                2 | 3 => ("gfp", "gfp"),
                4 => ("mu", "nu"),
                _ => ("gfp", "lfp"),
            };
            let nested = format!("({} Y # ({}))", k2, inner);
            let body: String = outer.split("HOLE").collect::<Vec<_>>().join(&nested);
            let text = format!("{} X # ({})", k1, body);
            if check_text(&mut s, &text, "nested-fixed-points-with-cross-dependency") {
                s.bump("nested_fixed_points_with_cross_dependency");
            }
        }
        s
    });
    st.merge(crate::report::merge_all(parts));
    st.exhaustive.push("every formula tree with <= 2 operator nodes over a, b as body of `lfp a #` and `gfp a #` (convergent ones judged, monotone or not)".into());
    let (iters, max_names, depth) = ctx.tier.pick((40_000u64, 6usize, 5u32), (1_500_000u64, 8usize, 6u32));
    let parts = util::par_jobs(16, |job| random_job(ctx, job, iters, max_names, depth));
    st.merge(crate::report::merge_all(parts));
    examples(ctx, &mut st);
    let mut floors = vec![
        ("distinct_nontrivial".to_string(), 20_000u64, "too few non-trivial formulas".to_string()),
        ("valid_formulas".to_string(), 100, "no valid formulas".to_string()),
        ("unsatisfiable_formulas".to_string(), 100, "no unsatisfiable formulas".to_string()),
    ];
    for kind in ["not", "and", "or", "xor", "nor", "nand", "implies", "impliesinv", "iff", "ite", "exists", "forall", "lfp", "gfp", "count<=n", "count<n", "count>=n", "count>n", "count=n", "count<=list", "count<list", "count>=list", "count>list", "count=list"] {
        floors.push((format!("node_{}", kind), 200, format!("construct {} hardly exercised", kind)));
    }
    let spec = Spec {
        rule: "random formula trees over 1-6 [quick] / 1-8 [thorough] names (plain and non-ASCII/primed names) with every construct, rendered with random alias spellings, whitespace, comments, stray separators and redundant parentheses; exhaustive small trees, also as bodies of lfp / gfp (every tree with <= 2 operator nodes, sampled ones with 3-4; non-monotone bodies included — whatever the reference iteration finds convergent is judged); README examples and the repository's example files. The expectation is the reference parse + truth-table semantics of the exact text given to the engine. distinct = hash of the reference tree (kinds, names, constants); non-trivial = >= 2 operator nodes and (non-constant table or a binder/counting/fixed-point node).".into(),
        assumptions: vec![
            "texts the reference does not accept are not judged here (C08); formulas with references or constants >= 2^31 are excluded (C05)".into(),
            "fixed points are handed to the engine only when the reference iteration converges within the lattice height; a case that exceeds the step budget is counted as inconclusive, never as a violation".into(),
        ],
        floors,
    };
    let judged = st.evals.max(1);
    if st.get("step_budget_exceeded(inconclusive case)") * 100 > judged {
        st.inconclusive("more than 1% of the cases exceeded the step budget".into());
    }
    (st, spec)
}

pub fn replay(_ctx: &Ctx, _monitor: &str, case: &Value, st: &mut Stats) {
    if let Some(t) = case.get("text").and_then(|t| t.as_str()) {
        let ordering: Vec<(String, usize)> = case.get("ordering").and_then(|o| o.as_array()).map(|a| a.iter().filter_map(|e| Some((e.get(0)?.as_str()?.to_string(), e.get(1)?.as_u64()? as usize))).collect()).unwrap_or_default();
        check_text_ordered(st, t, "replay", &ordering);
    }
}

#[allow(dead_code)]
pub fn eval_reference(text: &str) -> Option<(Vec<String>, crate::tt::Tt)> {
    let ast = refsyn::parse_text(text).ok()?;
    refsem::eval_formula(&ast).ok()
}
