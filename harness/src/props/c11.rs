//! C11 — variable ordering changes the shape of the answer, never its meaning; listed variables
//! are ordered as listed; `-r` fed back through `-o` reproduces the identical table.

use super::clitab::*;
use super::common::*;
use crate::conv::{check_ordered_reduced, labels_of, short, tt_of_named};
use crate::gen::{self, GenCfg, Style};
use crate::refsem::Sem;
use crate::refsyn::{self, Ast};
use crate::report::{Ctx, Spec, Stats};
use crate::util::{self, mix, Caught, Rng};
use rsbdd::NamedSymbol;
use serde_json::{json, Value};
use std::rc::Rc;

const STEP_CAP: u64 = 3_000_000;

/// API: ParsedFormula::new(text, Some(ordering)) — by-name meaning, ids as listed, diagram ordered by id
fn check_api(st: &mut Stats, text: &str, ordering: &[(String, usize)], origin: &str) {
    st.evals += 1;
    let case = || json!({"kind": "api", "text": text, "ordering": ordering, "origin": origin});
    let Ok(ast) = refsyn::parse_text(text) else { return };
    if ast.has_kind(&|a| matches!(a, Ast::Ref(_))) {
        return;
    }
    let names = ast.names_in_text_order();
    let mut sem = Sem::new(&names);
    let Ok(want) = sem.eval(&ast) else {
        st.bump("non_convergent(skipped)");
        return;
    };
    let fp_cap = sem.fp_iters * 4 + 64;
    let syms: Vec<NamedSymbol> = ordering.iter().map(|(n, id)| NamedSymbol { name: Rc::new(n.clone()), id: *id }).collect();
    // default order first
    let default = match engine_eval(text.as_bytes(), None, STEP_CAP, fp_cap) {
        EngineOut::Ok(ev) => ev,
        _ => {
            st.bump("default_order_run_not_ok(other properties' business)");
            return;
        }
    };
    let default_table = tt_of_named(&default.result, &names).ok();
    match engine_eval(text.as_bytes(), Some(syms), STEP_CAP, fp_cap) {
        EngineOut::Ok(ev) => {
            st.bump("api_orderings");
            match tt_of_named(&ev.result, &names) {
                Ok(got) => {
                    if Some(&got) != default_table.as_ref() {
                        st.violate("c11.meaning", "C11:api:differs-from-default-order".into(), format!("`{}` with ordering {:?} denotes table {} over {:?}; under the default order {:?}", text, ordering, got.hex(), names, default_table.as_ref().map(|t| t.hex())), case());
                    } else if got != want {
                        st.bump("both_orders_differ_from_reference(C01's business)");
                    }
                }
                Err(e) => st.violate("c11.meaning", "C11:api:foreign-variable".into(), format!("`{}` ordering {:?}: {}", text, ordering, e), case()),
            }
            // ids of listed variables are as listed; the diagram is ordered by id
            for l in labels_of(&ev.result) {
                if let Some((_, id)) = ordering.iter().rev().find(|(n, _)| n == l.name.as_ref()) {
                    if l.id != *id {
                        st.violate("c11.listed-order", "C11:api:listed-variable-renumbered".into(), format!("`{}`: variable {} was listed with id {} but the answer uses id {}", text, l.name, id, l.id), case());
                    }
                }
            }
            if let Err(m) = check_ordered_reduced(&ev.result) {
                st.violate("c11.listed-order", "C11:api:not-ordered-by-id".into(), format!("`{}` ordering {:?}: {} in {}", text, ordering, m, short(&ev.result)), case());
            }
            // the same two readings in ONE shared environment (default order first): the table is
            // printed by asking, for every node of the answer, which column its symbol belongs to —
            // a symbol is its id, whatever name an earlier formula gave that id
            if st.evals % 4 == 0 {
                let syms2: Vec<NamedSymbol> = ordering.iter().map(|(n, id)| NamedSymbol { name: Rc::new(n.clone()), id: *id }).collect();
                util::budget(STEP_CAP, fp_cap);
                let shared = util::guarded(|| -> std::io::Result<Option<String>> {
                    let env = Rc::new(rsbdd::bdd::BDDEnv::<NamedSymbol>::new());
                    let first = rsbdd::parser::ParsedFormula::new_with_env(Rc::clone(&env), &mut std::io::BufReader::new(text.as_bytes()), None)?;
                    let _ = first.eval();
                    let second = rsbdd::parser::ParsedFormula::new_with_env(Rc::clone(&env), &mut std::io::BufReader::new(text.as_bytes()), Some(syms2))?;
                    let d = second.eval();
                    for l in labels_of(&d) {
                        let Some(col) = second.free_vars.iter().position(|v| v.id == l.id) else { continue };
                        let got = second.to_free_index(&l);
                        if got != col {
                            return Ok(Some(format!("a node of the answer carries the symbol {}#{}; the variable with id {} is column {} ({}) of the table, to_free_index says {}", l.name, l.id, l.id, col, second.free_vars[col].name, got)));
                        }
                    }
                    Ok(None)
                });
                st.bump("shared_environment_readings");
                match shared {
                    Ok(Ok(Some(m))) => st.violate("c11.meaning", "C11:api:column-of-a-node-in-a-shared-environment".into(), format!("`{}` read under the default order and then under {:?} in ONE environment: {}", text, ordering, m), case()),
                    Err(Caught::Budget(_)) | Ok(_) => {}
                    Err(c) => st.violate("c11.panic", format!("C11:api:shared-env:{}", c.signature()), format!("`{}` ordering {:?}: {:?}", text, ordering, c), case()),
                }
            }
            let free = ast.free_names();
            let identity = ordering.iter().zip(names.iter()).all(|((n, _), m)| n == m) && ordering.windows(2).all(|w| w[0].1 < w[1].1);
            if free.len() >= 3 && !identity {
                let mut h = util::hash_str(text);
                for (n, id) in ordering {
                    h = mix(h, mix(util::hash_str(n), *id as u64));
                }
                st.nt.insert(h);
            }
            if st.want_sample() && free.len() >= 3 && st.evals % 997 == 3 {
                st.sample(json!({"text": text, "ordering": ordering, "diagram": short(&ev.result), "default_order_diagram": short(&default.result)}));
            }
        }
        EngineOut::EvalCaught(_, Caught::Budget(_)) => st.bump("budget_exceeded(inconclusive case)"),
        EngineOut::Rejected(e) => st.violate("c11.meaning", "C11:api:rejected-with-ordering".into(), format!("`{}` accepted without ordering, rejected with {:?}: {}", text, ordering, e), case()),
        EngineOut::EvalCaught(_, c) | EngineOut::ParsePanic(c) => st.violate("c11.panic", format!("C11:api:{}", c.signature()), format!("`{}` ordering {:?}: {:?}", text, ordering, c), case()),
    }
}

fn api_job(ctx: &Ctx, job: usize, iters: u64) -> Stats {
    let mut st = Stats::new();
    let mut rng = Rng::stream(ctx.seed, "C11.api", job as u64);
    for it in 0..iters {
        let pool: &[&str] = if it % 5 == 0 { &gen::FANCY_NAMES } else if it % 10 == 1 { gen::rare_pool(it / 16 as u64) } else { &gen::PLAIN_NAMES };
        let k = 3 + rng.usize(3);
        let mut names: Vec<&str> = pool.to_vec();
        rng.shuffle(&mut names);
        names.truncate(k);
        let mut cfg = GenCfg::simple(&names, 4);
        cfg.binder_weight = 10;
        cfg.max_fix_depth = 1;
        let ast = gen::gen_ast(&mut rng, &cfg);
        let text = gen::render(&ast, &mut rng, Style::Plain);
        let mut cand: Vec<String> = names.iter().map(|s| s.to_string()).collect();
        match rng.below(4) {
            0 => {}
            1 => cand.truncate(1 + rng.usize(cand.len())),
            2 => {
                cand.insert(0, "unused_a".into());
                cand.push("unused_z".into());
                let mid = rng.usize(cand.len());
                cand.insert(mid, "unused_m".into());
            }
            _ => {
                cand.truncate(1 + rng.usize(cand.len()));
                cand.push("unused_only".into());
            }
        }
        rng.shuffle(&mut cand);
        let mut ids: Vec<usize> = if rng.chance(1, 2) { (0..cand.len()).collect() } else { vec![0, 2, 3, 5, 8, 13, 40, 1000, 1 << 33, 7] };
        if rng.chance(1, 2) {
            rng.shuffle(&mut ids);
        }
        let ordering: Vec<(String, usize)> = cand.into_iter().zip(ids).collect();
        check_api(&mut st, &text, &ordering, "random");
    }
    st
}

fn gen_ordering_text(rng: &mut Rng, names: &[String]) -> String {
    let mut ns: Vec<String> = names.to_vec();
    rng.shuffle(&mut ns);
    match rng.below(5) {
        0 => {}
        1 => ns.truncate(1 + rng.usize(ns.len())),
        2 => {
            ns.insert(0, "unused_first".into());
            let mid = rng.usize(ns.len() + 1);
            ns.insert(mid, "unused_mid".into());
            ns.push("unused_last".into());
        }
        3 => {
            let d = ns[rng.usize(ns.len())].clone();
            ns.push(d.clone());
            ns.insert(0, d);
        }
        _ => {
            ns.truncate(1 + rng.usize(ns.len()));
            ns.insert(rng.usize(ns.len() + 1), "extra'".into());
        }
    }
    let sep = rng.pick_str(&["\n", " ", ", ", " ; ", "\r\n", " or ", " \"a comment\" ", " 7 ", " ) ", "\t", ",", ";", "\"c\"", " \"an old order:\na b c d e f\nhello_world x1\" ", "\n\"\nb a\n\"\n"]);
    ns.join(sep) + rng.pick_str(&["", "\n", " ;"])
}

fn cli_case(ctx: &Ctx, st: &mut Stats, text: &str, ordering: Option<String>, tag: &str) {
    // (1) table under the ordering, judged by name against the reference (order rule included)
    // (every third case is also benchmarked: -b 2 / -b 3 repeat the evaluation, they do not change the answer)
    let bench = match util::hash_str(text) % 3 { 0 => Some(2 + (text.len() % 2) as u32), _ => None };
    let inv = Inv { text: text.into(), ordering: ordering.clone(), t: true, r: true, channel: 1, b: bench, ..Default::default() };
    st.evals += 1;
    let Some(rf) = reference_for(&inv) else {
        st.bump("outside_reference(skipped)");
        return;
    };
    let out = invoke(ctx, &inv, &format!("{}-a", tag));
    if out.timed_out || out.budget_exceeded() {
        st.bump("out_of_budget(inconclusive case)");
        return;
    }
    let case = || json!({"kind": "cli", "text": text, "ordering": ordering});
    if !out.ok() {
        st.violate("c11.cli", format!("C11:cli:run-failed:{}", out.panic_site()), format!("{} failed: {}\n{}", inv.describe(), out.status_string(), out.stderr_str()), case());
        return;
    }
    let so = out.stdout_str();
    let parsed = match parse_stdout(&so, &inv) {
        Ok(p) => p,
        Err(e) => {
            st.violate("c11.cli", "C11:cli:unparsable-output".into(), format!("{}: {}\n{}", inv.describe(), e, so), case());
            return;
        }
    };
    st.bump("cli_orderings");
    let table = parsed.table.clone().unwrap();
    if let Err((sig, msg)) = judge_table(&table, &rf, "any", false) {
        st.violate("c11.cli", format!("C11:cli:meaning-changed:{}", sig), format!("{}: {}\n{}", inv.describe(), msg, so), case());
        return;
    }
    // listed variables are ordered as in the file (observable in the header and in the exported order)
    let listed: Vec<String> = ordering.as_deref().and_then(super::clitab::ordering_tokens).unwrap_or_default();
    if !super::clitab::respects_some_reading(&table.header, &listed) || !super::clitab::respects_some_reading(&parsed.exported, &listed) {
        st.violate("c11.cli", "C11:cli:listed-variables-not-in-file-order".into(), format!("{}: file lists {:?}; header {:?}; exported order {:?}", inv.describe(), listed, table.header, parsed.exported), case());
        return;
    }
    {
        let mut a = parsed.exported.clone();
        a.sort();
        let mut b = rf.all.clone();
        b.sort();
        if a != b {
            st.violate("c11.cli", "C11:cli:exported-order".into(), format!("{}: -r printed {:?}, the variables of the text are {:?}", inv.describe(), parsed.exported, rf.all), case());
            return;
        }
    }
    // (2) round trip: feed the exported order back
    let table_text: String = so.lines().filter(|l| l.starts_with('|')).collect::<Vec<_>>().join("\n");
    let back = Inv { text: text.into(), ordering: Some(parsed.exported.join("\n")), t: true, channel: 1, b: bench.map(|b| b + 1), ..Default::default() };
    st.evals += 1;
    let out2 = invoke(ctx, &back, &format!("{}-b", tag));
    if out2.timed_out || out2.budget_exceeded() {
        return;
    }
    st.bump("round_trips");
    let so2 = out2.stdout_str();
    let table_text2: String = so2.lines().filter(|l| l.starts_with('|')).collect::<Vec<_>>().join("\n");
    if !out2.ok() || table_text2 != table_text {
        st.violate(
            "c11.round-trip",
            "C11:cli:round-trip-differs".into(),
            format!("{}: exporting the order with -r and feeding it back with -o gives another table ({})\n--- first\n{}\n--- after round trip\n{}", inv.describe(), out2.status_string(), table_text, table_text2),
            case(),
        );
        return;
    }
    if rf.free.len() >= 3 && ordering.is_some() {
        st.nt.insert(mix(util::hash_str(text), util::hash_str(ordering.as_deref().unwrap_or(""))));
    }
    if st.want_sample() && rf.free.len() >= 3 && ordering.is_some() && st.evals % 31 == 1 {
        st.sample(json!({"text": text, "ordering_file": ordering, "exported": parsed.exported, "header": table.header}));
    }
}

fn cli_job(ctx: &Ctx, job: usize, iters: u64) -> Stats {
    let mut st = Stats::new();
    let mut rng = Rng::stream(ctx.seed, "C11.cli", job as u64);
    for i in 0..iters {
        let pool: &[&str] = if i % 4 == 0 { &gen::FANCY_NAMES } else if i % 4 == 1 { gen::rare_pool(i / 16 as u64) } else { &gen::PLAIN_NAMES };
        let k = 3 + rng.usize(3);
        let mut names: Vec<&str> = pool.to_vec();
        rng.shuffle(&mut names);
        names.truncate(k);
        let mut cfg = GenCfg::simple(&names, 4);
        cfg.binder_weight = 8;
        cfg.max_fix_depth = 1;
        let ast = gen::gen_ast(&mut rng, &cfg);
        let text = gen::render(&ast, &mut rng, Style::Plain);
        let all = ast.names_in_text_order();
        if all.is_empty() {
            continue;
        }
        let ordering = if i % 5 == 4 { None } else { Some(gen_ordering_text(&mut rng, &all)) };
        cli_case(ctx, &mut st, &text, ordering, &format!("{}-{}", job, i));
    }
    st
}

pub fn run(ctx: &Ctx) -> (Stats, Spec) {
    let (api, cli) = ctx.tier.pick((6_000u64, 250u64), (250_000u64, 4_000u64));
    let parts = util::par_jobs(16, |j| {
        let mut s = api_job(ctx, j, api);
        s.merge(cli_job(ctx, j, cli));
        s
    });
    let mut st = crate::report::merge_all(parts);
    let mut k = 0;
    for (text, ord) in [
        ("a & b", "x a b"), ("a & b", "b zz a"), ("(a ^ b) | c", "c\nq\nb"), ("a & b", "b b a a"), ("(a | b) & (c | d)", "d c b a"), ("(a | b) & (c | d)", "d, unused; b"), ("exists a # a & b & c", "a c b"), ("[a, b, c] = 2", "c"),
        ("(a & b) | (c & d) | (e & f)", "a c e b d f"), ("(a & b) | (c & d) | (e & f)", "f e d c b a zz"),
    ] {
        k += 1;
        cli_case(ctx, &mut st, text, Some(ord.into()), &format!("fixed-{}", k));
        let names = ord.split(|c: char| !(c.is_alphanumeric() || c == '_')).filter(|s| !s.is_empty()).map(|s| s.to_string()).collect::<Vec<_>>();
        let mut seen: Vec<String> = Vec::new();
        for n in names {
            if !seen.contains(&n) {
                seen.push(n);
            }
        }
        let ordering: Vec<(String, usize)> = seen.into_iter().enumerate().map(|(i, n)| (n, i * 3 + 1)).collect();
        check_api(&mut st, text, &ordering, "fixed");
    }
    let spec = Spec {
        rule: "API: random formulas over 3-5 names with an explicit NamedSymbol ordering (permutation, strict subset, superset with unused names before/between/after, dense or sparse unsorted distinct ids) compared by name with the default-order run; ids of listed variables must be as listed, unlisted ones above them, and the diagram ordered by id. CLI: ordering files (permutation / subset / superset / repeats, separators incl. newlines, commas, punctuation, keywords, comments, numbers) judged through the printed table (header = expected order, rows by name against the reference), then -r -> file -> -o round trip must reproduce the identical table. distinct = (formula, ordering); non-trivial = >= 3 free variables and a non-identity ordering.".into(),
        assumptions: vec!["ordering ids supplied through the API are distinct (as the statement says)".into()],
        floors: vec![
            ("api_orderings".into(), 5_000, "API orderings hardly exercised".into()),
            ("cli_orderings".into(), 300, "CLI orderings hardly exercised".into()),
            ("round_trips".into(), 300, "round trips hardly exercised".into()),
            ("distinct_nontrivial".into(), 3_000, "too few non-trivial cases".into()),
        ],
    };
    (st, spec)
}

pub fn replay(ctx: &Ctx, _monitor: &str, case: &Value, st: &mut Stats) {
    let text = case.get("text").and_then(|t| t.as_str()).unwrap_or("");
    if case.get("kind").and_then(|k| k.as_str()) == Some("api") {
        let ordering: Vec<(String, usize)> = case.get("ordering").and_then(|o| o.as_array()).map(|a| a.iter().filter_map(|p| Some((p.get(0)?.as_str()?.to_string(), p.get(1)?.as_u64()? as usize))).collect()).unwrap_or_default();
        check_api(st, text, &ordering, "replay");
    } else {
        let ordering = case.get("ordering").and_then(|o| o.as_str()).map(|s| s.to_string());
        cli_case(ctx, st, text, ordering, "replay");
    }
}
