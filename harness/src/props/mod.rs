//! One module per property: workload x monitors x evidence.

use crate::report::{Ctx, Spec, Stats};
use serde_json::Value;

pub mod c01;
pub mod c02;
pub mod c03;
pub mod c04;
pub mod c05;
pub mod c06;
pub mod c07;
pub mod c08;
pub mod c09;
pub mod c10;
pub mod c11;
pub mod clitab;
pub mod c12;
pub mod c13;
pub mod c14;
pub mod c15;
pub mod c16;
pub mod c17;
pub mod c18;
pub mod c19;
pub mod c20;
pub mod common;
pub mod weak;
pub mod wide;

#[derive(Clone, Copy)]
pub struct PropDef {
    pub run: fn(&Ctx) -> (Stats, Spec),
    pub replay: fn(&Ctx, &str, &Value, &mut Stats),
}

pub fn lookup(id: &str) -> Option<PropDef> {
    Some(match id {
        "C01" => PropDef { run: c01::run, replay: c01::replay },
        "C02" => PropDef { run: c02::run, replay: c02::replay },
        "C03" => PropDef { run: c03::run, replay: c03::replay },
        "C04" => PropDef { run: c04::run, replay: c04::replay },
        "C05" => PropDef { run: c05::run, replay: c05::replay },
        "C06" => PropDef { run: c06::run, replay: c06::replay },
        "C07" => PropDef { run: c07::run, replay: c07::replay },
        "C08" => PropDef { run: c08::run, replay: c08::replay },
        "C09" => PropDef { run: c09::run, replay: c09::replay },
        "C10" => PropDef { run: c10::run, replay: c10::replay },
        "C11" => PropDef { run: c11::run, replay: c11::replay },
        "C12" => PropDef { run: c12::run, replay: c12::replay },
        "C13" => PropDef { run: c13::run, replay: c13::replay },
        "C14" => PropDef { run: c14::run, replay: c14::replay },
        "C15" => PropDef { run: c15::run, replay: c15::replay },
        "C16" => PropDef { run: c16::run, replay: c16::replay },
        "C17" => PropDef { run: c17::run, replay: c17::replay },
        "C18" => PropDef { run: c18::run, replay: c18::replay },
        "C19" => PropDef { run: c19::run, replay: c19::replay },
        "C20" => PropDef { run: c20::run, replay: c20::replay },
        _ => return None,
    })
}

/// short printable operands of a C13-style operation (for messages)
pub(crate) fn c13_operands_short(op: &c13::Op, pool: &[common::D]) -> Vec<String> {
    c13::operands(op).iter().map(|i| crate::conv::short(&pool[*i])).collect()
}
