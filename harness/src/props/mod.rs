//! One module per property: workload x monitors x evidence.

use crate::report::{Ctx, Spec, Stats};
use serde_json::Value;

pub mod c03;

#[derive(Clone, Copy)]
pub struct PropDef {
    pub run: fn(&Ctx) -> (Stats, Spec),
    pub replay: fn(&Ctx, &str, &Value, &mut Stats),
}

pub fn lookup(id: &str) -> Option<PropDef> {
    Some(match id {
        "C03" => PropDef { run: c03::run, replay: c03::replay },
        _ => return None,
    })
}
