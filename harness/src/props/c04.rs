//! C04 — quantifiers eliminate exactly the listed variables.
//!
//! Monitor: exists / all / exists_impl results are read back as truth tables and compared with
//! table quantification; the result must not mention a listed variable, and must be `==` f when
//! the list is empty or disjoint from f's support. Also through the formula language.

use super::common::*;
use crate::conv::{build_in_env, labels_of, short, tt_of_bdd};
use crate::refsem;
use crate::refsyn;
use crate::report::{Ctx, Spec, Stats};
use crate::tt::Tt;
use crate::util::{self, guarded, mix, Rng};
use rsbdd::bdd::BDDEnv;
use rsbdd::parser::ParsedFormula;
use serde_json::{json, Value};
use std::io::BufReader;
use std::rc::Rc;

/// `uni`: ascending labels of the universe; `f`: (diagram, table over uni); `list`: labels to quantify
fn check_quant(st: &mut Stats, env: &BDDEnv<usize>, uni: &[usize], f: &(D, Tt), list: &[usize], fam: &str) {
    let n = uni.len() as u32;
    let idx = idx_fn(uni);
    let support: Vec<usize> = f.1.support().iter().map(|i| uni[*i as usize]).collect();
    let touches = list.iter().any(|l| support.contains(l));
    for kind in ["exists", "all"] {
        st.evals += 1;
        st.bump(kind);
        let case = || json!({"kind": kind, "f": f.1.hex(), "universe": labels_json(uni), "list": labels_json(list)});
        util::budget(20_000_000, 1000);
        let handed = hand_over(&f.0, st.evals);
        let r = match guarded(move || if kind == "exists" { env.exists(list.to_vec(), handed) } else { env.all(list.to_vec(), handed) }) {
            Ok(r) => r,
            Err(c) => {
                st.violate("c04.panic", format!("C04:{}:{}", kind, c.signature()), format!("{}({:?}, {}) did not return: {:?}", kind, list, short(&f.0), c), case());
                continue;
            }
        };
        let mut want = f.1.clone();
        for l in list {
            let i = idx(l).expect("list label in universe");
            want = if kind == "exists" { want.exists(i) } else { want.forall(i) };
        }
        match tt_of_bdd(&r, n, &idx) {
            Ok(got) => {
                if got != want {
                    let a = got.xor(&want).first_one().unwrap_or(0);
                    st.violate(
                        "c04.semantics",
                        format!("C04:{}:wrong-value", kind),
                        format!("{}({:?}, f) wrong under assignment #{} of universe {:?}\n f = {} table {}\n result = {} table {}\n expected table {}", kind, list, a, uni, short(&f.0), f.1.hex(), short(&r), got.hex(), want.hex()),
                        case(),
                    );
                }
            }
            Err(e) => st.violate("c04.semantics", format!("C04:{}:foreign-variable", kind), e, case()),
        }
        let labs = labels_of(&r);
        if let Some(bad) = labs.iter().find(|l| list.contains(l)) {
            st.violate("c04.eliminated", format!("C04:{}:still-mentions-quantified", kind), format!("result of {}({:?}, {}) still tests variable {}: {}", kind, list, short(&f.0), bad, short(&r)), case());
        }
        if !touches && r.as_ref() != f.0.as_ref() {
            st.violate("c04.identity", format!("C04:{}:disjoint-list-changes-f", kind), format!("{}({:?}, f) with list disjoint from support {:?} is not f: f = {} result = {}", kind, list, support, short(&f.0), short(&r)), case());
        }
        if touches && !f.1.is_const() {
            let mut key: Vec<usize> = list.to_vec();
            key.sort();
            key.dedup();
            let mut h = mix(f.1.hash64(), util::hash_str(kind));
            for k in key {
                h = mix(h, k as u64);
            }
            st.nt.insert(mix(h, util::hash_str(fam)));
            if list.len() >= 2 {
                st.bump("lists_with_two_or_more");
            }
            let mut d = list.to_vec();
            d.sort();
            d.dedup();
            if d.len() < list.len() {
                st.bump("lists_with_repetition");
            }
        } else if !touches {
            st.bump("lists_disjoint_or_empty");
        }
        if st.want_sample() && touches && list.len() >= 2 && st.evals % 7919 == 3 {
            st.sample(json!({"call": format!("{}({:?}, f)", kind, list), "f": short(&f.0), "result": short(&r)}));
        }
    }
    // the single-variable step called DIRECTLY, right after the universal quantification above (of
    // any list length, so also after one that ended early on a constant): for the last and the
    // first listed variable
    let mut singles: Vec<usize> = Vec::new();
    for v in [list.last(), list.first()].into_iter().flatten() {
        if !singles.contains(v) {
            singles.push(*v);
        }
    }
    for v in singles {
        st.evals += 1;
        st.bump("exists_impl");
        let case = json!({"kind": "exists_impl", "f": f.1.hex(), "universe": labels_json(uni), "list": labels_json(list)});
        match guarded(|| env.exists_impl(&v, Rc::clone(&f.0))) {
            Ok(r) => {
                let want = f.1.exists(idx(&v).unwrap());
                if tt_of_bdd(&r, n, &idx).ok().as_ref() != Some(&want) {
                    st.violate("c04.semantics", "C04:exists_impl:wrong-value".into(), format!("exists_impl({}, {}) — called right after all({:?}, ..) in the same environment — = {} expected table {}", v, short(&f.0), list, short(&r), want.hex()), case);
                }
            }
            Err(c) => st.violate("c04.panic", format!("C04:exists_impl:{}", c.signature()), format!("{:?}", c), case),
        }
    }
}

struct Fam {
    name: &'static str,
    support: Vec<usize>,
    outside: Vec<usize>,
}

fn fams(k: usize) -> Vec<Fam> {
    if k == 3 {
        vec![
            Fam { name: "mid", support: vec![2, 4, 6], outside: vec![0, 5, 9] },
            Fam { name: "extreme", support: vec![1, 7, usize::MAX - 1], outside: vec![0, 5, usize::MAX] },
        ]
    } else {
        vec![Fam { name: "mid4", support: vec![2, 4, 6, 8], outside: vec![0, 5, 9] }, Fam { name: "extreme4", support: vec![1, 7, 1 << 40, usize::MAX - 1], outside: vec![0, usize::MAX] }]
    }
}

fn all_lists(uni: &[usize], maxlen: usize) -> Vec<Vec<usize>> {
    let mut out: Vec<Vec<usize>> = vec![vec![]];
    let mut frontier: Vec<Vec<usize>> = vec![vec![]];
    for _ in 0..maxlen {
        let mut next = Vec::new();
        for l in &frontier {
            for u in uni {
                let mut l2 = l.clone();
                l2.push(*u);
                next.push(l2);
            }
        }
        out.extend(next.iter().cloned());
        frontier = next;
    }
    out
}

fn exhaustive_job(k: usize, fam_idx: usize, chunk: usize, chunks: usize, stride: u64, maxlen: usize) -> Stats {
    let mut st = Stats::new();
    let fam = &fams(k)[fam_idx];
    let mut uni: Vec<usize> = fam.support.iter().chain(fam.outside.iter()).cloned().collect();
    uni.sort();
    let n = uni.len() as u32;
    let map: Vec<u32> = fam.support.iter().map(|l| uni.iter().position(|x| x == l).unwrap() as u32).collect();
    let vars = vars_of(&uni);
    let lists = all_lists(&uni, maxlen);
    let total = 1u64 << (1u32 << k);
    let mut env: BDDEnv<usize> = BDDEnv::new();
    let mut cnt = 0u64;
    for bits in 0..total {
        if (bits as usize) % chunks != chunk || (bits / chunks as u64) % stride != 0 {
            continue;
        }
        cnt += 1;
        if cnt % 64 == 0 {
            env = BDDEnv::new();
        }
        let t = Tt::from_u64(k as u32, bits).embed(n, &map);
        let d = build_in_env(&env, &t, &vars);
        let f = (d, t);
        for l in &lists {
            check_quant(&mut st, &env, &uni, &f, l, fam.name);
        }
    }
    st
}

fn random_job(ctx: &Ctx, job: usize, iters: u64) -> Stats {
    let mut st = Stats::new();
    let mut rng = Rng::stream(ctx.seed, "C04.random", job as u64);
    let mut env: BDDEnv<usize> = BDDEnv::new();
    for it in 0..iters {
        if it % 400 == 0 {
            env = BDDEnv::new(); // long-lived enough for freed operand addresses to be reused
        }
        let nvars = 4 + rng.usize(4);
        let uni = pick_labels(&mut rng, &LABEL_POOL, nvars);
        let t = random_table_subset(&mut rng, nvars as u32);
        // half of the diagrams are not built by this environment (plain unshared nodes, dropped after use)
        let d = if rng.chance(1, 2) {
            st.bump("foreign_diagrams");
            crate::conv::build_ref(&t, &vars_of(&uni))
        } else {
            build_in_env(&env, &t, &vars_of(&uni))
        };
        let len = rng.usize(7);
        let list: Vec<usize> = (0..len).map(|_| *rng.pick(&uni)).collect();
        check_quant(&mut st, &env, &uni, &(d, t), &list, "random");
        st.bump("random_cases");
    }
    st
}

/// `exists a, b # <dnf>` etc. through the formula language, judged by name against the reference.
fn language_job(ctx: &Ctx, job: usize, iters: u64) -> Stats {
    let mut st = Stats::new();
    let mut rng = Rng::stream(ctx.seed, "C04.language", job as u64);
    let names = ["p", "q", "r", "s"];
    for _ in 0..iters {
        let k = 2 + rng.usize(3);
        let t = random_table_subset(&mut rng, k as u32);
        let mut terms = Vec::new();
        for a in 0..t.size() {
            if t.get(a) {
                let lits: Vec<String> = (0..k).map(|i| if (a >> i) & 1 == 1 { names[i].to_string() } else { format!("{}{}", rng.pick_str(&["-", "!", "not "]), names[i]) }).collect();
                terms.push(format!("({})", lits.join(rng.pick_str(&[" & ", " and ", "*"]))));
            }
        }
        let mut body = if terms.is_empty() { "false".to_string() } else { terms.join(rng.pick_str(&[" | ", " or ", "+"])) };
        if rng.chance(1, 2) {
            // bodies with every connective / construct (the quantifier body extends as far right as possible)
            let mut cfg = crate::gen::GenCfg::simple(&names[..k], 3);
            cfg.allow_fix = rng.chance(1, 3); // also quantifiers around / inside fixed points (non-convergent ones are skipped)
            cfg.max_fix_depth = 1;
            cfg.binder_weight = if cfg.allow_fix { 30 } else { 6 };
            let ast = crate::gen::gen_ast(&mut rng, &cfg);
            body = crate::gen::render(&ast, &mut rng, crate::gen::Style::Plain);
            st.bump("language_bodies_with_all_connectives");
        }
        if rng.chance(1, 6) {
            // a quantifier INSIDE a fixed point whose body reaches its variable only through the
            // fixed-point variable, the same name being bound again by the outer quantifier
            let (fix, op) = *rng.pick(&[("lfp", "|"), ("gfp", "&"), ("mu", "or"), ("nu", "and")]);
            let q2 = *rng.pick(&["exists", "forall", "any", "all"]);
            let inner: Vec<&str> = (0..1 + rng.usize(3)).map(|_| names[rng.usize(k)]).collect();
            body = match rng.below(3) {
                0 => format!("{} X # (({}) {} {} {} # X)", fix, body, op, q2, inner.join(", ")),
                1 => format!("({} <=> zz) & {} X # (({}) {} ({} & {} {} # X))", inner[0], fix, body, op, inner[0], q2, inner.join(", ")),
                _ => format!("{} X # (({}) {} {} {} # (X {} {}))", fix, body, op, q2, inner.join(", "), op, names[rng.usize(k)]),
            };
            st.bump("quantifier_over_the_fixed_point_variable_only");
        }
        if rng.chance(1, 10) {
            // the RENAMING idiom: a bound variable equated with another one, which an inner
            // quantifier of the body binds again around an occurrence of the outer variable
            let v = names[rng.usize(k)];
            let mut w = names[rng.usize(k)];
            if w == v {
                w = names[(names.iter().position(|x| *x == v).unwrap() + 1) % k];
            }
            let q1 = *rng.pick(&["exists", "forall", "any", "all"]);
            let q2 = *rng.pick(&["exists", "forall"]);
            let tie = match rng.below(4) {
                0 => format!("({} <=> {})", v, w),
                1 => format!("({} <=> {})", w, v),
                2 => format!("({} iff {})", v, w),
                _ => format!("-({} ^ {})", v, w),
            };
            let inner_op = *rng.pick(&["^", "|", "&", "=>", "<=>"]);
            let glue = *rng.pick(&["&", "=>", "|", "and"]);
            body = match rng.below(3) {
                0 => format!("{} {} # {} {} ({} {} # (({} {} {}) & ({})))", q1, v, tie, glue, q2, w, v, inner_op, w, body),
                1 => format!("{} {} # {} {} (zz | {} {}, {} # (({} {} {}) & {}))", q1, v, tie, glue, q2, names[rng.usize(k)], w, v, inner_op, w, w),
                _ => format!("{} {} # ({} {} # ({} {} {})) {} {}", q1, v, q2, w, v, inner_op, w, glue, tie),
            };
            st.bump("renaming_idiom_with_an_inner_binder");
        }
        if rng.chance(1, 12) {
            // the existential and the universal quantification of ONE body side by side
            let v: Vec<&str> = (0..1 + rng.usize(2)).map(|_| names[rng.usize(k)]).collect();
            let mut v2 = v.clone();
            v2.reverse();
            let op = *rng.pick(&["&", "|", "=>", "<=>", "^"]);
            body = format!("(exists {} # ({})) {} (forall {} # ({}))", v.join(", "), body, op, v2.join(", "), body);
            st.bump("exists_and_forall_of_one_body");
        }
        let len = rng.usize(4);
        let extra = ["zz", "p", "q", "r", "s", "yy"];
        let mut list: Vec<String> = (0..len).map(|_| rng.pick(&extra).to_string()).collect();
        let kw = *rng.pick(&["exists", "any", "forall", "all"]);
        let mut lt = list.join(rng.pick_str(&[", ", ",", " , "]));
        if !list.is_empty() && rng.chance(1, 3) {
            lt.push(',');
        }
        let text = format!("{} {} # {}", kw, lt, body);
        list.dedup();
        st.evals += 1;
        st.bump("language_forms");
        let Ok(ast) = refsyn::parse_text(&text) else {
            st.bump("harness_generated_unparsable(bug in generator, not judged)");
            continue;
        };
        let Ok((rnames, want)) = refsem::eval_formula(&ast) else { continue };
        // a quarter of the texts under an ordering handed in through the API: some of the names,
        // sparse ids, the vector in any order (what a quantifier eliminates is decided by NAME)
        let api_ordering: Option<Vec<rsbdd::NamedSymbol>> = if rng.chance(1, 4) {
            let mut v: Vec<rsbdd::NamedSymbol> = Vec::new();
            let mut id = rng.usize(2);
            for nm in rnames.iter() {
                if rng.chance(2, 3) {
                    v.push(rsbdd::NamedSymbol { name: Rc::new(nm.clone()), id });
                    id += 1 + rng.usize(3);
                }
            }
            rng.shuffle(&mut v);
            st.bump("language_forms_under_an_api_ordering");
            Some(v)
        } else {
            None
        };
        let case = json!({"kind": "language", "text": text, "ordering": api_ordering.as_ref().map(|v| v.iter().map(|s| json!([s.name.as_ref(), s.id])).collect::<Vec<_>>())});
        util::budget(20_000_000, 1000);
        let r = guarded(|| {
            let pf = ParsedFormula::new(&mut BufReader::new(text.as_bytes()), api_ordering.clone())?;
            Ok::<_, std::io::Error>(pf.eval())
        });
        match r {
            Ok(Ok(d)) => match crate::conv::tt_of_named(&d, &rnames) {
                Ok(got) if got == want => {
                    if !list.is_empty() && !want.is_const() {
                        st.nt.insert(util::hash_str(&text));
                    }
                }
                Ok(got) => st.violate("c04.language", "C04:language:wrong-value".into(), format!("`{}` evaluates to table {} over {:?}, expected {}", text, got.hex(), rnames, want.hex()), case),
                Err(e) => st.violate("c04.language", "C04:language:foreign-variable".into(), format!("`{}`: {}", text, e), case),
            },
            Ok(Err(e)) => st.violate("c04.language", "C04:language:rejected".into(), format!("`{}` rejected: {}", text, e), case),
            Err(crate::util::Caught::Budget("fp")) => st.violate("c04.language", "C04:language:fixed-point-does-not-converge".into(), format!("`{}`: the reference converges, the engine exceeded 1000 fixed-point iterations", text), case),
            Err(c) => st.violate("c04.panic", format!("C04:language:{}", c.signature()), format!("`{}`: {:?}", text, c), case),
        }
    }
    st
}

pub fn run(ctx: &Ctx) -> (Stats, Spec) {
    let mut st = Stats::new();
    let parts = util::par_jobs(2 * 8, |job| exhaustive_job(3, job / 8, job % 8, 8, 1, 3));
    st.merge(crate::report::merge_all(parts));
    st.exhaustive.push("all 256 functions over 3 variables x all variable lists of length <= 3 (with repetition) over support + 3 outside labels (below/inside/above) x {exists, all} x 2 label families".into());
    let (stride, maxlen) = ctx.tier.pick((8u64, 3usize), (1u64, 3usize));
    let parts = util::par_jobs(2 * 16, |job| exhaustive_job(4, job / 16, job % 16, 16, stride, maxlen));
    st.merge(crate::report::merge_all(parts));
    if stride == 1 {
        st.exhaustive.push("all 65 536 functions over 4 variables x all lists of length <= 3 x {exists, all} x 2 label families".into());
    }
    // BIG operands: the quantified variable lies behind (or between) thousands of shared nodes —
    // f = if a then z else (x1 & y1 | .. | xk & yk) under the order a < x1..xk < y1..yk < z has
    // about 2^(k+1) nodes. exists z / all z / exists over a middle variable are compared with what
    // the connectives give directly.
    for k in ctx.tier.pick(vec![12usize], vec![10, 12, 13, 14]) {
        engine_block(&mut st, "C04", "big-operand", |st2| {
        let env: BDDEnv<usize> = BDDEnv::new();
        util::budget(u64::MAX, 1000);
        let (a, z) = (0usize, 1000usize);
        let big = (1..=k).fold(env.mk_const(false), |acc, i| env.or(acc, env.and(env.var(i), env.var(100 + i))));
        let f = env.ite(env.var(a), env.var(z), Rc::clone(&big));
        let case = json!({"kind": "big-operand", "k": k});
        st2.evals += 1;
        let checks: Vec<(&str, D, D)> = vec![
            ("exists z", env.exists(vec![z], Rc::clone(&f)), env.or(env.var(a), Rc::clone(&big))),
            ("all z", env.all(vec![z], Rc::clone(&f)), env.and(env.not(env.var(a)), Rc::clone(&big))),
            ("exists a", env.exists(vec![a], Rc::clone(&f)), env.or(env.var(z), Rc::clone(&big))),
            ("all a, z", env.all(vec![a, z], Rc::clone(&f)), env.mk_const(false)),
            ("exists x1", env.exists(vec![1], Rc::clone(&f)), env.ite(env.var(a), env.var(z), env.or(env.var(101), (2..=k).fold(env.mk_const(false), |acc, i| env.or(acc, env.and(env.var(i), env.var(100 + i))))))),
        ];
        for (what, got, want) in checks {
            if got.as_ref() != want.as_ref() {
                st2.violate("c04.semantics", format!("C04:big-operand:{}", what.split(' ').next().unwrap_or("")), format!("f = if a then z else (x1 & y1 | .. | x{} & y{}) ({} table entries): `{}` of f is not what the connectives give directly; the result still tests {:?}", k, k, env.size(), what, labels_of(&got).iter().filter(|l| **l == z || **l == a).collect::<Vec<_>>()), case.clone());
            } else {
                st2.bump("quantifications_of_big_operands");
            }
        }
        st2.max("max_operand_nodes", f.node_list().len() as u64);
            });
    }
    // quantifiers in an environment whose table holds millions of entries
    engine_block(&mut st, "C04", "huge-table", |st2| {
        let env = huge_env(ctx.tier.pick(2_200_000usize, 17_000_000usize));
        let uni = vec![2usize, 4, 6, 9];
        let vars = vars_of(&uni);
        let lists = all_lists(&uni, 2);
        for bits in (0..65_536u64).step_by(ctx.tier.pick(97usize, 7usize)) {
            let t = Tt::from_u64(4, bits);
            let f = (build_in_env(&env, &t, &vars), t);
            for l in lists.iter().step_by(3) {
                check_quant(st2, &env, &uni, &f, l, "huge-table");
            }
            st2.bump("quantifications_in_a_huge_table");
        }
        st2.max("max_table_size_under_quantifiers", env.size() as u64);
    });
    // one environment in which kept functions are quantified again exactly 65 536 (256) operations later
    let parts = util::par_jobs(2, |job| super::c13::periodic_revisit_job(ctx, "C04", if job == 0 { 65_536 } else { 256 }, if job == 0 { 3 } else { 30 }));
    st.merge(crate::report::merge_all(parts));
    let iters = ctx.tier.pick(15_000u64, 300_000u64);
    let parts = util::par_jobs(16, |job| {
        let mut s = random_job(ctx, job, iters);
        s.merge(language_job(ctx, job, iters / 3));
        s
    });
    st.merge(crate::report::merge_all(parts));
    let wk_iters = ctx.tier.pick(3_000u64, 60_000u64);
    let parts = util::par_jobs(16, |job| super::weak::weak_hash_job(ctx, "C04", job, wk_iters));
    st.merge(crate::report::merge_all(parts));
    let wide_iters = ctx.tier.pick(400u64, 8_000u64);
    let parts = util::par_jobs(16, |job| super::wide::wide_job(ctx, "C04", job, wide_iters));
    st.merge(crate::report::merge_all(parts));
    let spec = Spec {
        rule: "f ranges over all functions of 3 (4) variables embedded among outside labels, V over all lists up to length 3 incl. repeated, outside-support and empty lists; random f over 4-7 sparse labels with lists up to length 6; language forms `exists|any|forall|all <list>[,] # <body>` with DNF bodies and with random bodies using every connective. distinct = (table, set(V), quantifier, family); non-trivial = V meets the support of a non-constant f. MANY VARIABLES: the same judgement on environments with 65-200 variables (more than a machine word of them), where operands are random DNFs and results are compared pointwise on 48 sampled assignments per case (biased towards the operands' cubes) and walked for order / reduction.".into(),
        assumptions: vec!["value of a result is read by walking it; support is computed from the operand's truth table".into()],
        floors: vec![
            ("many_variable_cases".into(), 1_000, "environments with more than 64 variables never exercised".into()),
            ("weak_hash_symbol_calls".into(), 2_000, "environment over a constant-hash symbol type never exercised".into()),
            ("exists".into(), 10_000, "exists never exercised".into()),
            ("all".into(), 10_000, "all never exercised".into()),
            ("exists_impl".into(), 500, "exists_impl never exercised".into()),
            ("lists_with_repetition".into(), 500, "no repeated variable lists".into()),
            ("lists_disjoint_or_empty".into(), 500, "no disjoint/empty lists".into()),
            ("language_forms".into(), 500, "language forms never exercised".into()),
            ("distinct_nontrivial".into(), 5_000, "too few non-trivial cases".into()),
        ],
    };
    (st, spec)
}

pub fn replay(_ctx: &Ctx, _monitor: &str, case: &Value, st: &mut Stats) {
    if case.get("kind").and_then(|k| k.as_str()) == Some("wide") {
        super::wide::replay_wide(_ctx, "C04", case, st);
        return;
    }
    if case.get("kind").and_then(|k| k.as_str()) == Some("periodic") {
        let g = |k: &str| case.get(k).and_then(|j| j.as_u64()).unwrap_or(0);
        let mut c2 = _ctx.clone();
        c2.seed = g("seed");
        st.merge(super::c13::periodic_revisit_job(&c2, "C04", g("period").max(2) as usize, g("rounds").max(2) as usize));
        return;
    }
    if case.get("kind").and_then(|k| k.as_str()) == Some("weak-hash") {
        let job = case.get("job").and_then(|j| j.as_u64()).unwrap_or(0) as usize;
        let mut c2 = _ctx.clone();
        c2.seed = case.get("seed").and_then(|j| j.as_u64()).unwrap_or(c2.seed);
        st.merge(super::weak::weak_hash_job(&c2, "C04", job, 20_000));
        return;
    }
    if case.get("kind").and_then(|k| k.as_str()) == Some("language") {
        // re-run the single text through the same judge
        let text = case.get("text").and_then(|t| t.as_str()).unwrap_or("").to_string();
        if let Ok(ast) = refsyn::parse_text(&text) {
            if let Ok((rnames, want)) = refsem::eval_formula(&ast) {
                util::budget(20_000_000, 1000);
                let ord: Option<Vec<rsbdd::NamedSymbol>> = case.get("ordering").and_then(|o| o.as_array()).map(|a| a.iter().filter_map(|e| Some(rsbdd::NamedSymbol { name: Rc::new(e.get(0)?.as_str()?.to_string()), id: e.get(1)?.as_u64()? as usize })).collect());
                let r = guarded(|| ParsedFormula::new(&mut BufReader::new(text.as_bytes()), ord.clone()).map(|pf| pf.eval()));
                st.evals += 1;
                match r {
                    Ok(Ok(d)) => {
                        if crate::conv::tt_of_named(&d, &rnames).ok().as_ref() != Some(&want) {
                            st.violate("c04.language", "C04:language:wrong-value".into(), format!("`{}` expected table {}", text, want.hex()), case.clone());
                        }
                    }
                    Ok(Err(e)) => st.violate("c04.language", "C04:language:rejected".into(), format!("{}", e), case.clone()),
                    Err(c) => st.violate("c04.panic", format!("C04:language:{}", c.signature()), format!("{:?}", c), case.clone()),
                }
            }
        }
        return;
    }
    let uni = parse_labels(case, "universe");
    let list = parse_labels(case, "list");
    let Some(t) = parse_table(case, "f") else { return };
    let env = BDDEnv::new();
    let d = build_in_env(&env, &t, &vars_of(&uni));
    check_quant(st, &env, &uni, &(d, t), &list, "replay");
}
