//! C14 — Graphviz exports denote the same diagram / syntax tree they were made from.
//!
//! Monitor: offline checker — the DOT text is read back (dotread) as a decision graph and
//! evaluated under all assignments by label, resp. rebuilt into a term, and compared with the
//! diagram / syntax tree it was rendered from. Library API and `rsbdd -d / -p`.

use super::common::*;
use crate::cli;
use crate::conv::{ast_of_engine, build_in_env, count_nodes, short, tt_of_bdd};
use crate::dotread;
use crate::gen::{self, GenCfg, Style};
use crate::refsem::Sem;
use crate::refsyn::{self, Ast};
use crate::report::{Ctx, Spec, Stats};
use crate::tt::Tt;
use crate::util::{self, guarded, mix, Rng};
use rsbdd::bdd::{BDDEnv, BDD};
use rsbdd::bdd_io::BDDGraph;
use rsbdd::parser::ParsedFormula;
use rsbdd::parser_io::SymbolicParseTree;
use rsbdd::{BDDSymbol, TruthTableEntry};
use serde_json::{json, Value};
use std::io::BufReader;
use std::rc::Rc;
use std::time::Duration;

/// A writer that accepts at most `chunk` bytes per `write` call (the `Write` contract allows short
/// writes; whoever uses `write` where `write_all` is meant loses the rest).
struct ShortWriter {
    buf: Vec<u8>,
    chunk: usize,
}

impl std::io::Write for ShortWriter {
    fn write(&mut self, data: &[u8]) -> std::io::Result<usize> {
        let k = data.len().min(self.chunk.max(1));
        self.buf.extend_from_slice(&data[..k]);
        Ok(k)
    }
    fn flush(&mut self) -> std::io::Result<()> {
        Ok(())
    }
}

const FILTERS: [(&str, TruthTableEntry); 3] = [("any", TruthTableEntry::Any), ("true", TruthTableEntry::True), ("false", TruthTableEntry::False)];

/// Judge one diagram export. `names[i]` is the display text of universe variable i.
fn check_bdd_export<S: BDDSymbol>(st: &mut Stats, d: &Rc<BDD<S>>, table: &Tt, names: &[String], fname: &str, filter: TruthTableEntry, case: &dyn Fn() -> Value) {
    st.evals += 1;
    st.bump(&format!("bdd_exports_filter_{}", fname));
    // one graph object is rendered one to three times; the LAST rendering is judged (an export
    // is a description of the diagram, whatever was exported before)
    let renderings = 1 + st.evals % 3;
    let st_evals = st.evals / 3;
    if renderings > 1 {
        st.bump("graph_objects_rendered_repeatedly");
    }
    if renderings != 2 {
        st.bump("exports_through_a_short_writing_writer");
    }
    let text = match guarded(|| {
        let graph = BDDGraph::new(d, filter);
        // (every other graph is written through a writer that takes 1, 7 or 100 bytes per call)
        let mut w = ShortWriter { buf: Vec::new(), chunk: if renderings == 2 { usize::MAX } else { [1usize, 7, 100][(st_evals % 3) as usize] } };
        for _ in 0..renderings {
            w.buf.clear();
            graph.render_dot(&mut w)?;
        }
        Ok::<_, std::io::Error>(w.buf)
    }) {
        Ok(Ok(b)) => String::from_utf8_lossy(&b).to_string(),
        Ok(Err(e)) => {
            st.violate("c14.bdd", "C14:bdd:render-error".into(), format!("render_dot failed: {}", e), case());
            return;
        }
        Err(c) => {
            st.violate("c14.bdd", format!("C14:bdd:{}", c.signature()), format!("render_dot panicked: {:?}", c), case());
            return;
        }
    };
    judge_bdd_dot(st, &text, table, names, fname, Some(count_nodes(d)), &short(d), case);
}

#[allow(clippy::too_many_arguments)]
fn judge_bdd_dot(st: &mut Stats, text: &str, table: &Tt, names: &[String], fname: &str, ptr_nodes: Option<u64>, shown: &str, case: &dyn Fn() -> Value) {
    let dot = match dotread::parse(text) {
        Ok(d) => d,
        Err(e) => {
            st.violate("c14.bdd", "C14:bdd:unreadable".into(), format!("DOT of {} (filter {}) cannot be read back: {}\n{}", shown, fname, e, text), case());
            return;
        }
    };
    match dotread::eval_bdd_dot(&dot, names, fname) {
        Err(e) => st.violate("c14.bdd", format!("C14:bdd:structure:{}", e.split_whitespace().take(3).collect::<Vec<_>>().join("-")), format!("DOT of {} (filter {}): {}\n{}", shown, fname, e, text), case()),
        Ok((got, internal)) => {
            if &got != table {
                st.violate("c14.bdd", format!("C14:bdd:denotes-another-function:{}", fname), format!("DOT of {} (filter {}) read back denotes table {} instead of {}\n{}", shown, fname, got.hex(), table.hex(), text), case());
                return;
            }
            if let Some(p) = ptr_nodes {
                // distinct nodes of the source = distinct pointers reachable (p counts reachable leaves too)
                let src_internal = {
                    // p counts leaves reachable as nodes too
                    let mut leaf_count = 0u64;
                    if !table.is_true() {
                        leaf_count += 1; // false leaf reachable
                    }
                    if !table.is_false() {
                        leaf_count += 1; // true leaf reachable
                    }
                    p.saturating_sub(leaf_count)
                };
                if internal as u64 != src_internal {
                    st.violate("c14.bdd", "C14:bdd:node-count".into(), format!("DOT of {} (filter {}) declares {} test nodes, the diagram has {}\n{}", shown, fname, internal, src_internal, text), case());
                    return;
                }
                if internal >= 3 {
                    st.bump("exports_with_3_or_more_nodes");
                }
            }
            st.add("dot_nodes_read_back", internal as u64);
        }
    }
}

/// Diagrams that are NOT reduced (a diagram is a public value: anyone may assemble one): the
/// quasi-reduced form of a function — every variable tested on every path, equal sub-diagrams
/// shared, so many nodes have the same node on both branches.
fn quasi_reduced(t: &Tt, labels: &[usize]) -> Rc<BDD<usize>> {
    fn go(t: &Tt, labels: &[usize], level: usize, memo: &mut std::collections::HashMap<(usize, String), Rc<BDD<usize>>>, leaves: &(Rc<BDD<usize>>, Rc<BDD<usize>>)) -> Rc<BDD<usize>> {
        if level == labels.len() {
            return if t.is_true() { Rc::clone(&leaves.0) } else { Rc::clone(&leaves.1) };
        }
        let key = (level, t.hex());
        if let Some(n) = memo.get(&key) {
            return Rc::clone(n);
        }
        let hi = go(&t.cofactor(level as u32, true), labels, level + 1, memo, leaves);
        let lo = go(&t.cofactor(level as u32, false), labels, level + 1, memo, leaves);
        let n = Rc::new(BDD::Choice(hi, labels[level], lo));
        memo.insert(key, Rc::clone(&n));
        n
    }
    let leaves = (Rc::new(BDD::True), Rc::new(BDD::False));
    go(t, labels, 0, &mut std::collections::HashMap::new(), &leaves)
}

fn unreduced_exports(st: &mut Stats) {
    let labels = vec![2usize, 5, 9];
    let names: Vec<String> = labels.iter().map(|l| l.to_string()).collect();
    for bits in 0..256u64 {
        let t = Tt::from_u64(3, bits);
        let d = quasi_reduced(&t, &labels);
        for (fname, f) in FILTERS {
            let case = || json!({"kind": "bdd-unreduced", "table": t.hex(), "filter": fname});
            check_bdd_export(st, &d, &t, &names, fname, f, &case);
            st.bump("exports_of_unreduced_diagrams");
        }
    }
}

fn exhaustive_bdd(st: &mut Stats) {
    unreduced_exports(st);
    // all 256 functions over 3 variables x 3 filters, usize labels (adjacent + sparse) and String symbols needing escapes
    for labels in [vec![0usize, 1, 2], vec![3usize, 1 << 40, usize::MAX]] {
        let env: BDDEnv<usize> = BDDEnv::new();
        let vars = vars_of(&labels);
        let names: Vec<String> = labels.iter().map(|l| l.to_string()).collect();
        for bits in 0..256u64 {
            let t = Tt::from_u64(3, bits);
            let d = build_in_env(&env, &t, &vars);
            for (fname, f) in FILTERS {
                let case = || json!({"kind": "bdd", "table": t.hex(), "labels": labels_json(&labels), "filter": fname});
                check_bdd_export(st, &d, &t, &names, fname, f, &case);
                if !t.is_const() && t.support().len() >= 2 {
                    st.nt.insert(mix(mix(t.hash64(), util::hash_str(fname)), labels[1] as u64));
                }
            }
        }
    }
    let weird: Vec<String> = vec!["a\"b".into(), "back\\slash".into(), "new\nline é 中".into()];
    let mut sorted = weird.clone();
    sorted.sort();
    let env: BDDEnv<String> = BDDEnv::new();
    let vars: Vec<(String, u32)> = sorted.iter().enumerate().map(|(i, s)| (s.clone(), i as u32)).collect();
    for bits in 0..256u64 {
        let t = Tt::from_u64(3, bits);
        let d = build_in_env(&env, &t, &vars);
        for (fname, f) in FILTERS {
            let case = || json!({"kind": "bdd-string-symbols", "table": t.hex(), "filter": fname});
            check_bdd_export(st, &d, &t, &sorted, fname, f, &case);
            st.bump("exports_with_symbols_needing_escapes");
        }
    }
}

/// Export from a LARGE, old environment: a sub-diagram interned early, several hundred thousand
/// other nodes interned afterwards, the same sub-diagram obtained again, and a result that reaches
/// both. Whatever the table did in between, the export must declare every node it references.
fn big_env_export(ctx: &Ctx, st: &mut Stats, functions: usize) {
    let mut rng = Rng::stream(ctx.seed, "C14.bigenv", 0);
    let nv = 10usize;
    let labels: Vec<usize> = (0..nv + 2).collect(); // 0, 1 on top; the random functions use 2..11
    let fvars: Vec<(usize, u32)> = (0..nv).map(|i| (i + 2, (i + 2) as u32)).collect();
    let names: Vec<String> = labels.iter().map(|l| l.to_string()).collect();
    let n = labels.len() as u32;
    let idx = idx_fn(&labels);
    let env: BDDEnv<usize> = BDDEnv::new();
    let embed = |t: &Tt| -> Tt { t.embed(n, &(2..(nv as u32 + 2)).collect::<Vec<u32>>()) };
    let mk_t = |rng: &mut Rng| embed(&random_table(rng, nv as u32, 8));
    let (ts, tx, ty) = (mk_t(&mut rng), mk_t(&mut rng), mk_t(&mut rng));
    util::budget(u64::MAX, 1000);
    let r = guarded(|| {
        let s_old = build_in_env(&env, &ts, &fvars);
        let x = build_in_env(&env, &tx, &fvars);
        let y = build_in_env(&env, &ty, &fvars);
        for _ in 0..functions {
            let t = mk_t(&mut rng);
            let _ = build_in_env(&env, &t, &fvars);
        }
        let s_new = build_in_env(&env, &ts, &fvars);
        let left = env.mk_choice(s_old, 1, x);
        let right = env.mk_choice(s_new, 1, y);
        env.mk_choice(left, 0, right)
    });
    st.bump("big_environment_exports");
    let case = || json!({"kind": "big-env", "seed": ctx.seed, "functions": functions});
    match r {
        Ok(d) => {
            st.add("big_environment_table_size", env.size() as u64);
            if let Ok(t) = tt_of_bdd(&d, n, &idx) {
                for (fname, f) in FILTERS {
                    check_bdd_export(st, &d, &t, &names, fname, f, &case);
                }
            }
        }
        Err(c) => st.violate("c14.bdd", format!("C14:big-env:{}", c.signature()), format!("{:?}", c), case()),
    }
}

/// Child-process half of `wide_heap_export` (main thread of a fresh process, so that small
/// allocations come from the one contiguous heap). Builds 40 random diagrams, grows the heap by
/// just under 4 GiB of untouched filler so that the next allocations start exactly 2^32 bytes above
/// the first ones, builds 40 more in the same way, and exports one diagram containing them all.
/// Prints one line: `WIDE-HEAP ok ...`, `WIDE-HEAP skipped ...` or `WIDE-HEAP violation ...`.
pub fn wide_heap_child(seed: u64) -> i32 {
    use std::collections::HashSet;
    let mut rng = Rng::stream(seed, "C14.wideheap", 0);
    let env: BDDEnv<usize> = BDDEnv::new();
    let nv = 10u32;
    let fvars: Vec<(usize, u32)> = (0..nv).map(|i| (1000 + i as usize, i)).collect();
    // a kept 40-byte block (the size class of a diagram node); once the free lists of that class
    // are drained, such a block comes from the top of the heap and tells where the heap ends
    // (both vectors get their full capacity up front — untouched, so it costs address space only —
    // because a vector that grows would itself be re-allocated at the top of the heap)
    let mut kept: Vec<Box<[u8; 40]>> = Vec::with_capacity(52_000_000);
    let mut probe = |kept: &mut Vec<Box<[u8; 40]>>| -> usize {
        let b = Box::new([0u8; 40]);
        let a = &*b as *const [u8; 40] as usize;
        kept.push(b);
        a
    };
    // pre-size the unique table so that it does not move while the diagrams are built
    let warm: Vec<Rc<BDD<usize>>> = (0..400).map(|_| build_in_env(&env, &random_table(&mut rng, nv, 8), &fvars)).collect();
    let first: Vec<Rc<BDD<usize>>> = (0..40).map(|_| build_in_env(&env, &random_table(&mut rng, nv, 8), &fvars)).collect();
    let addresses_of = |ds: &[Rc<BDD<usize>>]| -> Vec<usize> { ds.iter().flat_map(|d| d.node_list()).map(|n| Rc::as_ptr(&n) as usize).collect() };
    let a1 = addresses_of(&first);
    let (start1, end1) = (*a1.iter().min().unwrap(), *a1.iter().max().unwrap());
    let target = start1 as u64 + (1u64 << 32);
    let mut filler: Vec<Vec<u8>> = Vec::with_capacity(2_200_000);
    // coarse: grow the heap (the program break tells how far) to 64 MiB below the target
    let mut last_filler = 0usize;
    while (unsafe { libc::sbrk(0) } as u64) + (64 << 20) < target && filler.len() < 100_000 {
        let v: Vec<u8> = Vec::with_capacity(65536 - 16);
        last_filler = v.as_ptr() as usize;
        filler.push(v);
    }
    // drain the free lists of the node size class: allocate until a block lies beyond every filler
    // block, i.e. comes from the top of the heap; from then on a kept block tells where the heap ends
    let mut drained = 0usize;
    while probe(&mut kept) < last_filler && drained < 50_000_000 {
        drained += 1;
    }
    loop {
        let now = probe(&mut kept) as u64;
        if now < start1 as u64 || now > target + (1 << 20) {
            println!("WIDE-HEAP skipped the heap is not contiguous here (first nodes from {:#x}, heap top {:#x}, {} filler blocks)", start1, now, filler.len());
            return 0;
        }
        let need = target.saturating_sub(now);
        if need < 4096 {
            break;
        }
        let size = if need > (1 << 20) { 65536 - 16 } else if need > 16384 { 4096 - 16 } else { 256 - 16 };
        filler.push(Vec::with_capacity(size));
        if filler.len() > 2_000_000 {
            println!("WIDE-HEAP skipped more than 2000000 filler blocks");
            return 0;
        }
    }
    let start2 = probe(&mut kept);
    let second: Vec<Rc<BDD<usize>>> = (0..40).map(|_| build_in_env(&env, &random_table(&mut rng, nv, 8), &fvars)).collect();
    // one diagram over fresh top variables that contains all of them
    let mut d = env.mk_const(false);
    for (i, (a, b)) in first.iter().zip(second.iter()).enumerate() {
        d = env.mk_choice(Rc::clone(a), 2 * i, env.mk_choice(Rc::clone(b), 2 * i + 1, d));
    }
    let nodes = d.node_list();
    let distinct: HashSet<usize> = nodes.iter().map(|n| Rc::as_ptr(n) as usize).collect();
    let low: HashSet<u32> = distinct.iter().map(|a| *a as u32).collect();
    let span = distinct.iter().max().unwrap() - distinct.iter().min().unwrap();
    let mut buf: Vec<u8> = Vec::new();
    if let Err(e) = BDDGraph::new(&d, TruthTableEntry::Any).render_dot(&mut buf) {
        println!("WIDE-HEAP violation render_dot failed: {}", e);
        return 1;
    }
    let text = String::from_utf8_lossy(&buf).to_string();
    let info = format!("nodes={} span={:#x} same_low_32_bits={} filler_blocks={} first={:#x}..{:#x} second_from={:#x} warm={}", distinct.len(), span, distinct.len() - low.len(), filler.len(), start1, end1, start2, warm.len());
    match dotread::parse(&text) {
        Err(e) => {
            println!("WIDE-HEAP violation the export cannot be read back: {} [{}]", e, info);
            1
        }
        Ok(dot) => {
            let ids: HashSet<&str> = dot.nodes.iter().map(|n| n.0.as_str()).collect();
            let undeclared = dot.edges.iter().filter(|e| !ids.contains(e.0.as_str()) || !ids.contains(e.2.as_str())).count();
            if ids.len() != dot.nodes.len() || dot.nodes.len() != distinct.len() || undeclared > 0 {
                println!("WIDE-HEAP violation a diagram of {} distinct nodes is exported with {} declarations under {} distinct ids ({} edges to undeclared nodes) [{}]", distinct.len(), dot.nodes.len(), ids.len(), undeclared, info);
                1
            } else {
                println!("WIDE-HEAP ok {}", info);
                0
            }
        }
    }
}

/// The export of a diagram whose nodes lie MORE THAN 4 GiB APART in memory (a process that built a
/// large environment first), two thirds of them at addresses that agree in their low 32 bits with
/// an earlier node's. Every distinct node must still be declared once under an id of its own.
fn wide_heap_export(ctx: &Ctx, st: &mut Stats) {
    st.evals += 1;
    let case = || json!({"kind": "wide-heap", "seed": ctx.seed});
    let Ok(exe) = std::env::current_exe() else { return };
    let out = cli::run(&exe, &["__wide_heap_export".to_string(), ctx.seed.to_string()], None, None, None, Duration::from_secs(300));
    let so = out.stdout_str();
    let line = so.lines().find(|l| l.starts_with("WIDE-HEAP")).unwrap_or("").to_string();
    if out.timed_out {
        st.bump("wide_heap_watchdog(inconclusive case)");
    } else if line.starts_with("WIDE-HEAP ok") {
        st.bump("wide_heap_exports");
        let n: u64 = line.split("same_low_32_bits=").nth(1).and_then(|r| r.split_whitespace().next()).and_then(|x| x.parse().ok()).unwrap_or(0);
        st.add("exported_nodes_sharing_their_low_32_address_bits_with_another", n);
        if n > 0 {
            st.nt.insert(mix(0x14_4e, ctx.seed));
        }
    } else if line.starts_with("WIDE-HEAP skipped") {
        st.bump("wide_heap_not_available(skipped)");
    } else if line.starts_with("WIDE-HEAP violation") {
        st.violate("c14.bdd", "C14:bdd:wide-heap-export".into(), line["WIDE-HEAP violation".len()..].trim().to_string(), case());
    } else {
        // the helper died (out of memory, say): not a verdict
        st.bump("wide_heap_helper_failed(inconclusive case)");
    }
}

fn random_bdd_job(ctx: &Ctx, job: usize, iters: u64) -> Stats {
    let mut st = Stats::new();
    let mut rng = Rng::stream(ctx.seed, "C14.bdd", job as u64);
    for _ in 0..iters {
        let env: BDDEnv<usize> = BDDEnv::new();
        let nv = 4 + rng.usize(4);
        let labels = pick_labels(&mut rng, &LABEL_POOL, nv);
        let t = random_table_subset(&mut rng, nv as u32);
        let d = build_in_env(&env, &t, &vars_of(&labels));
        let names: Vec<String> = labels.iter().map(|l| l.to_string()).collect();
        let (fname, f) = FILTERS[rng.usize(3)];
        let case = || json!({"kind": "bdd", "table": t.hex(), "labels": labels_json(&labels), "filter": fname});
        check_bdd_export(&mut st, &d, &t, &names, fname, f, &case);
        if !t.is_const() {
            st.nt.insert(mix(t.hash64(), util::hash_str(fname)));
        }
    }
    st
}

/// parse-tree export of one text, API level
fn check_tree_text(st: &mut Stats, text: &str, origin: &str) {
    st.evals += 1;
    let case = || json!({"kind": "tree", "text": text, "origin": origin});
    let pf = match guarded(|| ParsedFormula::new(&mut BufReader::new(text.as_bytes()), None)) {
        Ok(Ok(pf)) => pf,
        _ => {
            st.bump("text_not_accepted(skipped)");
            return;
        }
    };
    let tree = ast_of_engine(&pf.bdd);
    let renderings = 1 + st.evals % 3;
    let tree_evals = st.evals / 3;
    let dot_text = match guarded(|| {
        let graph = SymbolicParseTree::new(&pf.bdd);
        let mut w = ShortWriter { buf: Vec::new(), chunk: if renderings == 2 { usize::MAX } else { [1usize, 7, 100][(tree_evals % 3) as usize] } };
        for _ in 0..renderings {
            w.buf.clear();
            graph.render_dot(&mut w)?;
        }
        Ok::<_, std::io::Error>(w.buf)
    }) {
        Ok(Ok(b)) => String::from_utf8_lossy(&b).to_string(),
        Ok(Err(e)) => {
            st.violate("c14.tree", "C14:tree:render-error".into(), format!("`{}`: {}", text, e), case());
            return;
        }
        Err(c) => {
            st.violate("c14.tree", format!("C14:tree:{}", c.signature()), format!("`{}`: {:?}", text, c), case());
            return;
        }
    };
    judge_tree_dot(st, &dot_text, &tree, text, &case);
}

fn judge_tree_dot(st: &mut Stats, dot_text: &str, tree: &Ast, text: &str, case: &dyn Fn() -> Value) {
    st.bump("tree_exports");
    let dot = match dotread::parse(dot_text) {
        Ok(d) => d,
        Err(e) => {
            st.violate("c14.tree", "C14:tree:unreadable".into(), format!("parse-tree DOT of `{}` cannot be read back: {}\n{}", text, e, dot_text), case());
            return;
        }
    };
    match dotread::term_of_parse_tree(&dot) {
        Err(e) => st.violate("c14.tree", format!("C14:tree:structure:{}", e.split_whitespace().take(2).collect::<Vec<_>>().join("-")), format!("parse-tree DOT of `{}`: {}\n{}", text, e, dot_text), case()),
        Ok(term) => {
            if &term != tree {
                st.violate("c14.tree", format!("C14:tree:another-term:{}", tree.kind_name()), format!("parse-tree DOT of `{}` reads back as\n {:?}\nbut the syntax tree is\n {:?}\n{}", text, term, tree, dot_text), case());
                return;
            }
            // each distinct sub-term exactly once
            let mut distinct: Vec<Ast> = Vec::new();
            let mut total = 0usize;
            tree.visit(&mut |n| {
                total += 1;
                if !distinct.contains(n) {
                    distinct.push(n.clone());
                }
            });
            if dot.nodes.len() != distinct.len() {
                st.violate("c14.tree", "C14:tree:node-count".into(), format!("parse-tree DOT of `{}` declares {} nodes, the tree has {} distinct sub-terms\n{}", text, dot.nodes.len(), distinct.len(), dot_text), case());
                return;
            }
            tree.visit(&mut |n| st.bump(&format!("node_{}", n.kind_name())));
            if total > distinct.len() {
                st.bump("trees_with_repeated_subterms");
                st.nt.insert(util::hash_str(text));
            }
            if st.want_sample() && total > distinct.len() && st.evals % 701 == 9 {
                st.sample(json!({"text": text, "dot": dot_text}));
            }
        }
    }
}

fn tree_job(ctx: &Ctx, job: usize, iters: u64) -> Stats {
    let mut st = Stats::new();
    let mut rng = Rng::stream(ctx.seed, "C14.tree", job as u64);
    for it in 0..iters {
        let pool: &[&str] = if it % 3 == 0 { &gen::FANCY_NAMES } else if it % 6 == 1 { gen::rare_pool(it / 16 as u64) } else { &gen::PLAIN_NAMES };
        let mut cfg = GenCfg::simple(&pool[..3], 4);
        cfg.allow_ref = true;
        cfg.binder_weight = 20;
        let ast = gen::gen_ast(&mut rng, &cfg);
        let text = gen::render(&ast, &mut rng, Style::Plain);
        check_tree_text(&mut st, &text, "random");
    }
    st
}

/// `rsbdd --evaluate=<text> -d f -p g [-f t|f]`
fn cli_case(ctx: &Ctx, st: &mut Stats, text: &str, filter: Option<&str>, tag: &str) {
    let Ok(ast) = refsyn::parse_text(text) else { return };
    if ast.has_kind(&|a| matches!(a, Ast::Ref(_))) {
        return;
    }
    let names = ast.names_in_text_order();
    if names.len() > 10 {
        return;
    }
    let Ok(_convergent) = Sem::new(&names).eval(&ast) else { return };
    // what the export must denote is what the ENGINE parsed and computed (its correctness is C01/C08's subject)
    let (engine_tree, want) = match engine_eval(text.as_bytes(), None, 20_000_000, 100_000) {
        EngineOut::Ok(ev) => match crate::conv::tt_of_named(&ev.result, &names) {
            Ok(t) => (ev.ast, t),
            Err(_) => return,
        },
        _ => return,
    };
    let dir = ctx.fresh_dir(&format!("c14-{}", tag));
    let _ = std::fs::create_dir_all(&dir);
    let (dp, pp) = (dir.join(hostile_file_name(text.len(), "bdd.dot")), dir.join(hostile_file_name(text.len() / 2, "tree.dot")));
    // every other case: the export files already exist and are longer than what will be written
    if text.len() % 2 == 0 {
        let _ = std::fs::write(&dp, stale_content());
        let _ = std::fs::write(&pp, stale_content());
    }
    let mut args = vec![format!("--evaluate={}", text), "-d".to_string(), dp.display().to_string(), "-p".to_string(), pp.display().to_string()];
    if let Some(f) = filter {
        args.push("-f".into());
        args.push(f.into());
    }
    st.evals += 1;
    st.bump("cli_runs");
    let out = cli::run(&ctx.bin("rsbdd"), &args, None, Some(&dir), Some((20_000_000, 100_000)), Duration::from_secs(60));
    let case = || json!({"kind": "cli", "text": text, "filter": filter});
    if out.timed_out || out.budget_exceeded() {
        st.bump("out_of_budget(inconclusive case)");
    } else if !out.ok() {
        st.violate("c14.cli", format!("C14:cli:run-failed:{}", out.panic_site()), format!("rsbdd {:?} failed: {}\n{}", args, out.status_string(), out.stderr_str()), case());
    } else {
        let fname = match filter {
            None | Some("any") | Some("a") => "any",
            Some("t") | Some("True") | Some("1") => "true",
            _ => "false",
        };
        match std::fs::read_to_string(&dp) {
            Ok(d) => judge_bdd_dot(st, &d, &want, &names, fname, None, text, &case),
            Err(e) => st.violate("c14.cli", "C14:cli:no-dot-file".into(), format!("-d file not written: {}", e), case()),
        }
        match std::fs::read_to_string(&pp) {
            Ok(d) => {
                judge_tree_dot(st, &d, &engine_tree, text, &case);
            }
            Err(e) => st.violate("c14.cli", "C14:cli:no-tree-file".into(), format!("-p file not written: {}", e), case()),
        }
        if !want.is_const() {
            st.nt.insert(mix(util::hash_str(text), util::hash_str(fname)));
        }
    }
    let _ = std::fs::remove_dir_all(&dir);
}

/// `-p X -d X` (the same path, or a symbolic link to it): whichever export is written last, the
/// file must hold ONE complete export — the diagram's or the parse tree's — not a mixture.
fn aliased_exports_case(ctx: &Ctx, st: &mut Stats, text: &str, through_link: bool, tag: &str) {
    let Ok(ast) = refsyn::parse_text(text) else { return };
    if ast.has_kind(&|a| matches!(a, Ast::Ref(_))) {
        return;
    }
    let names = ast.names_in_text_order();
    if names.len() > 10 || Sem::new(&names).eval(&ast).is_err() {
        return;
    }
    let (engine_tree, want) = match engine_eval(text.as_bytes(), None, 20_000_000, 100_000) {
        EngineOut::Ok(ev) => match crate::conv::tt_of_named(&ev.result, &names) {
            Ok(t) => (ev.ast, t),
            Err(_) => return,
        },
        _ => return,
    };
    let dir = ctx.fresh_dir(&format!("c14-alias-{}", tag));
    let _ = std::fs::create_dir_all(&dir);
    let target = dir.join("both exports.dot");
    let second = if through_link {
        let l = dir.join("link.dot");
        let _ = std::fs::write(&target, "");
        let _ = std::os::unix::fs::symlink(&target, &l);
        l
    } else {
        target.clone()
    };
    let args = vec![format!("--evaluate={}", text), "-p".to_string(), target.display().to_string(), "-d".to_string(), second.display().to_string()];
    st.evals += 1;
    st.bump("cli_runs_with_both_exports_into_one_file");
    let out = cli::run(&ctx.bin("rsbdd"), &args, None, Some(&dir), Some((20_000_000, 100_000)), Duration::from_secs(60));
    let case = || json!({"kind": "aliased-exports", "text": text, "through_link": through_link});
    if out.timed_out || out.budget_exceeded() {
        st.bump("out_of_budget(inconclusive case)");
    } else if out.ok() {
        let held = std::fs::read_to_string(&target).unwrap_or_default();
        let parsed = dotread::parse(&held);
        let is_diagram = parsed.as_ref().ok().and_then(|d| dotread::eval_bdd_dot(d, &names, "any").ok()).map_or(false, |(t, _)| t == want);
        let is_tree = parsed.as_ref().ok().and_then(|d| dotread::term_of_parse_tree(d).ok()).map_or(false, |t| t == engine_tree);
        if !is_diagram && !is_tree {
            st.violate("c14.cli", "C14:cli:aliased-exports-mixed".into(), format!("rsbdd --evaluate=`{}` -p X -d {}: afterwards X holds neither the diagram's DOT nor the parse tree's ({} bytes):\n{}", text, if through_link { "<symbolic link to X>" } else { "X" }, held.len(), held.chars().take(1500).collect::<String>()), case());
        } else {
            st.bump(if is_diagram { "aliased_exports_file_holds_the_diagram" } else { "aliased_exports_file_holds_the_parse_tree" });
        }
    } else if out.crashed() {
        st.violate("c14.cli", format!("C14:cli:run-failed:{}", out.panic_site()), format!("rsbdd {:?} failed: {}", args, out.status_string()), case());
    }
    let _ = std::fs::remove_dir_all(&dir);
}

fn cli_job(ctx: &Ctx, job: usize, iters: u64) -> Stats {
    let mut st = Stats::new();
    let mut rng = Rng::stream(ctx.seed, "C14.cli", job as u64);
    for i in 0..iters {
        let pool: &[&str] = if i % 3 == 0 { &gen::FANCY_NAMES } else { &gen::PLAIN_NAMES };
        let mut cfg = GenCfg::simple(&pool[..5], 4);
        cfg.max_fix_depth = 1;
        let ast = gen::gen_ast(&mut rng, &cfg);
        let text = gen::render(&ast, &mut rng, Style::Plain);
        let filter = match rng.below(4) {
            0 => None,
            1 => Some(rng.pick_str(&["t", "True", "1"])),
            2 => Some(rng.pick_str(&["f", "False", "0"])),
            _ => Some(rng.pick_str(&["any", "a"])),
        };
        cli_case(ctx, &mut st, &text, filter, &format!("{}-{}", job, i));
        if i % 4 == 1 {
            // both exports into one file: a long text with a small diagram and the other way round
            let long_tree_small_diagram = format!("(({}) & false) | ({})", text, ["a", "x | y", "b & -b"][(i as usize / 4) % 3]);
            aliased_exports_case(ctx, &mut st, if i % 8 == 1 { &text } else { &long_tree_small_diagram }, i % 16 >= 8, &format!("{}-{}", job, i));
        }
    }
    st
}

pub fn run(ctx: &Ctx) -> (Stats, Spec) {
    let mut st = Stats::new();
    exhaustive_bdd(&mut st);
    st.exhaustive.push("diagram exports: all 256 functions over 3 variables x filters Any/True/False for BDDEnv<usize> (adjacent and sparse labels) and for BDDEnv<String> with symbols containing a quote, a backslash, a newline and non-ASCII letters".into());
    let (bdd_iters, tree_iters, cli_iters) = ctx.tier.pick((8_000u64, 15_000u64, 100u64), (150_000u64, 120_000u64, 1_500u64));
    let parts = util::par_jobs(16, |j| {
        let mut s = random_bdd_job(ctx, j, bdd_iters);
        s.merge(tree_job(ctx, j, tree_iters));
        s.merge(cli_job(ctx, j, cli_iters));
        s
    });
    st.merge(crate::report::merge_all(parts));
    big_env_export(ctx, &mut st, ctx.tier.pick(3_600usize, 10_000usize));
    wide_heap_export(ctx, &mut st);
    for t in [
        "[a, a] = 1", "(a & b) | (a & b)", "exists b, c # a | (b ^ c)", "if a then a else a", "[a, b] >= [b, a]", "lfp X # X | a", "gfp X # lfp Y # X & Y", "-(-a)", "{r} & {r}", "true & false", "a' | é", "forall # a", "[] = 0", "[a,] < [b,]",
        "a nor (b nand (c <= (d => (e <=> (f ^ a)))))",
    ] {
        check_tree_text(&mut st, t, "fixed");
    }
    let mut k = 0;
    for t in ["a & b", "a | b", "a ^ b ^ c", "true", "false", "a & -a", "[a, b, c] = 1", "exists a # a & b", "a' | é"] {
        for f in [None, Some("t"), Some("f")] {
            k += 1;
            cli_case(ctx, &mut st, t, f, &format!("fixed-{}", k));
        }
    }
    let spec = Spec {
        rule: "diagram exports (exhaustive over 3 variables x 3 filters x 3 symbol kinds, random over 4-7 sparse labels, and one result of a LARGE old environment — about 300 000 nodes — that reaches a sub-diagram obtained both before and after the growth) are read back as decision graphs: ids unique, edges only to declared nodes, one T and one F edge per test node (filter Any), omitted leaf and its edges only (filter True/False), single root, every declared node reachable, number of test nodes = distinct nodes of the diagram, evaluated function = the diagram's. Parse-tree exports of random texts (every node kind, references, repeated sub-terms) are rebuilt into terms and compared with the syntax tree; one DOT node per distinct sub-term. CLI: `rsbdd -d f -p g [-f spelling]`. distinct = (table, filter, labels) resp. text; non-trivial = non-constant function with >= 2 support variables resp. tree with a repeated sub-term.".into(),
        assumptions: vec!["DOT is read in the dialect the dot crate emits (one statement per line, label=\"…\" with Rust escape_default escapes)".into()],
        floors: vec![
            ("bdd_exports_filter_any".into(), 700, "diagram exports hardly exercised".into()),
            ("bdd_exports_filter_true".into(), 700, "filter True hardly exercised".into()),
            ("bdd_exports_filter_false".into(), 700, "filter False hardly exercised".into()),
            ("exports_with_symbols_needing_escapes".into(), 700, "escaping not exercised".into()),
            ("tree_exports".into(), 5_000, "parse-tree exports hardly exercised".into()),
            ("trees_with_repeated_subterms".into(), 500, "repeated sub-terms hardly exercised".into()),
            ("cli_runs".into(), 100, "CLI hardly exercised".into()),
            ("big_environment_exports".into(), 1, "export from a large environment not exercised".into()),
        ],
    };
    (st, spec)
}

pub fn replay(ctx: &Ctx, _monitor: &str, case: &Value, st: &mut Stats) {
    match case.get("kind").and_then(|k| k.as_str()).unwrap_or("") {
        "tree" => check_tree_text(st, case.get("text").and_then(|t| t.as_str()).unwrap_or(""), "replay"),
        "cli" => cli_case(ctx, st, case.get("text").and_then(|t| t.as_str()).unwrap_or(""), case.get("filter").and_then(|f| f.as_str()), "replay"),
        "aliased-exports" => aliased_exports_case(ctx, st, case.get("text").and_then(|t| t.as_str()).unwrap_or(""), case.get("through_link").and_then(|f| f.as_bool()).unwrap_or(false), "replay"),
        "wide-heap" => {
            let mut c2 = ctx.clone();
            c2.seed = case.get("seed").and_then(|j| j.as_u64()).unwrap_or(ctx.seed);
            wide_heap_export(&c2, st);
        }
        "bdd-unreduced" => unreduced_exports(st),
        "big-env" => {
            let mut c2 = ctx.clone();
            c2.seed = case.get("seed").and_then(|j| j.as_u64()).unwrap_or(ctx.seed);
            big_env_export(&c2, st, case.get("functions").and_then(|j| j.as_u64()).unwrap_or(3_600) as usize);
        }
        "bdd" => {
            let labels = parse_labels(case, "labels");
            let Some(t) = parse_table(case, "table") else { return };
            let env: BDDEnv<usize> = BDDEnv::new();
            let d = build_in_env(&env, &t, &vars_of(&labels));
            let names: Vec<String> = labels.iter().map(|l| l.to_string()).collect();
            let fname = case.get("filter").and_then(|f| f.as_str()).unwrap_or("any").to_string();
            let f = FILTERS.iter().find(|x| x.0 == fname).map(|x| x.1).unwrap_or(TruthTableEntry::Any);
            let c2 = case.clone();
            check_bdd_export(st, &d, &t, &names, &fname, f, &move || c2.clone());
        }
        _ => {
            let mut s2 = Stats::new();
            exhaustive_bdd(&mut s2);
            st.merge(s2);
        }
    }
}

#[allow(dead_code)]
fn _t<S: BDDSymbol>(d: &Rc<BDD<S>>, n: u32) -> Option<Tt> {
    tt_of_bdd(d, n, &|_s: &S| None).ok()
}
