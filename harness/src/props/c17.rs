//! C17 — sudoku_gen emits a formula whose models are exactly the puzzle's solutions.
//!
//! Monitor: offline checker over the real generator's output: reference parse, independent model
//! enumeration (solve3), models decoded through `_c_is_d`, compared with an independent sudoku
//! backtracking solver (set equality; one model per grid).

use crate::cli;
use crate::puzzles;
use crate::refsyn;
use crate::report::{Ctx, Spec, Stats};
use crate::solve3;
use crate::util::{self, mix, Rng};
use serde_json::{json, Value};
use std::collections::BTreeSet;
use std::time::Duration;

#[derive(Debug, Clone)]
pub struct Case {
    pub root: usize,
    pub puzzle: String,
    /// 0: file in / stdout; 1: stdin / stdout; 2: file in / file out; 3: named pipe as INPUT;
    /// 4: /dev/stdin as INPUT; 5: stdin in small pieces (see common::plan_input)
    pub io: u8,
    /// compare the complete model set (else: structural probes only)
    pub exact: bool,
    /// a completed grid known to respect the givens (probe mode; avoids searching large grids)
    pub known_solution: Option<Vec<usize>>,
}

impl Case {
    fn to_json(&self) -> Value {
        json!({"root": self.root, "puzzle": self.puzzle, "io": self.io, "exact": self.exact, "known_solution": self.known_solution})
    }
}

/// givens as the statement defines them: whitespace ignored, digits 1..r^2 are givens, anything else blank
fn givens_of(root: usize, puzzle: &str) -> Vec<usize> {
    let sq = root * root;
    puzzle.chars().filter(|c| !c.is_whitespace()).take(sq * sq).map(|c| c.to_digit(10).map(|d| d as usize).filter(|d| *d >= 1 && *d <= sq).unwrap_or(0)).collect()
}

pub fn check_case(ctx: &Ctx, st: &mut Stats, c: &Case, tag: &str) {
    st.evals += 1;
    let dir = ctx.fresh_dir(&format!("c17-{}", tag));
    let _ = std::fs::create_dir_all(&dir);
    let output = super::common::spelled_output(&dir, c.puzzle.len() / 2, &super::common::hostile_file_name(c.puzzle.len(), "out.txt"));
    let plan = super::common::plan_input(c.io, &dir, "puzzle.txt", c.puzzle.as_bytes());
    let mut args: Vec<String> = match c.puzzle.len() % 5 {
        0 => vec![format!("-r{}", c.root)],
        1 => vec![format!("-r={}", c.root)],
        2 => vec![format!("--root={}", c.root)],
        3 => vec!["--root".to_string(), c.root.to_string()],
        _ => vec!["-r".to_string(), c.root.to_string()],
    };
    if let Some(p) = &plan.path_arg {
        args.push(p.clone());
    }
    if c.io == 0 && c.puzzle.len() % 2 == 1 {
        // OUTPUT names the process's own standard output
        args.push("/dev/stdout".into());
    }
    if c.io == 2 {
        // the output file already exists and is longer than what will be written
        if c.puzzle.len() % 2 == 0 {
            let _ = std::fs::write(&output, super::common::stale_content());
        } else {
            // ... or is what an EARLIER run of the tool wrote there for another puzzle of the same root
            let earlier = dir.join("earlier puzzle.txt");
            let side = c.root * c.root;
            let _ = std::fs::write(&earlier, format!("1{}", ".".repeat(side * side - 1)));
            let first = vec!["-r".to_string(), c.root.to_string(), earlier.display().to_string(), output.display().to_string()];
            let _ = cli::run(&ctx.bin("sudoku_gen"), &first, None, Some(&dir), None, Duration::from_secs(60));
            st.bump("outputs_onto_a_file_left_by_an_earlier_run");
        }
        args.push(output.display().to_string());
    }
    st.bump(&format!("input_channel_{}", c.io));
    let mut feed = plan.feed.clone();
    feed.stdout_tty = c.io != 2 && c.puzzle.len() % 4 == 3 && !args.iter().any(|a| a == "/dev/stdout");
    let out = cli::run_fed(&ctx.bin("sudoku_gen"), &args, plan.stdin.as_deref(), &feed, Some(&dir), None, Duration::from_secs(60));
    let text = if c.io == 2 { std::fs::read_to_string(&output).unwrap_or_default() } else { out.stdout_str() };
    let _ = std::fs::remove_dir_all(&dir);
    let case = || c.to_json();
    let desc = format!("sudoku_gen -r {} on {:?}", c.root, c.puzzle);
    if out.timed_out {
        st.bump("watchdog(inconclusive case)");
        return;
    }
    if !out.ok() {
        st.violate("c17.run", format!("C17:generator-failed:{}", out.panic_site()), format!("{}: {} {}", desc, out.status_string(), out.stderr_str()), case());
        return;
    }
    let ast = match refsyn::parse_text(&text) {
        Ok(a) => a,
        Err(e) => {
            st.violate("c17.well-formed", "C17:not-a-formula".into(), format!("{}: the output is not a sentence of the grammar: {:?}\n first lines: {}", desc, e, text.lines().take(3).collect::<Vec<_>>().join(" / ")), case());
            return;
        }
    };
    let p = match solve3::compile(&ast) {
        Ok(p) => p,
        Err(e) => {
            st.violate("c17.well-formed", "C17:unexpected-construct".into(), format!("{}: {}", desc, e), case());
            return;
        }
    };
    let sq = c.root * c.root;
    let cells = sq * sq;
    // variables: exactly _c_is_d for c < cells, 1 <= d <= sq
    let want: BTreeSet<String> = (0..cells).flat_map(|i| (1..=sq).map(move |d| format!("_{}_is_{}", i, d))).collect();
    let have: BTreeSet<String> = p.names.iter().cloned().collect();
    if want != have {
        let extra: Vec<&String> = have.difference(&want).take(4).collect();
        let missing: Vec<&String> = want.difference(&have).take(4).collect();
        st.violate("c17.variables", "C17:wrong-variable-set".into(), format!("{}: unexpected variables {:?}, missing {:?}", desc, extra, missing), case());
        return;
    }
    let var = |i: usize, d: usize| p.index[&format!("_{}_is_{}", i, d)];
    let givens = givens_of(c.root, &c.puzzle);
    st.bump(&format!("root_{}", c.root));
    if c.exact {
        let limit = 3000;
        let reference = match puzzles::sudoku_all(c.root, &givens, limit) {
            Some(r) => r,
            None => {
                st.bump("too_many_solutions(skipped)");
                return;
            }
        };
        match solve3::Search::new(&p, limit * 2 + 10, 3_000_000).run() {
            Err(_) => st.bump("model_enumeration_gave_up(inconclusive case)"),
            Ok((models, nodes)) => {
                st.add("search_nodes", nodes);
                let mut got: BTreeSet<Vec<usize>> = BTreeSet::new();
                for m in &models {
                    if m.iter().any(|x| x.is_none()) {
                        st.violate("c17.models", "C17:unconstrained-variable".into(), format!("{}: a model leaves a variable unconstrained", desc), case());
                        return;
                    }
                    let mut grid = vec![0usize; cells];
                    for i in 0..cells {
                        let ds: Vec<usize> = (1..=sq).filter(|d| m[var(i, *d)] == Some(true)).collect();
                        if ds.len() != 1 {
                            st.violate("c17.models", "C17:cell-without-unique-digit".into(), format!("{}: a model gives cell {} the digits {:?}", desc, i, ds), case());
                            return;
                        }
                        grid[i] = ds[0];
                    }
                    if !got.insert(grid) {
                        st.violate("c17.models", "C17:two-models-one-grid".into(), format!("{}: two models decode to the same grid", desc), case());
                        return;
                    }
                }
                let refset: BTreeSet<Vec<usize>> = reference.into_iter().collect();
                if got != refset {
                    let extra: Vec<&Vec<usize>> = got.difference(&refset).take(1).collect();
                    let missing: Vec<&Vec<usize>> = refset.difference(&got).take(1).collect();
                    st.violate(
                        "c17.models",
                        if got.len() > refset.len() || !extra.is_empty() { "C17:model-is-not-a-solution".to_string() } else { "C17:solution-is-not-a-model".to_string() },
                        format!("{}: {} models, {} solutions; model that is no solution: {:?}; solution that is no model: {:?}", desc, got.len(), refset.len(), extra, missing),
                        case(),
                    );
                    return;
                }
                st.add("grids_compared_exactly", got.len() as u64);
                st.bump("exact_cases");
                let ng = givens.iter().filter(|g| **g != 0).count();
                if ng >= 1 && ng < cells {
                    let norm: String = givens.iter().map(|g| char::from_digit(*g as u32, 36).unwrap_or('?')).collect();
                    st.nt.insert(mix(util::hash_str(&norm), c.root as u64));
                }
                if got.is_empty() {
                    st.bump("contradictory_puzzles");
                }
                if st.want_sample() && ng >= 2 && st.evals % 97 == 5 {
                    st.sample(json!({"root": c.root, "puzzle": c.puzzle, "solutions": got.len(), "first_solution": got.iter().next()}));
                }
            }
        }
    } else {
        // structural probes on the (possibly large) formula
        let mut rng = Rng::stream(util::hash_str(&c.puzzle), "C17.probe", c.root as u64);
        for _ in 0..200 {
            // two equal digits in one unit are definitely excluded
            let i = rng.usize(cells);
            let (r, col) = (i / sq, i % sq);
            let j = match rng.below(3) {
                0 => r * sq + rng.usize(sq),
                1 => rng.usize(sq) * sq + col,
                _ => (r / c.root * c.root + rng.usize(c.root)) * sq + col / c.root * c.root + rng.usize(c.root),
            };
            if i == j {
                continue;
            }
            let d = 1 + rng.usize(sq);
            st.bump("unit_pairs_probed");
            if solve3::probe(&p, &[(var(i, d), true), (var(j, d), true)], false) != Some(false) {
                st.violate("c17.probe", "C17:same-digit-twice-in-a-unit-allowed".into(), format!("{}: digit {} in cells {} and {} (same row, column or box) is not excluded", desc, d, i, j), case());
                return;
            }
            // a cell with two digits / without any digit is excluded
            let d2 = 1 + (d % sq);
            if solve3::probe(&p, &[(var(i, d), true), (var(i, d2), true)], false) != Some(false) {
                st.violate("c17.probe", "C17:cell-with-two-digits-allowed".into(), format!("{}: cell {} may hold {} and {}", desc, i, d, d2), case());
                return;
            }
            let none: Vec<(usize, bool)> = (1..=sq).map(|x| (var(i, x), false)).collect();
            if solve3::probe(&p, &none, false) != Some(false) {
                st.violate("c17.probe", "C17:cell-without-digit-allowed".into(), format!("{}: cell {} may stay empty", desc, i), case());
                return;
            }
        }
        // givens are forced
        for (i, g) in givens.iter().enumerate() {
            if *g != 0 {
                st.bump("givens_probed");
                if solve3::probe(&p, &[(var(i, *g), false)], false) != Some(false) {
                    st.violate("c17.probe", "C17:given-not-enforced".into(), format!("{}: the given {} in cell {} is not enforced", desc, g, i), case());
                    return;
                }
            }
        }
        // a full valid grid respecting the givens satisfies; a near-miss falsifies
        {
            let sols = match &c.known_solution {
                Some(g) if g.len() == cells && givens.iter().enumerate().all(|(i, d)| *d == 0 || g[i] == *d) => vec![g.clone()],
                _ => puzzles::sudoku_some(c.root, &givens, 1),
            };
            if let Some(g) = sols.first() {
                let mut asg = vec![false; p.names.len()];
                for (i, d) in g.iter().enumerate() {
                    asg[var(i, *d)] = true;
                }
                st.bump("full_grids_probed");
                if !solve3::eval_total(&p, &asg) {
                    st.violate("c17.probe", "C17:solution-rejected".into(), format!("{}: a valid completed grid falsifies the formula", desc), case());
                    return;
                }
                for _ in 0..5 {
                    let i = rng.usize(cells);
                    let d2 = 1 + (g[i] % sq);
                    let mut a2 = asg.clone();
                    a2[var(i, g[i])] = false;
                    a2[var(i, d2)] = true;
                    st.bump("near_misses_probed");
                    if solve3::eval_total(&p, &a2) {
                        st.violate("c17.probe", "C17:near-miss-accepted".into(), format!("{}: changing cell {} from {} to {} still satisfies the formula", desc, i, g[i], d2), case());
                        return;
                    }
                }
            }
        }
        st.nt.insert(mix(util::hash_str(&c.puzzle), 1000 + c.root as u64));
    }
}

const BLANKS: [char; 48] = ['.', '_', 'x', '-', '*', '?', 'o', '"', '·', '□', '＿', 'é', 'a', 'b', 'e', 'g', 'A', 'F', 'z', 'Z', '\u{feff}', '\u{200b}', '\u{ad}', '\u{2031}', '\u{2032}', '\u{2534}', '\u{131}', '\u{3030}', '\u{10031}', '\u{1f039}',
    // control characters (not whitespace), private-use, unassigned and non-characters, a lone combining mark, punctuation
    '\0', '\u{1}', '\u{7}', '\u{8}', '\u{1b}', '\u{7f}', '\u{80}', '\u{9f}', '\u{e000}', '\u{fffd}', '\u{10ffff}', '\u{301}', '\u{2060}', '\u{180e}', ',', ';', '|', '#'];

fn layout(rng: &mut Rng, root: usize, grid: &[usize]) -> String {
    let sq = root * root;
    let blank = *rng.pick(&BLANKS);
    let style = rng.below(7);
    let mut s = String::new();
    if style == 6 && rng.chance(1, 2) {
        s.push_str("\n\n"); // the text may start with empty lines
    }
    for (i, g) in grid.iter().enumerate() {
        if *g == 0 {
            s.push(if rng.chance(1, 6) { *rng.pick(&BLANKS) } else { blank });
        } else {
            s.push(char::from_digit(*g as u32, 10).unwrap());
        }
        match style {
            0 => {}
            1 => {
                if (i + 1) % sq == 0 {
                    s.push('\n');
                }
            }
            2 => {
                s.push(' ');
                if (i + 1) % sq == 0 {
                    s.push_str("\r\n");
                }
            }
            5 | 6 => {
                // one row per line, an EMPTY line (or a line of blanks) between the bands, as people write it
                if (i + 1) % sq == 0 {
                    s.push('\n');
                    if (i + 1) % (sq * root) == 0 {
                        s.push_str(if style == 5 { "\n" } else { "  \n\n" });
                    }
                }
            }
            3 => {
                if (i + 1) % root == 0 {
                    s.push('\t');
                }
                if (i + 1) % sq == 0 {
                    s.push('\n');
                }
            }
            _ => {
                if rng.chance(1, 4) {
                    s.push(*rng.pick(&[' ', '\n', '\t', '\u{a0}', '\u{2003}', '\u{3000}', '\u{b}', '\u{c}', '\u{85}', '\u{2028}']));
                }
            }
        }
    }
    s
}

fn random_full_grid(rng: &mut Rng, root: usize) -> Vec<usize> {
    // a random valid grid without search: the canonical pattern, then symmetries that preserve
    // validity (digit relabelling, row permutations within bands, band permutations, same for
    // columns, transposition)
    let sq = root * root;
    let perm_lines = |rng: &mut Rng| -> Vec<usize> {
        let mut bands: Vec<usize> = (0..root).collect();
        rng.shuffle(&mut bands);
        let mut out = Vec::new();
        for b in bands {
            let mut inner: Vec<usize> = (0..root).collect();
            rng.shuffle(&mut inner);
            for i in inner {
                out.push(b * root + i);
            }
        }
        out
    };
    let rows = perm_lines(rng);
    let cols = perm_lines(rng);
    let mut digits: Vec<usize> = (1..=sq).collect();
    rng.shuffle(&mut digits);
    let transpose = rng.chance(1, 2);
    let mut g = vec![0usize; sq * sq];
    for r in 0..sq {
        for c in 0..sq {
            let (rr, cc) = if transpose { (cols[c], rows[r]) } else { (rows[r], cols[c]) };
            let base = (root * (rr % root) + rr / root + cc) % sq;
            g[r * sq + c] = digits[base];
        }
    }
    debug_assert_eq!(puzzles::sudoku_some(root, &g, 2).len(), 1);
    g
}

fn job(ctx: &Ctx, jb: usize, r2: u64, r3: u64, r4: u64) -> Stats {
    let mut st = Stats::new();
    let mut rng = Rng::stream(ctx.seed, "C17", jb as u64);
    // r = 2: hint patterns (sub-patterns of valid grids, contradictory ones, short / over-long inputs)
    for i in 0..r2 {
        let full = random_full_grid(&mut rng, 2);
        let keep = rng.usize(17);
        let mut grid = vec![0usize; 16];
        let mut idx: Vec<usize> = (0..16).collect();
        rng.shuffle(&mut idx);
        for k in idx.iter().take(keep) {
            grid[*k] = full[*k];
        }
        match rng.below(6) {
            0 => {
                // contradiction: copy a digit within a row / column / box
                let a = rng.usize(16);
                let b = (a / 4) * 4 + rng.usize(4);
                let d = 1 + rng.usize(4);
                grid[a] = d;
                grid[b] = d;
            }
            1 => {
                // conflict only through a box
                grid[0] = 1;
                grid[5] = 1;
            }
            _ => {}
        }
        let mut text = layout(&mut rng, 2, &grid);
        match rng.below(8) {
            0 => text = text.chars().take(text.chars().count() / 2).collect(),
            1 => text.push_str("1234....1"),
            _ => {}
        }
        check_case(ctx, &mut st, &Case { root: 2, puzzle: text, io: rng.below(super::common::INPUT_MODES) as u8, exact: true, known_solution: None }, &format!("{}-a{}", jb, i));
    }
    // r = 3: puzzles with 30-60 givens from valid grids (small solution sets) — exact
    for i in 0..r3 {
        let full = random_full_grid(&mut rng, 3);
        let keep = 30 + rng.usize(31);
        let mut grid = vec![0usize; 81];
        let mut idx: Vec<usize> = (0..81).collect();
        rng.shuffle(&mut idx);
        for k in idx.iter().take(keep) {
            grid[*k] = full[*k];
        }
        if rng.chance(1, 8) {
            let a = rng.usize(81);
            grid[a] = 1 + rng.usize(9); // often contradictory
        }
        let text = layout(&mut rng, 3, &grid);
        check_case(ctx, &mut st, &Case { root: 3, puzzle: text, io: rng.below(super::common::INPUT_MODES) as u8, exact: true, known_solution: None }, &format!("{}-b{}", jb, i));
    }
    // r = 3 (empty / sparse) and r = 4: structural probes
    for i in 0..r4 {
        // (root 5: a 25 x 25 board, once per job in the thorough tier)
        // (quick: one root-5 board in the first job only)
        let root = if (r4 > 4 || jb == 0) && i == r4 - 1 { 5 } else if i % 2 == 0 { 3 } else { 4 };
        let full = random_full_grid(&mut rng, root);
        let cells = root * root * root * root;
        let mut grid = vec![0usize; cells];
        for k in 0..cells {
            if full[k] <= 9 && rng.chance(1, 5) {
                grid[k] = full[k];
            }
        }
        let text = layout(&mut rng, root, &grid);
        check_case(ctx, &mut st, &Case { root, puzzle: text, io: rng.below(super::common::INPUT_MODES) as u8, exact: false, known_solution: Some(full.clone()) }, &format!("{}-c{}", jb, i));
    }
    st
}

/// LARGE roots (r = 10, 11 [, 12]): boards with 10 000 - 20 736 cells and numbers of three digits,
/// so that variable names reach 13 and more bytes. The output (100+ MB) is not parsed as a formula
/// but scanned as text: every variable _c_is_d with c < r^4 and 1 <= d <= r^2 must occur, no other
/// may, and every `[..] = 1` list must name r^2 DIFFERENT variables.
fn large_root_scan(ctx: &Ctx, st: &mut Stats, root: usize) {
    let side = root * root;
    let cells = side * side;
    let dir = ctx.fresh_dir(&format!("c17-root-{}", root));
    let _ = std::fs::create_dir_all(&dir);
    let _ = std::fs::write(dir.join("p.txt"), ".");
    st.evals += 1;
    let out = cli::run(&ctx.bin("sudoku_gen"), &["-r".to_string(), root.to_string(), "p.txt".to_string()], None, Some(&dir), None, Duration::from_secs(300));
    let _ = std::fs::remove_dir_all(&dir);
    let case = || json!({"kind": "large-root", "root": root});
    if out.timed_out {
        st.bump("watchdog(inconclusive case)");
        return;
    }
    if !out.ok() {
        st.violate("c17.run", format!("C17:generator-failed:{}", out.panic_site()), format!("sudoku_gen -r {} on an empty puzzle: {}", root, out.status_string()), case());
        return;
    }
    let text = String::from_utf8_lossy(&out.stdout);
    let mut seen = vec![false; cells * side];
    let mut distinct = 0usize;
    let mut lists = 0u64;
    for line in text.lines() {
        let l = line.trim();
        if l.starts_with('"') || l.is_empty() {
            continue;
        }
        let mut in_list: Vec<usize> = Vec::new();
        for tok in l.split(|ch: char| !(ch.is_alphanumeric() || ch == '_')).filter(|t| t.starts_with('_')) {
            let parsed = tok.strip_prefix('_').and_then(|r| r.split_once("_is_")).and_then(|(c, d)| Some((c.parse::<usize>().ok()?, d.parse::<usize>().ok()?)));
            match parsed {
                Some((c, d)) if c < cells && d >= 1 && d <= side && format!("_{}_is_{}", c, d) == tok => {
                    let k = c * side + (d - 1);
                    if !seen[k] {
                        seen[k] = true;
                        distinct += 1;
                    }
                    in_list.push(k);
                }
                _ => {
                    st.violate("c17.variables", "C17:unknown-variable".into(), format!("sudoku_gen -r {}: the output mentions `{}`, which is no variable _c_is_d of a board with {} cells and the numbers 1..{}", root, tok, cells, side), case());
                    return;
                }
            }
        }
        if l.contains('[') && l.contains("= 1") {
            lists += 1;
            let mut u = in_list.clone();
            u.sort();
            u.dedup();
            if u.len() != in_list.len() || in_list.len() != side {
                st.violate("c17.variables", "C17:exactly-one-list-of-another-size".into(), format!("sudoku_gen -r {}: an exactly-one list names {} variables, {} of them different (expected {} different ones); it starts `{}`", root, in_list.len(), u.len(), side, l.chars().take(80).collect::<String>()), case());
                return;
            }
        }
    }
    if distinct != cells * side {
        let missing = seen.iter().position(|s| !*s).unwrap_or(0);
        st.violate("c17.variables", "C17:variables-missing".into(), format!("sudoku_gen -r {}: {} different variables occur, the board has {}; e.g. _{}_is_{} is missing", root, distinct, cells * side, missing / side, missing % side + 1), case());
        return;
    }
    st.bump("large_roots_scanned");
    st.add("exactly_one_lists_scanned", lists);
    st.max("max_root", root as u64);
    st.nt.insert(mix(0x17_aa, root as u64));
}

pub fn run(ctx: &Ctx) -> (Stats, Spec) {
    let (r2, r3, r4) = ctx.tier.pick((200u64, 6u64, 2u64), (3_000u64, 40u64, 6u64));
    let big_roots: Vec<usize> = ctx.tier.pick(vec![11usize], vec![10, 11, 12]);
    let parts = util::par_jobs(16, |j| {
        let mut s = job(ctx, j, r2, r3, r4);
        if j < big_roots.len() {
            large_root_scan(ctx, &mut s, big_roots[j]);
        }
        s
    });
    let mut st = crate::report::merge_all(parts);
    // r = 1: all inputs of length <= 2 over {1, ., space}
    let mut k = 0;
    for a in ["", "1", ".", " "] {
        for b in ["", "1", ".", " "] {
            k += 1;
            check_case(ctx, &mut st, &Case { root: 1, puzzle: format!("{}{}", a, b), io: (k % 6) as u8, exact: true, known_solution: None }, &format!("r1-{}", k));
        }
    }
    st.exhaustive.push("root 1: every input of length <= 2 over {1, ., space}".into());
    // fixed: the empty 4x4 puzzle (288 grids), the repository's example, blank symbols incl. the double quote
    check_case(ctx, &mut st, &Case { root: 2, puzzle: "".into(), io: 1, exact: true, known_solution: None }, "empty2");
    check_case(ctx, &mut st, &Case { root: 2, puzzle: "................".into(), io: 0, exact: true, known_solution: None }, "dots2");
    if let Ok(ex) = std::fs::read_to_string(ctx.repo_dir.join("examples/sudoku.txt")) {
        check_case(ctx, &mut st, &Case { root: 3, puzzle: ex, io: 0, exact: true, known_solution: None }, "example");
        st.bump("repository_example");
    }
    for b in BLANKS {
        let puzzle: String = "1.3...2.....4...".chars().map(|c| if c == '.' { b } else { c }).collect();
        check_case(ctx, &mut st, &Case { root: 2, puzzle, io: 0, exact: true, known_solution: None }, &format!("blank-{}", b as u32));
        st.bump("blank_symbols_probed");
        // ... and in a text LONGER than the board (the surplus is not part of the puzzle): more
        // occurrences of the blank symbol in the text than the board has cells
        // (an even and an odd number of them)
        for extra in [0usize, 1] {
            let long: String = format!("{}\n{}1{}\n{}", "1.3...2.....4...", "......", "...", ".".repeat(b as usize % 7 + 1 + extra)).chars().map(|c| if c == '.' { b } else { c }).collect();
            check_case(ctx, &mut st, &Case { root: 2, puzzle: long, io: 0, exact: true, known_solution: None }, &format!("blank-long-{}-{}", b as u32, extra));
            st.bump("blank_symbols_probed_in_over_long_texts");
        }
    }
    // puzzle texts larger than any I/O buffer: the 16 cells spread over ~30 KiB of whitespace
    for (k, pad) in ["\n".repeat(2_000), " \t".repeat(1_000), "\r\n\u{a0}".repeat(600)].iter().enumerate() {
        let puzzle: String = "1.3...2.....4...".chars().map(|c| format!("{}{}", c, pad)).collect();
        for io in [k as u8, k as u8 + 3] {
            check_case(ctx, &mut st, &Case { root: 2, puzzle: puzzle.clone(), io, exact: true, known_solution: None }, &format!("large-{}-{}", k, io));
            st.bump("large_inputs");
        }
    }
    if std::path::Path::new("/dev/full").exists() {
        for to_stdout in [false, true] {
            st.evals += 1;
            let args: Vec<&str> = if to_stdout { vec!["-r", "2"] } else { vec!["-r", "2", "/dev/stdin", "/dev/full"] };
            match super::common::fails_on_full_device(ctx, "sudoku_gen", &args, Some(b"1.3...2.....4..."), to_stdout) {
                Some(true) => st.bump("full_device_reported"),
                Some(false) => st.violate("c17.run", "C17:success-although-nothing-could-be-written".into(), format!("sudoku_gen with the output on a full device ({}) exits 0", if to_stdout { "stdout" } else { "OUTPUT = /dev/full" }), json!({"kind": "full-device"})),
                None => st.bump("watchdog(inconclusive case)"),
            }
        }
    }
    // file names that are not valid UTF-8: same formula as through stdin / stdout
    {
        let puzzle = "1.3...2.....4...";
        let plain = cli::run(&ctx.bin("sudoku_gen"), &["-r".to_string(), "2".to_string()], Some(puzzle.as_bytes()), None, None, Duration::from_secs(60));
        let (out, written) = super::common::run_with_non_utf8_paths(ctx, "sudoku_gen", &["-r", "2"], Some(puzzle.as_bytes()), &[], true, "c17");
        st.evals += 1;
        if !out.timed_out && !plain.timed_out {
            let same = matches!((written.as_deref().map(refsyn::parse_text), refsyn::parse_text(&plain.stdout_str())), (Some(Ok(x)), Ok(y)) if x == y);
            if !out.ok() || !same || !out.stdout_str().trim().is_empty() {
                st.violate("c17.run", "C17:non-utf8-file-names".into(), format!("sudoku_gen -r 2 IN OUT with file names that are not valid UTF-8: {}; OUT holds {:?} bytes, stdout {} bytes (expected the formula in OUT only)", out.status_string(), written.as_ref().map(|w| w.len()), out.stdout.len()), json!({"kind": "non-utf8-names"}));
            } else {
                st.bump("file_names_not_valid_utf8");
            }
        }
    }
    let spec = Spec {
        rule: "root 1 exhaustively; root 2: the empty puzzle (288 grids) and random hint patterns (0-16 givens taken from valid grids, contradictory patterns incl. box-only conflicts, truncated and over-long inputs, puzzle texts spread over ~30 KiB of whitespace, 7 layouts with spaces/newlines/tabs/CRLF and empty lines between the bands or at the start, 8 input channels (regular file, a regular file named `-`, a regular file on stdin of which an earlier reader consumed a line, stdin at once / in small pieces, a named pipe or /dev/stdin as INPUT, file-to-file onto an existing longer file), 48 blank symbols incl. the double quote (each also in a text longer than the board, with more blanks in the text than the board has cells), control characters that are not whitespace (NUL, BEL, BS, ESC, DEL, U+0080, U+009F), private-use / unassigned / non-characters, a lone combining mark, punctuation, characters whose code point ends in the byte / 16-bit value of an ASCII digit (U+2031, U+2534, U+0131, U+10031, ..), format characters that are not whitespace (U+FEFF — a byte order mark when it comes first —, U+200B, U+00AD), multi-byte characters (·, □, ＿, é) and ASCII letters that are digits in a larger radix (a, b, e, g, A, F), ASCII and Unicode whitespace); root 3: puzzles with 30-60 givens derived from generated valid grids and the repository's example (exact model sets), sparse puzzles, root 4 and root 5 (one 25 x 25 board [quick], one per worker [thorough]) by structural probes, root 11 [quick] / 10-12 [thorough] by a scan of the text (every variable _c_is_d of the board occurs, no other does, every exactly-one list names r^2 different variables); probes: (same digit twice in a unit, two digits / no digit in a cell, givens enforced, a valid grid satisfies, near-misses falsify). Exact = all models enumerated, decoded through _c_is_d and compared as a set with an independent backtracking solver. distinct = (root, normalised givens); non-trivial = at least one given and one blank.".into(),
        assumptions: vec![
            "givens are digits between 1 and r^2; 0 and larger digits are outside the statement's domain and are not generated".into(),
            "rsbdd itself cannot solve even the 4x4 formula within minutes, so there is no engine cross-check here".into(),
        ],
        floors: vec![
            ("exact_cases".into(), 200, "too few exact comparisons".into()),
            ("contradictory_puzzles".into(), 20, "contradictory puzzles hardly exercised".into()),
            ("root_3".into(), 10, "root 3 hardly exercised".into()),
            ("blank_symbols_probed".into(), 12, "blank symbols not probed".into()),
            ("unit_pairs_probed".into(), 500, "structural probes hardly exercised".into()),
            ("distinct_nontrivial".into(), 150, "too few non-trivial puzzles".into()),
        ],
    };
    (st, spec)
}

pub fn replay(ctx: &Ctx, _monitor: &str, case: &Value, st: &mut Stats) {
    let c = Case {
        root: case.get("root").and_then(|r| r.as_u64()).unwrap_or(2) as usize,
        puzzle: case.get("puzzle").and_then(|p| p.as_str()).unwrap_or("").to_string(),
        io: case.get("io").and_then(|b| b.as_u64()).unwrap_or(0) as u8,
        exact: case.get("exact").and_then(|b| b.as_bool()).unwrap_or(true),
        known_solution: case.get("known_solution").and_then(|k| k.as_array()).map(|a| a.iter().filter_map(|x| x.as_u64().map(|v| v as usize)).collect()),
    };
    check_case(ctx, st, &c, "replay");
}
