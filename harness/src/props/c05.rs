//! C05 — counting comparisons count the true operands exactly.
//!
//! Monitor: aln/amn/exn and count_leq/lt/geq/gt/eq results are read back as truth tables and
//! compared with per-assignment popcount arithmetic (i128, no overflow in the oracle); the language
//! forms `[..] cmp n` / `[..] cmp [..]` are judged by name against the reference semantics.

use super::common::*;
use crate::conv::{build_in_env, short, tt_of_bdd};
use crate::refsem::{count_vs_const, count_vs_count};
use crate::refsyn::{self, Cmp};
use crate::report::{Ctx, Spec, Stats};
use crate::tt::Tt;
use crate::util::{self, guarded, mix, Rng};
use rsbdd::bdd::{BDDEnv, BDD};
use rsbdd::parser::ParsedFormula;
use serde_json::{json, Value};
use std::io::BufReader;
use std::rc::Rc;

fn bounds_for(len: usize) -> Vec<i64> {
    let l = len as i64;
    let mut v: Vec<i64> = (-3..=l + 3).collect();
    v.extend_from_slice(&[i64::MIN + l, i64::MIN + l + 1, -(1 << 40), 1 << 40, i64::MAX - l - 1, i64::MAX - l]);
    v.sort();
    v.dedup();
    v
}

fn tables_json(ts: &[&(D, Tt)]) -> Value {
    json!(ts.iter().map(|x| x.1.hex()).collect::<Vec<_>>())
}

fn check_const(st: &mut Stats, env: &BDDEnv<usize>, uni: &[usize], ops: &[&(D, Tt)], n: i64, fam: &str) {
    let nv = uni.len() as u32;
    let idx = idx_fn(uni);
    // (every third operand is a private copy the engine becomes the sole owner of)
    let ds: Vec<D> = ops.iter().enumerate().map(|(i, x)| hand_over(&x.0, st.evals + i as u64)).collect();
    let ts: Vec<Tt> = ops.iter().map(|x| x.1.clone()).collect();
    for (kind, cmp) in [("aln", Cmp::AtLeast), ("amn", Cmp::AtMost), ("exn", Cmp::Exactly)] {
        st.evals += 1;
        st.bump(kind);
        let case = || json!({"kind": kind, "ops": tables_json(ops), "n": n.to_string(), "universe": labels_json(uni)});
        util::budget(if fam == "long" { 4_000_000_000 } else { 50_000_000 }, 1000);
        let r = guarded(|| match kind {
            "aln" => env.aln(&ds, n),
            "amn" => env.amn(&ds, n),
            _ => env.exn(&ds, n),
        });
        let r = match r {
            Ok(r) => r,
            Err(c) => {
                st.violate("c05.panic", format!("C05:{}:{}", kind, c.signature()), format!("{}(list of {}, {}) did not return: {:?}", kind, ds.len(), n, c), case());
                continue;
            }
        };
        let want = count_vs_const(nv, &ts, cmp, n as i128);
        match tt_of_bdd(&r, nv, &idx) {
            Ok(got) if got == want => {}
            Ok(got) => {
                let a = got.xor(&want).first_one().unwrap_or(0);
                let cnt = ts.iter().filter(|t| t.get(a)).count();
                st.violate(
                    "c05.count",
                    format!("C05:{}:wrong-value", kind),
                    format!("{}(ops, {}) wrong under assignment #{}: {} operands are true there, result says {}\n ops = {:?}\n result = {}", kind, n, a, cnt, got.get(a), ops.iter().map(|x| short(&x.0)).collect::<Vec<_>>(), short(&r)),
                    case(),
                );
            }
            Err(e) => st.violate("c05.count", format!("C05:{}:foreign-variable", kind), e, case()),
        }
        let nontrivial = ts.iter().filter(|t| !t.is_const()).count() >= 2;
        if nontrivial {
            let mut h = mix(util::hash_str(kind), n as u64);
            for t in &ts {
                h = mix(h, t.hash64());
            }
            st.nt.insert(mix(h, util::hash_str(fam)));
        }
        if n < 0 {
            st.bump("negative_bounds");
        } else if n as u128 > ds.len() as u128 {
            st.bump("bounds_beyond_length");
        }
        if n.unsigned_abs() > (1 << 39) {
            st.bump("extreme_bounds");
        }
        if st.want_sample() && nontrivial && st.evals % 6007 == 5 {
            st.sample(json!({"call": format!("{}([..{} operands..], {})", kind, ds.len(), n), "ops": ops.iter().map(|x| short(&x.0)).collect::<Vec<_>>(), "result": short(&r)}));
        }
    }
}

fn check_lists(st: &mut Stats, env: &BDDEnv<usize>, uni: &[usize], a: &[&(D, Tt)], b: &[&(D, Tt)], fam: &str) {
    let nv = uni.len() as u32;
    let idx = idx_fn(uni);
    let da: Vec<D> = a.iter().map(|x| Rc::clone(&x.0)).collect();
    let db: Vec<D> = b.iter().map(|x| Rc::clone(&x.0)).collect();
    let ta: Vec<Tt> = a.iter().map(|x| x.1.clone()).collect();
    let tb: Vec<Tt> = b.iter().map(|x| x.1.clone()).collect();
    for (kind, cmp) in [("count_leq", Cmp::AtMost), ("count_lt", Cmp::LessThan), ("count_geq", Cmp::AtLeast), ("count_gt", Cmp::MoreThan), ("count_eq", Cmp::Exactly)] {
        st.evals += 1;
        st.bump(kind);
        let case = || json!({"kind": kind, "a": tables_json(a), "b": tables_json(b), "universe": labels_json(uni)});
        util::budget(if fam == "long" { 4_000_000_000 } else { 50_000_000 }, 1000);
        let r = guarded(|| match kind {
            "count_leq" => env.count_leq(&da, &db),
            "count_lt" => env.count_lt(&da, &db),
            "count_geq" => env.count_geq(&da, &db),
            "count_gt" => env.count_gt(&da, &db),
            _ => env.count_eq(&da, &db),
        });
        let r = match r {
            Ok(r) => r,
            Err(c) => {
                st.violate("c05.panic", format!("C05:{}:{}", kind, c.signature()), format!("{} did not return: {:?}", kind, c), case());
                continue;
            }
        };
        let want = count_vs_count(nv, &ta, &tb, cmp);
        match tt_of_bdd(&r, nv, &idx) {
            Ok(got) if got == want => {}
            Ok(got) => {
                let x = got.xor(&want).first_one().unwrap_or(0);
                let (ca, cb) = (ta.iter().filter(|t| t.get(x)).count(), tb.iter().filter(|t| t.get(x)).count());
                st.violate(
                    "c05.count",
                    format!("C05:{}:wrong-value", kind),
                    format!("{}(a, b) wrong under assignment #{}: counts are {} vs {}, result says {}\n a = {:?}\n b = {:?}", kind, x, ca, cb, got.get(x), a.iter().map(|x| short(&x.0)).collect::<Vec<_>>(), b.iter().map(|x| short(&x.0)).collect::<Vec<_>>()),
                    case(),
                );
            }
            Err(e) => st.violate("c05.count", format!("C05:{}:foreign-variable", kind), e, case()),
        }
        if ta.iter().chain(tb.iter()).filter(|t| !t.is_const()).count() >= 2 {
            let mut h = util::hash_str(kind);
            for t in &ta {
                h = mix(h, t.hash64());
            }
            h = mix(h, 0xabcdef);
            for t in &tb {
                h = mix(h, t.hash64());
            }
            st.nt.insert(mix(h, util::hash_str(fam)));
        }
    }
}

fn all16(env: &BDDEnv<usize>, uni: &[usize], pair: (u32, u32)) -> Vec<(D, Tt)> {
    let n = uni.len() as u32;
    let vars = vars_of(uni);
    (0..16u64).map(|bits| {
        let t = Tt::from_u64(2, bits).embed(n, &[pair.0, pair.1]);
        (build_in_env(env, &t, &vars), t)
    }).collect()
}

fn exhaustive_const_job(chunk: usize, chunks: usize, maxlen: usize) -> Stats {
    let mut st = Stats::new();
    let uni = vec![1usize, 3, usize::MAX];
    let env: BDDEnv<usize> = BDDEnv::new();
    let fs = all16(&env, &uni, (0, 2));
    // all lists of length 0..=maxlen over the 16 functions
    let mut total = 0usize;
    for len in 0..=maxlen {
        let count = 16usize.pow(len as u32);
        for code in 0..count {
            total += 1;
            if total % chunks != chunk {
                continue;
            }
            let mut c = code;
            let mut ops: Vec<&(D, Tt)> = Vec::new();
            for _ in 0..len {
                ops.push(&fs[c % 16]);
                c /= 16;
            }
            for n in bounds_for(len) {
                check_const(&mut st, &env, &uni, &ops, n, "exh2");
            }
        }
    }
    st
}

fn exhaustive_lists_job(chunk: usize, chunks: usize, maxlen: usize) -> Stats {
    let mut st = Stats::new();
    let uni = vec![0usize, 5];
    let env: BDDEnv<usize> = BDDEnv::new();
    let fs = all16(&env, &uni, (0, 1));
    let mut lists: Vec<Vec<usize>> = Vec::new();
    for len in 0..=maxlen {
        for code in 0..16usize.pow(len as u32) {
            let mut c = code;
            let mut l = Vec::new();
            for _ in 0..len {
                l.push(c % 16);
                c /= 16;
            }
            lists.push(l);
        }
    }
    let mut k = 0usize;
    for la in &lists {
        for lb in &lists {
            k += 1;
            if k % chunks != chunk {
                continue;
            }
            let a: Vec<&(D, Tt)> = la.iter().map(|i| &fs[*i]).collect();
            let b: Vec<&(D, Tt)> = lb.iter().map(|i| &fs[*i]).collect();
            check_lists(&mut st, &env, &uni, &a, &b, "exh2");
        }
    }
    st
}

/// Both lists are slices of ONE operand vector (two prefixes, a prefix and a suffix, the same slice
/// twice): what the lists contain decides, not where they are stored.
fn check_aliased_slices(st: &mut Stats, env: &BDDEnv<usize>, uni: &[usize], ops: &[&(D, Tt)], rng: &mut Rng) {
    let nv = uni.len() as u32;
    let idx = idx_fn(uni);
    let ds: Vec<D> = ops.iter().map(|x| Rc::clone(&x.0)).collect();
    let ts: Vec<Tt> = ops.iter().map(|x| x.1.clone()).collect();
    let n = ds.len().min(4);
    for _ in 0..3 {
        let (i, j) = (rng.usize(n + 1), rng.usize(n + 1));
        let (ra, rb) = match rng.below(3) {
            0 => (0..i, 0..j),
            1 => (0..i, i.min(j)..n),
            _ => (i.min(j)..i.max(j), i.min(j)..i.max(j)),
        };
        for (kind, cmp) in [("count_leq", Cmp::AtMost), ("count_lt", Cmp::LessThan), ("count_geq", Cmp::AtLeast), ("count_gt", Cmp::MoreThan), ("count_eq", Cmp::Exactly)] {
            st.evals += 1;
            st.bump("aliased_slice_comparisons");
            let case = || json!({"kind": kind, "a": tables_json(&ops[ra.clone()]), "b": tables_json(&ops[rb.clone()]), "universe": labels_json(uni)});
            util::budget(50_000_000, 1000);
            let (a, b) = (&ds[ra.clone()], &ds[rb.clone()]);
            let r = guarded(|| match kind {
                "count_leq" => env.count_leq(a, b),
                "count_lt" => env.count_lt(a, b),
                "count_geq" => env.count_geq(a, b),
                "count_gt" => env.count_gt(a, b),
                _ => env.count_eq(a, b),
            });
            let want = count_vs_count(nv, &ts[ra.clone()], &ts[rb.clone()], cmp);
            match r {
                Ok(r) => {
                    if tt_of_bdd(&r, nv, &idx).ok().as_ref() != Some(&want) {
                        st.violate("c05.count", format!("C05:{}:wrong-value", kind), format!("{}(ops[{:?}], ops[{:?}]) — both lists are slices of one vector — = {} but counting gives table {}\n ops = {:?}", kind, ra, rb, short(&r), want.hex(), ops.iter().map(|x| short(&x.0)).collect::<Vec<_>>()), case());
                    }
                }
                Err(c) => st.violate("c05.panic", format!("C05:{}:{}", kind, c.signature()), format!("{:?}", c), case()),
            }
        }
    }
}

fn random_job(ctx: &Ctx, job: usize, iters: u64, maxlen: usize) -> Stats {
    let mut st = Stats::new();
    let mut rng = Rng::stream(ctx.seed, "C05.random", job as u64);
    let mut env_store: BDDEnv<usize> = BDDEnv::new();
    for it in 0..iters {
        if it % 300 == 0 {
            env_store = BDDEnv::new(); // long-lived enough for freed operand addresses to be reused
        }
        let env = &env_store;
        let nvars = 3 + rng.usize(2);
        let uni = pick_labels(&mut rng, &LABEL_POOL, nvars);
        let vars = vars_of(&uni);
        let mk = |rng: &mut Rng| {
            let t = random_table_subset(rng, nvars as u32);
            // a third of the operands are not built by this environment (plain unshared nodes)
            if rng.chance(1, 3) {
                (crate::conv::build_ref(&t, &vars), t)
            } else {
                (build_in_env(env, &t, &vars), t)
            }
        };
        let len = rng.usize(maxlen + 1);
        let mut ops: Vec<(D, Tt)> = Vec::new();
        for _ in 0..len {
            match rng.below(6) {
                0 if !ops.is_empty() => {
                    let c = rng.pick(&ops).clone();
                    ops.push(c);
                }
                1 if !ops.is_empty() => {
                    // complementary pair
                    let c = rng.pick(&ops).clone();
                    let nt = c.1.not();
                    ops.push((build_in_env(env, &nt, &vars), nt));
                }
                _ => ops.push(mk(&mut rng)),
            }
        }
        let refs: Vec<&(D, Tt)> = ops.iter().collect();
        let bs = bounds_for(len);
        for _ in 0..3 {
            check_const(&mut st, env, &uni, &refs, *rng.pick(&bs), "random");
        }
        let len2 = rng.usize(maxlen.min(4) + 1);
        let ops2: Vec<(D, Tt)> = (0..len2).map(|_| mk(&mut rng)).collect();
        let refs2: Vec<&(D, Tt)> = ops2.iter().collect();
        let cut = refs.len().min(4);
        check_lists(&mut st, env, &uni, &refs[..cut], &refs2, "random");
        if it % 4 == 0 {
            check_aliased_slices(&mut st, env, &uni, &refs, &mut rng);
        }
        st.bump("random_cases");
        st.max("max_list_length", len as u64);
    }
    st
}

/// Long operand lists (the cost of counting doubles per operand, so a list of 20 is about as long
/// as is practical): literals, small functions, repeats and constants over 6 variables.
fn long_list_job(ctx: &Ctx, len: usize, reps: usize) -> Stats {
    let mut st = Stats::new();
    let mut rng = Rng::stream(ctx.seed, "C05.long", len as u64);
    let nvars = 6usize;
    for _ in 0..reps {
        let env: BDDEnv<usize> = BDDEnv::new();
        let uni = pick_labels(&mut rng, &LABEL_POOL, nvars);
        let vars = vars_of(&uni);
        let mut ops: Vec<(D, Tt)> = Vec::new();
        util::budget(u64::MAX, 1000);
        for i in 0..len {
            let t = match rng.below(8) {
                0 if !ops.is_empty() => rng.pick(&ops).1.clone(),
                1 => random_table_subset(&mut rng, nvars as u32),
                2 => Tt::constant(nvars as u32, rng.chance(1, 2)),
                k => {
                    let v = Tt::var(nvars as u32, ((i + k as usize) % nvars) as u32);
                    if rng.chance(1, 4) { v.not() } else { v }
                }
            };
            ops.push((build_in_env(&env, &t, &vars), t));
        }
        let refs: Vec<&(D, Tt)> = ops.iter().collect();
        let l = len as i64;
        for n in [0, 1, l / 2, l - 1, l, rng.range(0, l + 1)] {
            check_const(&mut st, &env, &uni, &refs, n, "long");
        }
        // long list on either side of a list comparison (the two lengths add up)
        let short_len = 20usize.saturating_sub(len).min(3);
        util::budget(u64::MAX, 1000);
        let other: Vec<(D, Tt)> = (0..short_len).map(|_| { let t = random_table_subset(&mut rng, nvars as u32); (build_in_env(&env, &t, &vars), t) }).collect();
        let orefs: Vec<&(D, Tt)> = other.iter().collect();
        check_lists(&mut st, &env, &uni, &orefs, &refs, "long");
        check_lists(&mut st, &env, &uni, &refs, &orefs, "long");
        st.bump("long_list_cases");
        st.max("max_list_length", len as u64);
    }
    st
}

/// DEEP lists: 18-25 DISTINCT plain variables (some negated) as operands, so that the diagrams of
/// the counting ladder are 18-25 levels deep, with bounds around the middle, at the ends, and a
/// list-vs-list comparison of two disjoint halves. Judged pointwise on the all-false / all-true
/// assignments, on assignments with exactly bound-1, bound, bound+1 true operands and on random ones.
fn deep_list_job(ctx: &Ctx, len: usize) -> Stats {
    let mut st = Stats::new();
    let mut rng = Rng::stream(ctx.seed, "C05.deep", len as u64);
    let env: BDDEnv<usize> = BDDEnv::new();
    let negated: Vec<bool> = (0..len).map(|_| rng.chance(1, 5)).collect();
    let ops: Vec<D> = (0..len).map(|i| if negated[i] { env.not(env.var(3 * i + 1)) } else { env.var(3 * i + 1) }).collect();
    let eval = |d: &D, asg: &[bool]| -> bool {
        let mut cur = Rc::clone(d);
        loop {
            let next = match cur.as_ref() {
                BDD::True => return true,
                BDD::False => return false,
                BDD::Choice(t, l, e) => if asg[(*l - 1) / 3] { Rc::clone(t) } else { Rc::clone(e) },
            };
            cur = next;
        }
    };
    // assignments: value of variable i; operand i is true when asg[i] != negated[i]
    let with_true_ops = |rng: &mut Rng, k: usize| -> Vec<bool> {
        let mut idx: Vec<usize> = (0..len).collect();
        rng.shuffle(&mut idx);
        let mut a: Vec<bool> = negated.clone(); // every operand false
        for i in idx.into_iter().take(k.min(len)) {
            a[i] = !a[i];
        }
        a
    };
    let l = len as i64;
    // (the cost of a count doubles per operand: beyond 20 operands only the middle bounds are tried)
    let bounds: Vec<i64> = if len <= 20 { vec![l / 2 - 1, l / 2, l / 2 + 1, 1, l - 1, 0, l] } else { vec![l / 2, l / 2 + 1] };
    util::budget(u64::MAX, 1000);
    for (name, cmp) in [("aln", Cmp::AtLeast), ("amn", Cmp::AtMost), ("exn", Cmp::Exactly)] {
        for b in bounds.iter().copied() {
            st.evals += 1;
            let case = json!({"kind": "deep", "len": len, "seed": ctx.seed});
            let r = match guarded(|| match name { "aln" => env.aln(&ops, b), "amn" => env.amn(&ops, b), _ => env.exn(&ops, b) }) {
                Ok(r) => r,
                Err(c) => {
                    st.violate("c05.panic", format!("C05:{}:{}", name, c.signature()), format!("{} over {} distinct variables, bound {}: {:?}", name, len, b, c), case);
                    continue;
                }
            };
            let mut samples: Vec<Vec<bool>> = vec![with_true_ops(&mut rng, 0), with_true_ops(&mut rng, len)];
            for k in [b - 1, b, b + 1] {
                if k >= 0 && k <= l {
                    for _ in 0..40 {
                        samples.push(with_true_ops(&mut rng, k as usize));
                    }
                }
            }
            for _ in 0..300 {
                let k = rng.usize(len + 1);
                samples.push(with_true_ops(&mut rng, k));
            }
            let mut bad = None;
            for a in &samples {
                let count = (0..len).filter(|i| a[*i] != negated[*i]).count() as i128;
                if eval(&r, a) != crate::refsem::cmp_holds(cmp, count, b as i128) {
                    bad = Some((count, eval(&r, a)));
                    break;
                }
            }
            match bad {
                Some((count, got)) => st.violate("c05.count", format!("C05:{}:wrong-value", name), format!("{}(ops, {}) over {} distinct variables ({} of them negated): under an assignment with {} true operands the result says {}", name, b, len, negated.iter().filter(|x| **x).count(), count, got), case),
                None => {
                    st.bump("deep_list_cases");
                    st.max("max_distinct_variables_in_a_list", len as u64);
                    st.nt.insert(mix(0xdee9, (len as u64) << 16 ^ (b as u64) << 2 ^ name.len() as u64));
                }
            }
        }
    }
    // two disjoint halves against each other
    if len > 20 {
        return st;
    }
    let (left, right) = ops.split_at(len / 2);
    for (name, cmp) in [("leq", Cmp::AtMost), ("lt", Cmp::LessThan), ("geq", Cmp::AtLeast), ("gt", Cmp::MoreThan), ("eq", Cmp::Exactly)] {
        st.evals += 1;
        let case = json!({"kind": "deep", "len": len, "seed": ctx.seed});
        let r = match guarded(|| match name { "leq" => env.count_leq(left, right), "lt" => env.count_lt(left, right), "geq" => env.count_geq(left, right), "gt" => env.count_gt(left, right), _ => env.count_eq(left, right) }) {
            Ok(r) => r,
            Err(util::Caught::Budget(_)) => continue,
            Err(c) => {
                st.violate("c05.panic", format!("C05:count_{}:{}", name, c.signature()), format!("{:?}", c), case);
                continue;
            }
        };
        let mut bad = None;
        for s in 0..600 {
            let k = if s < 200 { len / 2 } else { rng.usize(len + 1) };
            let a = with_true_ops(&mut rng, k);
            let (cl, cr) = ((0..len / 2).filter(|i| a[*i] != negated[*i]).count() as i128, (len / 2..len).filter(|i| a[*i] != negated[*i]).count() as i128);
            if eval(&r, &a) != crate::refsem::cmp_holds(cmp, cl, cr) {
                bad = Some((cl, cr, eval(&r, &a)));
                break;
            }
        }
        match bad {
            Some((cl, cr, got)) => st.violate("c05.count", format!("C05:count_{}:wrong-value", name), format!("count_{} of two disjoint lists of {} and {} distinct variables: with {} vs {} true operands the result says {}", name, len / 2, len - len / 2, cl, cr, got), case),
            None => st.bump("deep_list_cases"),
        }
    }
    st
}

const OPERAND_TEXTS: [&str; 19] = ["a", "b", "-a", "a & b", "a | b", "a ^ b", "true", "false", "c", "a => c", "-(b | c)", "a <=> b", "exists c # c & a", "[a, b] = 1", "[a] <= [b]", "[a, c] > [b]", "[b] = [c, a]", "[[a] < [b], c] >= [b]", "[c, b] <= 1"];

fn language_job(ctx: &Ctx, job: usize, iters: u64) -> Stats {
    let mut st = Stats::new();
    let mut rng = Rng::stream(ctx.seed, "C05.language", job as u64);
    let cmps = [("<=", Cmp::AtMost), ("<", Cmp::LessThan), (">=", Cmp::AtLeast), (">", Cmp::MoreThan), ("=", Cmp::Exactly)];
    for _ in 0..iters {
        let len = rng.usize(5);
        let ops: Vec<&str> = (0..len).map(|_| *rng.pick(&OPERAND_TEXTS)).collect();
        let (cs, _cmp) = *rng.pick(&cmps);
        let l = len as u128;
        let consts: [u128; 10] = [0, 1, l.saturating_sub(1), l, l + 1, 2, 1 << 31, (1 << 63) - 1, 1 << 63, u64::MAX as u128];
        let mut trailing = |rng: &mut Rng, n: usize| if n > 0 && rng.chance(1, 4) { "," } else { "" };
        let text = if rng.chance(1, 3) {
            let len2 = rng.usize(4);
            let ops2: Vec<&str> = (0..len2).map(|_| *rng.pick(&OPERAND_TEXTS)).collect();
            format!("[{}{}] {} [{}{}]", ops.join(", "), trailing(&mut rng, len), cs, ops2.join(", "), trailing(&mut rng, len2))
        } else {
            // the constant: a corner value, or a power of two (+-1, +2, +len), or a multiple of 2^32 plus a
            // small number — where a constant narrowed to 8, 16 or 32 bits would look small again
            let c: u128 = match rng.below(4) {
                0 | 1 => *rng.pick(&consts),
                2 => {
                    let k = *rng.pick(&[4u32, 6, 7, 8, 15, 16, 24, 31, 32, 33, 40, 48, 62]);
                    ((1u128 << k) + *rng.pick(&[0u128, 1, 2, l, l + 1])).saturating_sub(rng.below(2) as u128)
                }
                _ => (1 + rng.below(5) as u128) * (1u128 << *rng.pick(&[8u32, 16, 32, 32, 32, 48])) + rng.below(l as u64 + 2) as u128,
            };
            if c >= 256 {
                st.bump("language_constants_beyond_8_bits");
            }
            format!("[{}{}] {} {}", ops.join(", "), trailing(&mut rng, len), cs, c)
        };
        check_text(&mut st, &text);
        // the comparison directly under a quantifier / negation / if (where an evaluator may treat
        // it specially), small constants only
        if rng.chance(1, 4) && !text.split(|ch: char| !ch.is_ascii_digit()).any(|run| run.len() >= 10) {
            let v = *rng.pick(&["a", "b", "c"]);
            let wrapped = match rng.below(6) {
                0 => format!("forall {} # {}", v, text),
                1 => format!("exists {} # {}", v, text),
                2 => format!("all {}, c # ({})", v, text),
                3 => format!("-{}", text),
                4 => format!("not ({})", text),
                _ => format!("if {} then {} else -{}", v, text, text),
            };
            st.bump("comparisons_directly_under_a_quantifier_or_negation");
            check_text(&mut st, &wrapped);
        }
        // counting comparisons whose operands contain a fixed-point variable (the iterate must be
        // counted on both sides); non-convergent ones are skipped by the reference
        if rng.chance(1, 6) {
            let pool = ["Z", "a", "b", "Z & a", "Z | b", "true", "c"];
            let l: Vec<&str> = (0..rng.usize(3)).map(|_| *rng.pick(&pool)).collect();
            let r: Vec<&str> = (0..(1 + rng.usize(2))).map(|_| *rng.pick(&pool)).collect();
            let (cs2, _) = *rng.pick(&cmps);
            let fixed = format!("{} Z # {}[{}] {} [{}]", rng.pick_str(&["lfp", "gfp", "mu", "nu"]), rng.pick_str(&["", "a | ", "b & ", "Z | "]), l.join(", "), cs2, r.join(", "));
            st.bump("counting_inside_fixed_points");
            check_text(&mut st, &fixed);
        }
    }
    st
}

fn check_text(st: &mut Stats, text: &str) {
    st.evals += 1;
    st.bump("language_forms");
    let case = json!({"kind": "language", "text": text});
    let Ok(ast) = refsyn::parse_text(text) else {
        st.bump("harness_generated_unparsable(not judged)");
        return;
    };
    let Ok((names, want)) = crate::refsem::eval_formula(&ast) else { return };
    let huge = matches!(&ast, refsyn::Ast::CountConst(_, _, n) if *n >= (1u64 << 63));
    util::budget(50_000_000, 2000);
    let r = guarded(|| ParsedFormula::new(&mut BufReader::new(text.as_bytes()), None).map(|pf| pf.eval()));
    match r {
        Ok(Ok(d)) => match crate::conv::tt_of_named(&d, &names) {
            Ok(got) if got == want => {
                if huge {
                    st.bump("constants_ge_2^63_accepted_with_exact_meaning");
                }
                if !want.is_const() || names.len() >= 2 {
                    st.nt.insert(util::hash_str(text));
                }
            }
            Ok(got) => st.violate(
                "c05.language",
                if huge { "C05:language:huge-constant-misread".to_string() } else { "C05:language:wrong-value".to_string() },
                format!("`{}` evaluates to table {} over {:?}; counting the true operands gives {}", text, got.hex(), names, want.hex()),
                case,
            ),
            Err(e) => st.violate("c05.language", "C05:language:foreign-variable".into(), format!("`{}`: {}", text, e), case),
        },
        Ok(Err(e)) => {
            if huge {
                st.bump("constants_ge_2^63_rejected_with_error(allowed)");
            } else {
                st.violate("c05.language", "C05:language:rejected".into(), format!("`{}` rejected: {}", text, e), case);
            }
        }
        Err(crate::util::Caught::Budget("steps")) => st.bump("step_budget_exceeded(inconclusive case)"),
        Err(crate::util::Caught::Budget(_)) => st.violate("c05.language", "C05:language:fixed-point-does-not-converge".into(), format!("`{}`: the reference converges, the engine exceeded 2000 fixed-point iterations", text), case),
        Err(c) => st.violate("c05.panic", format!("C05:language:{}", c.signature()), format!("`{}`: {:?}", text, c), case),
    }
}

pub fn run(ctx: &Ctx) -> (Stats, Spec) {
    let mut st = Stats::new();
    let (mc, ml) = ctx.tier.pick((3usize, 2usize), (3usize, 2usize));
    let parts = util::par_jobs(32, |job| {
        let mut s = exhaustive_const_job(job, 32, mc);
        s.merge(exhaustive_lists_job(job, 32, ml));
        s
    });
    st.merge(crate::report::merge_all(parts));
    st.exhaustive.push("aln/amn/exn: all operand lists of length 0..3 over all 16 functions of 2 variables x every bound in [-3, len+3] and 6 extreme bounds".into());
    st.exhaustive.push("count_leq/lt/geq/gt/eq: all pairs of lists of length 0..2 over all 16 functions of 2 variables".into());
    let (iters, maxlen) = ctx.tier.pick((8_000u64, 5usize), (60_000u64, 7usize));
    let parts = util::par_jobs(16, |job| {
        let mut s = random_job(ctx, job, iters, maxlen);
        s.merge(language_job(ctx, job, iters * 2));
        s
    });
    st.merge(crate::report::merge_all(parts));
    // fixed language probes: every operator x boundary constants on a 2-operand list
    for cs in ["<=", "<", ">=", ">", "="] {
        for c in ["0", "1", "2", "3", "00", "01", "0002", "00000000000000000001", "000000000000000000001", "0000000000000000000000000000002", "000000000000000000000000000000000000000000000000000000000000000", "2147483648", "9223372036854775807", "9223372036854775808", "18446744073709551615"] {
            check_text(&mut st, &format!("[a, b] {} {}", cs, c));
            check_text(&mut st, &format!("[] {} {}", cs, c));
        }
    }
    let lens: Vec<usize> = ctx.tier.pick(vec![8, 11, 13, 15, 16, 17, 18], vec![8, 9, 10, 11, 12, 13, 14, 15, 16, 17, 18, 19, 20, 21]);
    let reps = ctx.tier.pick(1usize, 4usize);
    let parts = util::par_jobs(lens.len(), |j| long_list_job(ctx, lens[j], if lens[j] < 16 { 2 * reps } else { reps }));
    st.merge(crate::report::merge_all(parts));
    // counting in an environment whose table holds millions of entries
    engine_block(&mut st, "C05", "huge-table", |st2| {
        let env = huge_env(ctx.tier.pick(2_200_000usize, 17_000_000usize));
        let mut rng = Rng::stream(ctx.seed, "C05.huge", 0);
        let uni = vec![1usize, 3, 5, 8];
        let vars = vars_of(&uni);
        for _ in 0..ctx.tier.pick(300, 5_000) {
            let ops: Vec<(D, Tt)> = (0..1 + rng.usize(4)).map(|_| { let t = random_table_subset(&mut rng, 4); (build_in_env(&env, &t, &vars), t) }).collect();
            let refs: Vec<&(D, Tt)> = ops.iter().collect();
            check_const(st2, &env, &uni, &refs, rng.range(-1, ops.len() as i64 + 2), "huge-table");
            let (l, r) = refs.split_at(refs.len() / 2);
            check_lists(st2, &env, &uni, l, r, "huge-table");
            st2.bump("counts_in_a_huge_table");
        }
    });
    let deep: Vec<usize> = ctx.tier.pick(vec![18, 20, 22, 23], vec![18, 19, 20, 21, 22, 23, 24]);
    let parts = util::par_jobs(deep.len(), |j| { let mut s = Stats::new(); engine_block(&mut s, "C05", "deep-list", |s2| s2.merge(deep_list_job(ctx, deep[j]))); s });
    st.merge(crate::report::merge_all(parts));
    // the language: a long list of plain variables against boundary constants
    for n in ctx.tier.pick(vec![16usize, 17, 18], vec![12, 16, 17, 18, 19, 20]) {
        let names: Vec<String> = (0..n).map(|i| format!("x{}", i)).collect();
        // (x0 .. xn-1 are too many names for a truth table: the formula is closed by quantifying all but 4)
        for (cs, c) in [(">=", 1), ("=", n), ("<=", n - 1), (">", n / 2), ("<", 2)] {
            check_text(&mut st, &format!("exists {} # [{}] {} {}", names[4..].join(", "), names.join(", "), cs, c));
            check_text(&mut st, &format!("forall {} # [{}] {} {}", names[4..].join(", "), names.join(", "), cs, c));
        }
    }
    let wk_iters = ctx.tier.pick(3_000u64, 60_000u64);
    let parts = util::par_jobs(16, |job| super::weak::weak_hash_job(ctx, "C05", job, wk_iters));
    st.merge(crate::report::merge_all(parts));
    let wide_iters = ctx.tier.pick(100u64, 3_000u64);
    let parts = util::par_jobs(16, |job| super::wide::wide_job(ctx, "C05", job, wide_iters));
    st.merge(crate::report::merge_all(parts));
    let spec = Spec {
        rule: "API: operand lists (exhaustive over all 2-variable functions up to length 3; random with repeats and complementary pairs up to length 5 [quick] / 7 [thorough]) x bounds n in [-3, len+3] plus {i64::MIN+len, i64::MIN+len+1, -2^40, 2^40, i64::MAX-len-1, i64::MAX-len} x {aln, amn, exn}; list-vs-list for all five comparisons, also with both lists given as slices of ONE operand vector (prefixes, prefix and suffix, the same slice twice); long lists of 8-18 [quick] / 8-21 [thorough] operands (literals, small functions, repeats, constants over 6 variables) against the bounds {0, 1, len/2, len-1, len, random} and on either side of a list comparison. Language: `[..] cmp n` and `[..] cmp [..]` with trailing commas, constants {0,1,len-1,len,len+1,2,2^31,2^63-1}, 2^k (+-1, +2, +len; k in 4..62) and m*2^8 / 2^16 / 2^32 / 2^48 + small exact and {2^63, 2^64-1} 'rejected or exact'. distinct = (kind, operand tables, bound); non-trivial = >= 2 non-constant operands. MANY VARIABLES: the same judgement on environments with 65-200 variables (more than a machine word of them), where operands are random DNFs and results are compared pointwise on 48 sampled assignments per case (biased towards the operands' cubes) and walked for order / reduction.".into(),
        assumptions: vec![
            "bounds are restricted to those for which n +/- (list length) does not overflow i64, as the statement says".into(),
            "for constants >= 2^63 the implementation may reject with an error or must read exactly that number".into(),
        ],
        floors: vec![
            ("many_variable_cases".into(), 1_000, "environments with more than 64 variables never exercised".into()),
            ("weak_hash_symbol_calls".into(), 2_000, "environment over a constant-hash symbol type never exercised".into()),
            ("aln".into(), 5_000, "aln never exercised".into()),
            ("long_list_cases".into(), 8, "long operand lists never exercised".into()),
            ("count_lt".into(), 5_000, "count_lt never exercised".into()),
            ("negative_bounds".into(), 1_000, "no negative bounds".into()),
            ("extreme_bounds".into(), 1_000, "no extreme bounds".into()),
            ("language_forms".into(), 1_000, "language forms never exercised".into()),
            ("distinct_nontrivial".into(), 5_000, "too few non-trivial cases".into()),
        ],
    };
    (st, spec)
}

pub fn replay(_ctx: &Ctx, _monitor: &str, case: &Value, st: &mut Stats) {
    if case.get("kind").and_then(|k| k.as_str()) == Some("wide") {
        super::wide::replay_wide(_ctx, "C05", case, st);
        return;
    }
    if case.get("kind").and_then(|k| k.as_str()) == Some("weak-hash") {
        let job = case.get("job").and_then(|j| j.as_u64()).unwrap_or(0) as usize;
        let mut c2 = _ctx.clone();
        c2.seed = case.get("seed").and_then(|j| j.as_u64()).unwrap_or(c2.seed);
        st.merge(super::weak::weak_hash_job(&c2, "C05", job, 20_000));
        return;
    }
    let kind = case.get("kind").and_then(|k| k.as_str()).unwrap_or("");
    if kind == "language" {
        check_text(st, case.get("text").and_then(|t| t.as_str()).unwrap_or(""));
        return;
    }
    let uni = parse_labels(case, "universe");
    let env = BDDEnv::new();
    let vars = vars_of(&uni);
    let list = |key: &str| -> Vec<(D, Tt)> {
        case.get(key).and_then(|a| a.as_array()).map(|a| a.iter().filter_map(|x| x.as_str().and_then(Tt::parse_hex)).map(|t| (build_in_env(&env, &t, &vars), t)).collect()).unwrap_or_default()
    };
    if kind.starts_with("count_") {
        let a = list("a");
        let b = list("b");
        check_lists(st, &env, &uni, &a.iter().collect::<Vec<_>>(), &b.iter().collect::<Vec<_>>(), "replay");
    } else {
        let ops = list("ops");
        let n: i64 = case.get("n").and_then(|n| n.as_str()).and_then(|s| s.parse().ok()).unwrap_or(0);
        check_const(st, &env, &uni, &ops.iter().collect::<Vec<_>>(), n, "replay");
    }
}
