//! C07 — model extraction returns one genuine satisfying cube; `rsbdd -m -t` prints exactly one
//! satisfying row; infer(m, v) == (true, true) exactly when m forces v.

use super::common::*;
use crate::cli;
use crate::conv::{build_in_env, labels_of, short, tt_of_bdd};
use crate::gen::{self, GenCfg, Style};
use crate::refsem;
use crate::refsyn;
use crate::report::{Ctx, Spec, Stats};
use crate::tt::Tt;
use crate::util::{self, guarded, mix, Rng};
use rsbdd::bdd::{BDDEnv, BDD};
use serde_json::{json, Value};
use std::rc::Rc;
use std::time::Duration;

/// cube shape: every internal node has exactly one `False` child and the path ends in `True`
fn cube_shape(m: &D) -> Result<u64, String> {
    let mut cur = Rc::clone(m);
    let mut lits = 0;
    loop {
        let next = match cur.as_ref() {
            BDD::True => return Ok(lits),
            BDD::False => return Err("path ends in the false leaf".to_string()),
            BDD::Choice(t, s, f) => {
                let tf = matches!(t.as_ref(), BDD::False);
                let ff = matches!(f.as_ref(), BDD::False);
                if tf == ff {
                    return Err(format!("node {} does not have exactly one false child", s));
                }
                lits += 1;
                if tf {
                    Rc::clone(f)
                } else {
                    Rc::clone(t)
                }
            }
        };
        cur = next;
    }
}

/// infer(d, v) for every variable of the universe and one the environment has never seen:
/// (true, true) exactly when the diagram forces v to be true (the false leaf forces everything).
fn check_infer(st: &mut Stats, env: &BDDEnv<usize>, uni: &[usize], outside: usize, subjects: &[(&str, &D, &Tt)], ft: &Tt) {
    let n = uni.len() as u32;
    let idx = idx_fn(uni);
    for (who, d, t) in subjects.iter().cloned() {
        for v in uni.iter().chain(std::iter::once(&outside)) {
            st.evals += 1;
            st.bump("infer_calls");
            let forced = match idx(v) {
                Some(i) => t.leq(&Tt::var(n, i)),
                None => t.is_false(), // a variable the function does not mention is forced only vacuously
            };
            let case = json!({"kind": "infer", "f": ft.hex(), "universe": labels_json(uni), "outside": outside.to_string(), "of": who, "v": v.to_string()});
            match guarded(|| env.infer(Rc::clone(d), *v)) {
                Ok(ans) => {
                    if (ans == (true, true)) != forced {
                        st.violate(
                            "c07.infer",
                            "C07:infer:wrong-answer".into(),
                            format!("infer({} = {}, {}) = {:?} but the diagram {} variable {} to be true", who, short(d), v, ans, if forced { "forces" } else { "does not force" }, v),
                            case,
                        );
                    }
                    if forced {
                        st.bump("infer_forced_true");
                    }
                }
                Err(c) => st.violate("c07.panic", format!("C07:infer:{}", c.signature()), format!("{:?}", c), case),
            }
        }
    }
}

fn check_model(st: &mut Stats, env: &BDDEnv<usize>, uni: &[usize], f: &(D, Tt), outside: usize, fam: &str) {
    let n = uni.len() as u32;
    let idx = idx_fn(uni);
    st.evals += 1;
    st.bump("model_calls");
    let case = || json!({"kind": "model", "f": f.1.hex(), "universe": labels_json(uni), "outside": outside.to_string()});
    util::budget(20_000_000, 1000);
    let handed = hand_over(&f.0, st.evals);
    let m = match guarded(move || env.model(handed)) {
        Ok(m) => m,
        Err(c) => {
            st.violate("c07.panic", format!("C07:model:{}", c.signature()), format!("model({}) did not return: {:?}", short(&f.0), c), case());
            return;
        }
    };
    let unsat = f.1.is_false();
    let m_false = matches!(m.as_ref(), BDD::False);
    if unsat != m_false {
        st.violate(
            "c07.sat-iff",
            "C07:model:false-iff-unsat".into(),
            format!("f = {} is {} but model(f) = {}", short(&f.0), if unsat { "unsatisfiable" } else { "satisfiable" }, short(&m)),
            case(),
        );
        return;
    }
    if unsat {
        st.bump("unsat_functions");
        // the false leaf forces every variable, also ones this environment has never seen
        let ff = Tt::constant(n, false);
        check_infer(st, env, uni, outside, &[("model", &m, &ff), ("f", &f.0, &f.1)], &f.1);
        return;
    }
    match cube_shape(&m) {
        Ok(l) => st.add("literals_in_models", l),
        Err(e) => {
            st.violate("c07.cube", "C07:model:not-a-cube".into(), format!("model({}) = {} is not a single conjunction of literals: {}", short(&f.0), short(&m), e), case());
            return;
        }
    }
    let support: Vec<usize> = f.1.support().iter().map(|i| uni[*i as usize]).collect();
    if let Some(bad) = labels_of(&m).iter().find(|l| !support.contains(l)) {
        st.violate("c07.support", "C07:model:literal-outside-support".into(), format!("model({}) = {} has a literal on {} which f does not depend on", short(&f.0), short(&m), bad), case());
    }
    let mt = match tt_of_bdd(&m, n, &idx) {
        Ok(t) => t,
        Err(e) => {
            st.violate("c07.support", "C07:model:foreign-variable".into(), e, case());
            return;
        }
    };
    if !mt.leq(&f.1) {
        let a = mt.and(&f.1.not()).first_one().unwrap_or(0);
        st.violate("c07.implies", "C07:model:not-a-model".into(), format!("assignment #{} satisfies model(f) = {} but not f = {}", a, short(&m), short(&f.0)), case());
    }
    // statistic: does the lexicographically first true-branch descent fail somewhere (forces an else-arm)?
    let mut cur = f.1.clone();
    let mut needs_else = false;
    for i in 0..n {
        if !cur.depends_on(i) {
            continue;
        }
        let hi = cur.cofactor(i, true);
        if hi.is_false() {
            needs_else = true;
            cur = cur.cofactor(i, false);
        } else {
            cur = hi;
        }
    }
    if !f.1.is_const() {
        st.nt.insert(mix(f.1.hash64(), util::hash_str(fam)));
        if needs_else {
            st.bump("models_needing_an_else_arm");
        }
    }
    check_infer(st, env, uni, outside, &[("model", &m, &mt), ("f", &f.0, &f.1)], &f.1);
    if st.want_sample() && needs_else && st.evals % 5003 == 11 {
        st.sample(json!({"f": short(&f.0), "model": short(&m)}));
    }
}

fn exhaustive_job(k: usize, fam: usize, chunk: usize, chunks: usize) -> Stats {
    let mut st = Stats::new();
    let (labels, outside, name): (Vec<usize>, usize, &str) = match (k, fam) {
        (3, 0) => (vec![0, 1, 2], 3, "adjacent3"),
        (3, _) => (vec![2, 9, usize::MAX], 4, "sparse3"),
        (_, 0) => (vec![0, 1, 2, 3], 9, "adjacent4"),
        (_, _) => (vec![1, 5, 1 << 40, usize::MAX], 3, "sparse4"),
    };
    let vars = vars_of(&labels);
    let mut env: BDDEnv<usize> = BDDEnv::new();
    let total = 1u64 << (1u32 << k);
    let mut cnt = 0;
    for bits in 0..total {
        if (bits as usize) % chunks != chunk {
            continue;
        }
        cnt += 1;
        if cnt % 256 == 0 {
            env = BDDEnv::new();
        }
        let t = Tt::from_u64(k as u32, bits);
        // every third function is handed over as a diagram the environment did not build itself
        // (plain unshared nodes, as BDD::<usize>::from(..) or another environment produce them)
        let d = if bits % 3 == 2 {
            st.bump("foreign_diagrams");
            crate::conv::build_ref(&t, &vars)
        } else {
            build_in_env(&env, &t, &vars)
        };
        check_model(&mut st, &env, &labels, &(d, t), outside, name);
    }
    st
}

fn random_job(ctx: &Ctx, job: usize, iters: u64) -> Stats {
    let mut st = Stats::new();
    let mut rng = Rng::stream(ctx.seed, "C07.random", job as u64);
    for _ in 0..iters {
        let env: BDDEnv<usize> = BDDEnv::new();
        let nvars = 5 + rng.usize(4);
        let mut uni = pick_labels(&mut rng, &LABEL_POOL, nvars + 1);
        let outside = uni.remove(rng.usize(nvars + 1));
        // sparse functions make the else-arms frequent
        let dens = [1u64, 1, 2, 8, 14][rng.usize(5)];
        let t = random_table(&mut rng, nvars as u32, dens);
        let d = if rng.chance(1, 3) {
            st.bump("foreign_diagrams");
            crate::conv::build_ref(&t, &vars_of(&uni))
        } else {
            build_in_env(&env, &t, &vars_of(&uni))
        };
        check_model(&mut st, &env, &uni, &(d, t), outside, "random");
        st.bump("random_functions");
    }
    st
}

/// CLI: `rsbdd -e <formula> -m -t [-f t]` and `-m -v`
fn cli_case(ctx: &Ctx, st: &mut Stats, text: &str) {
    let Ok(ast) = refsyn::parse_text(text) else { return };
    let Ok((names, want)) = refsem::eval_formula(&ast) else { return };
    let free = ast.free_names();
    let bin = ctx.bin("rsbdd");
    // (the last two modes add the benchmark and plot options — with a `gnuplot` stub on the PATH —
    // which change what is measured, not what is printed)
    let extra = if text.len() % 2 == 0 { "-m -t -b 2 -g" } else { "-b 1 -g -t -m" };
    for mode in ["-m -t", "-m -t -ft", "-m -v", extra] {
        st.evals += 1;
        st.bump(&format!("cli[{}]", if mode.contains("-g") { "-m -t -b N -g" } else { mode }));
        let mut args = vec![format!("--evaluate={}", text)];
        args.extend(mode.split(' ').map(|s| s.to_string()));
        let feed = cli::Feed { gnuplot_stub: true, ..Default::default() };
        let out = cli::run_fed(&bin, &args, None, &feed, None, Some((20_000_000, 10_000)), Duration::from_secs(60));
        let case = json!({"kind": "cli", "text": text, "mode": mode});
        if out.timed_out || out.budget_exceeded() {
            st.bump("cli_out_of_budget(not judged)");
            continue;
        }
        if !out.ok() {
            st.violate("c07.cli", format!("C07:cli:{}", out.panic_site()), format!("rsbdd -e `{}` {} failed: {}\n{}", text, mode, out.status_string(), out.stderr_str()), case);
            continue;
        }
        let so = out.stdout_str();
        let sat = !want.is_false();
        if mode == "-m -v" {
            let lines: Vec<&str> = so.lines().filter(|l| l.trim_end().ends_with(';')).collect();
            if lines.len() != usize::from(sat) {
                st.violate("c07.cli", "C07:cli:-v-line-count".into(), format!("rsbdd -e `{}` -m -v printed {} model lines, formula is {}\n{}", text, lines.len(), if sat { "satisfiable" } else { "unsatisfiable" }, so), case);
            }
            continue;
        }
        let lines: Vec<&str> = so.lines().collect();
        let (table, _) = match cli::parse_table(&lines) {
            Ok(t) => t,
            Err(e) => {
                st.violate("c07.cli", "C07:cli:unparsable-table".into(), format!("`{}` {}: {}\n{}", text, mode, e, so), case);
                continue;
            }
        };
        let true_rows: Vec<&(Vec<cli::Cell>, bool)> = table.rows.iter().filter(|r| r.1).collect();
        if true_rows.len() != usize::from(sat) {
            st.violate(
                "c07.cli",
                "C07:cli:true-row-count".into(),
                format!("rsbdd -e `{}` {} printed {} satisfying rows; formula is {}\n{}", text, mode, true_rows.len(), if sat { "satisfiable" } else { "unsatisfiable" }, so),
                case,
            );
            continue;
        }
        if mode.contains("-ft") && table.rows.len() != true_rows.len() {
            st.violate("c07.cli", "C07:cli:filter-true-shows-false-rows".into(), format!("`{}` {}:\n{}", text, mode, so), case);
            continue;
        }
        if let Some(row) = true_rows.first() {
            // every total assignment of the free variables covered by the row must satisfy the formula
            if table.header.iter().any(|h| !free.contains(h)) {
                st.violate("c07.cli", "C07:cli:non-free-column".into(), format!("`{}` {}: header {:?} free {:?}", text, mode, table.header, free), case);
                continue;
            }
            let n = names.len() as u32;
            let mut cover = Tt::constant(n, true);
            for (h, c) in table.header.iter().zip(row.0.iter()) {
                let i = names.iter().position(|x| x == h).unwrap() as u32;
                match c {
                    cli::Cell::True => cover = cover.and(&Tt::var(n, i)),
                    cli::Cell::False => cover = cover.and(&Tt::var(n, i).not()),
                    cli::Cell::Any => {}
                }
            }
            if !cover.leq(&want) {
                st.violate("c07.cli", "C07:cli:row-not-a-model".into(), format!("rsbdd -e `{}` {}: the printed row covers an assignment that falsifies the formula\n{}", text, mode, so), case);
                continue;
            }
            if free.len() >= 2 {
                st.nt.insert(mix(util::hash_str(text), util::hash_str(mode)));
            }
        }
        if st.want_sample() && st.evals % 97 == 1 {
            st.sample(json!({"cli": format!("rsbdd -e '{}' {}", text, mode), "stdout": so}));
        }
    }
}

/// `-m` combined with `-c X`: the model is taken of the retained diagram R (what `-c X -t` prints).
/// Two runs of the real binary are related: the single satisfying row of `-m -c X -t` must be a
/// satisfying cube of the function printed by `-c X -t`, and it exists iff that function is satisfiable.
fn cli_model_with_retain(ctx: &Ctx, st: &mut Stats, text: &str) {
    let Ok(ast) = refsyn::parse_text(text) else { return };
    let Ok((names, _want)) = refsem::eval_formula(&ast) else { return };
    let free = ast.free_names();
    let bin = ctx.bin("rsbdd");
    let n = names.len() as u32;
    let union_of_true_rows = |table: &cli::Table| -> Option<Tt> {
        let mut u = Tt::constant(n, false);
        for (cells, res) in &table.rows {
            if !*res {
                continue;
            }
            let mut cover = Tt::constant(n, true);
            for (h, c) in table.header.iter().zip(cells.iter()) {
                let i = names.iter().position(|x| x == h)? as u32;
                match c {
                    cli::Cell::True => cover = cover.and(&Tt::var(n, i)),
                    cli::Cell::False => cover = cover.and(&Tt::var(n, i).not()),
                    cli::Cell::Any => {}
                }
            }
            u = u.or(&cover);
        }
        Some(u)
    };
    for flt in ["t", "f"] {
        let run = |extra: &[&str]| {
            let mut args = vec![format!("--evaluate={}", text), "-c".to_string(), flt.to_string(), "-t".to_string()];
            args.extend(extra.iter().map(|s| s.to_string()));
            cli::run(&bin, &args, None, None, Some((20_000_000, 10_000)), Duration::from_secs(60))
        };
        let (a, b) = (run(&[]), run(&["-m"]));
        st.evals += 1;
        st.bump("cli[-m -c]");
        if a.timed_out || b.timed_out || a.budget_exceeded() || b.budget_exceeded() || !a.ok() || !b.ok() {
            st.bump("cli_out_of_budget(not judged)");
            continue;
        }
        let (sa, sb) = (a.stdout_str(), b.stdout_str());
        let (la, lb): (Vec<&str>, Vec<&str>) = (sa.lines().collect(), sb.lines().collect());
        let (Ok((ta, _)), Ok((tb, _))) = (cli::parse_table(&la), cli::parse_table(&lb)) else { continue };
        if ta.header.iter().chain(tb.header.iter()).any(|h| !free.contains(h)) {
            continue;
        }
        let (Some(r), Some(m)) = (union_of_true_rows(&ta), union_of_true_rows(&tb)) else { continue };
        let true_rows = tb.rows.iter().filter(|x| x.1).count();
        let case = json!({"kind": "cli-retain", "text": text});
        if true_rows != usize::from(!r.is_false()) {
            st.violate("c07.cli", "C07:cli:-m-c:true-row-count".into(), format!("rsbdd -e `{}` -c {} -m -t prints {} satisfying rows; the retained diagram (-c {} -t) is {}\n{}", text, flt, true_rows, flt, if r.is_false() { "unsatisfiable" } else { "satisfiable" }, sb), case);
        } else if !m.leq(&r) {
            st.violate("c07.cli", "C07:cli:-m-c:row-not-a-model".into(), format!("rsbdd -e `{}` -c {} -m -t: the model row covers an assignment that `-c {} -t` prints as False\n--- -c {} -t\n{}--- -c {} -m -t\n{}", text, flt, flt, flt, sa, flt, sb), case);
        } else if !r.is_const() {
            st.nt.insert(mix(util::hash_str(text), util::hash_str(flt) ^ 0x77));
        }
    }
}

fn cli_job(ctx: &Ctx, job: usize, iters: u64) -> Stats {
    let mut st = Stats::new();
    let mut rng = Rng::stream(ctx.seed, "C07.cli", job as u64);
    let mut cfg = GenCfg::simple(&gen::PLAIN_NAMES[..5], 4);
    cfg.allow_fix = false;
    // every third formula may contain fixed points (convergent ones are judged)
    let mut cfg_fix = GenCfg::simple(&gen::PLAIN_NAMES[..4], 4);
    cfg_fix.allow_fix = true;
    cfg_fix.max_fix_depth = 1;
    cfg_fix.binder_weight = 30;
    cfg_fix.max_list = 3;
    for it in 0..iters {
        if it % 10 == 9 {
            // a quantifier inside a fixed point that reaches its variable only through the fixed-point variable
            let g = gen::render(&gen::gen_ast(&mut rng, &cfg), &mut rng, Style::Plain);
            let v = *rng.pick(&["a", "b", "c"]);
            let (fix, op) = *rng.pick(&[("lfp", "|"), ("gfp", "&"), ("mu", "or"), ("nu", "and")]);
            let q = *rng.pick(&["exists", "forall", "any", "all"]);
            let text = format!("{} X # (({}) {} {} {} # X)", fix, g, op, q, v);
            cli_case(ctx, &mut st, &text);
            continue;
        }
        let ast = gen::gen_ast(&mut rng, if it % 3 == 2 { &cfg_fix } else { &cfg });
        // (every other text with alias spellings, comments glued to their neighbours, stray separators)
        let style = if rng.chance(1, 2) { Style::Fancy } else { Style::Plain };
        let text = gen::render(&ast, &mut rng, style);
        cli_case(ctx, &mut st, &text);
        cli_model_with_retain(ctx, &mut st, &text);
    }
    st
}

pub fn run(ctx: &Ctx) -> (Stats, Spec) {
    let mut st = Stats::new();
    let parts = util::par_jobs(2 * 4, |job| exhaustive_job(3, job / 4, job % 4, 4));
    st.merge(crate::report::merge_all(parts));
    let parts = util::par_jobs(2 * 16, |job| exhaustive_job(4, job / 16, job % 16, 16));
    st.merge(crate::report::merge_all(parts));
    st.exhaustive.push("model() and infer() on all 256 functions over 3 variables and all 65 536 functions over 4 variables, adjacent and sparse label families".into());
    let (iters, cli_iters) = ctx.tier.pick((20_000u64, 60u64), (200_000u64, 1_200u64));
    let parts = util::par_jobs(16, |job| {
        let mut s = random_job(ctx, job, iters);
        s.merge(cli_job(ctx, job, cli_iters));
        s
    });
    st.merge(crate::report::merge_all(parts));
    for t in ["false", "true", "a & -a", "a", "-a", "a | b", "(a ^ b) & (b ^ c)", "exists a # a & b", "[a, b, c] = 2", "forall x # x | y"] {
        cli_case(ctx, &mut st, t);
    }
    let wk_iters = ctx.tier.pick(3_000u64, 60_000u64);
    let parts = util::par_jobs(16, |job| super::weak::weak_hash_job(ctx, "C07", job, wk_iters));
    st.merge(crate::report::merge_all(parts));
    let wide_iters = ctx.tier.pick(400u64, 8_000u64);
    let parts = util::par_jobs(16, |job| super::wide::wide_job(ctx, "C07", job, wide_iters));
    st.merge(crate::report::merge_all(parts));
    let spec = Spec {
        rule: "every Boolean function over 3 and 4 variables (two label families) plus random functions over 5-8 sparse labels with densities biased towards sparse (else-arms); a third of all diagrams are handed over as plain unshared nodes the environment did not build; for each: model() false iff unsat, cube shape, literals within support, model => f; infer(model, v) and infer(f, v) for every variable and one unmentioned variable; CLI: generated formulas through `rsbdd -m -t`, `-m -t -ft`, `-m -v`, and `-m -c t|f -t` related to `-c t|f -t` (the model row must be a satisfying cube of the retained diagram). distinct = (table, family) resp. (text, mode); non-trivial = satisfiable non-constant function (CLI: >= 2 free variables). MANY VARIABLES: the same judgement on environments with 65-200 variables (more than a machine word of them), where operands are random DNFs and results are compared pointwise on 48 sampled assignments per case (biased towards the operands' cubes) and walked for order / reduction.".into(),
        assumptions: vec!["infer on a variable the diagram does not mention counts as forced only when the diagram is unsatisfiable".into()],
        floors: vec![
            ("many_variable_cases".into(), 1_000, "environments with more than 64 variables never exercised".into()),
            ("weak_hash_symbol_calls".into(), 2_000, "environment over a constant-hash symbol type never exercised".into()),
            ("model_calls".into(), 60_000, "model never exercised".into()),
            ("models_needing_an_else_arm".into(), 1_000, "else-arm of model never exercised".into()),
            ("infer_forced_true".into(), 1_000, "infer never answered for a forced variable".into()),
            ("foreign_diagrams".into(), 10_000, "diagrams not built by the environment never exercised".into()),
            ("cli[-m -t]".into(), 50, "CLI never exercised".into()),
            ("cli[-m -c]".into(), 50, "-m with -c never exercised".into()),
            ("distinct_nontrivial".into(), 10_000, "too few non-trivial cases".into()),
        ],
    };
    (st, spec)
}

pub fn replay(ctx: &Ctx, _monitor: &str, case: &Value, st: &mut Stats) {
    if case.get("kind").and_then(|k| k.as_str()) == Some("wide") {
        super::wide::replay_wide(ctx, "C07", case, st);
        return;
    }
    if case.get("kind").and_then(|k| k.as_str()) == Some("weak-hash") {
        let job = case.get("job").and_then(|j| j.as_u64()).unwrap_or(0) as usize;
        let mut c2 = ctx.clone();
        c2.seed = case.get("seed").and_then(|j| j.as_u64()).unwrap_or(c2.seed);
        st.merge(super::weak::weak_hash_job(&c2, "C07", job, 20_000));
        return;
    }
    if case.get("kind").and_then(|k| k.as_str()) == Some("cli-retain") {
        cli_model_with_retain(ctx, st, case.get("text").and_then(|t| t.as_str()).unwrap_or("false"));
        return;
    }
    if case.get("kind").and_then(|k| k.as_str()) == Some("cli") {
        cli_case(ctx, st, case.get("text").and_then(|t| t.as_str()).unwrap_or("false"));
        return;
    }
    let uni = parse_labels(case, "universe");
    let outside: usize = case.get("outside").and_then(|s| s.as_str()).and_then(|s| s.parse().ok()).unwrap_or(77);
    let Some(t) = parse_table(case, "f") else { return };
    let env = BDDEnv::new();
    let d = build_in_env(&env, &t, &vars_of(&uni));
    check_model(st, &env, &uni, &(d, t.clone()), outside, "replay");
    let d2 = crate::conv::build_ref(&t, &vars_of(&uni));
    check_model(st, &env, &uni, &(d2, t), outside, "replay-foreign");
}
