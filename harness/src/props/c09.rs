//! C09 — free-variable analysis is exact and bound names never leak into results.
//!
//! Monitor: `free_vars`, `vars` (public fields of the parsed formula) and the labels of the
//! evaluated diagram are compared with the reference binder analysis and the variable-order rule.

use super::common::*;
use crate::conv::labels_of;
use crate::gen::{self, GenCfg, Style};
use crate::refsem::Sem;
use crate::refsyn::{self, Ast};
use crate::report::{Ctx, Spec, Stats};
use crate::util::{self, mix, Caught, Rng};
use rsbdd::NamedSymbol;
use serde_json::{json, Value};
use std::rc::Rc;

const STEP_CAP: u64 = 3_000_000;

/// reference variable order: ordering names by id, then unseen names from max id + 1 in text order
fn expected_order(ast: &Ast, ordering: &Option<Vec<(String, usize)>>) -> Vec<String> {
    let text_order = ast.names_in_text_order();
    match ordering {
        None => text_order,
        Some(ord) => {
            let mut ids: Vec<(usize, String)> = Vec::new();
            let mut next = ord.iter().map(|(_, id)| id + 1).max().unwrap_or(0);
            for n in &text_order {
                // the LAST entry for a name wins (insertion into a map)
                if let Some((_, id)) = ord.iter().rev().find(|(name, _)| name == n) {
                    ids.push((*id, n.clone()));
                } else {
                    ids.push((next, n.clone()));
                    next += 1;
                }
            }
            ids.sort();
            ids.into_iter().map(|(_, n)| n).collect()
        }
    }
}

pub fn check_text(st: &mut Stats, text: &str, ordering: Option<Vec<(String, usize)>>, origin: &str) -> bool {
    st.evals += 1;
    let case = || json!({"text": text, "ordering": ordering, "origin": origin});
    let Ok(ast) = refsyn::parse_text(text) else {
        st.bump("not_a_sentence(skipped)");
        return false;
    };
    if ast.has_kind(&|a| matches!(a, Ast::Ref(_))) {
        st.bump("contains_reference(skipped)");
        return false;
    }
    let names = ast.names_in_text_order();
    if names.len() > 10 {
        return check_long(st, text, &ast, ordering, origin);
    }
    let order = expected_order(&ast, &ordering);
    let free_set = ast.free_names();
    let want_free: Vec<String> = order.iter().filter(|n| free_set.contains(n)).cloned().collect();
    // only convergent fixed points may be evaluated
    let mut sem = Sem::new(&names);
    let convergent = sem.eval(&ast).is_ok();
    let fp_cap = sem.fp_iters * 4 + 64;
    let ord_syms = ordering.as_ref().map(|o| o.iter().map(|(n, id)| NamedSymbol { name: Rc::new(n.clone()), id: *id }).collect::<Vec<_>>());
    check_lookup_helpers(st, text, ord_syms.clone(), &case);
    let out = if convergent {
        engine_eval(text.as_bytes(), ord_syms, STEP_CAP, fp_cap)
    } else {
        // parse only
        util::budget(STEP_CAP, 10);
        match util::guarded(|| rsbdd::parser::ParsedFormula::new(&mut std::io::BufReader::new(text.as_bytes()), ord_syms)) {
            Err(c) => EngineOut::ParsePanic(c),
            Ok(Err(e)) => EngineOut::Rejected(e.to_string()),
            Ok(Ok(pf)) => {
                st.bump("non_convergent(parsed only)");
                let fv: Vec<String> = pf.free_vars.iter().map(|v| v.name.as_ref().clone()).collect();
                let vs: Vec<String> = pf.vars.iter().map(|v| v.name.as_ref().clone()).collect();
                compare_lists(st, text, &fv, &vs, &want_free, &order, &case);
                return true;
            }
        }
    };
    match out {
        EngineOut::Rejected(e) => st.violate("c09.accept", "C09:rejects-well-formed".into(), format!("`{}` rejected: {}", text, e), case()),
        EngineOut::ParsePanic(c) => st.violate("c09.panic", format!("C09:parse-{}", c.signature()), format!("`{}`: {:?}", text, c), case()),
        EngineOut::EvalCaught(_, Caught::Budget(_)) => {
            st.bump("budget_exceeded(inconclusive case)");
            return false;
        }
        EngineOut::EvalCaught(_, c) => st.violate("c09.panic", format!("C09:eval-{}", c.signature()), format!("`{}`: {:?}", text, c), case()),
        EngineOut::Ok(ev) => {
            compare_lists(st, text, &ev.free_vars, &ev.vars, &want_free, &order, &case);
            if !ev.var_ids.windows(2).all(|w| w[0] < w[1]) {
                st.violate("c09.vars", "C09:vars-not-in-variable-order".into(), format!("`{}`: vars {:?} carry ids {:?} (not strictly increasing)", text, ev.vars, ev.var_ids), case());
            }
            // the diagram may only test free variables
            let labs: Vec<String> = labels_of(&ev.result).iter().map(|s| s.name.as_ref().clone()).collect();
            st.add("diagram_labels_checked", labs.len() as u64);
            if let Some(bad) = labs.iter().find(|l| !free_set.contains(l)) {
                st.violate(
                    "c09.no-leak",
                    "C09:bound-name-in-answer".into(),
                    format!("`{}`: the answer tests `{}`, which has no free occurrence (free: {:?})", text, bad, want_free),
                    case(),
                );
            }
            let bound_somewhere = {
                let mut b = false;
                ast.visit(&mut |n| {
                    if matches!(n, Ast::Quant(_, vs, _) if !vs.is_empty()) || matches!(n, Ast::Fix(..)) {
                        b = true;
                    }
                });
                b
            };
            if bound_somewhere {
                let mut h = util::hash_str(text);
                if let Some(o) = &ordering {
                    for (n, id) in o {
                        h = mix(h, mix(util::hash_str(n), *id as u64));
                    }
                }
                st.nt.insert(h);
                // classify what the case exercises
                let all_bound: Vec<String> = {
                    let mut v = Vec::new();
                    ast.visit(&mut |n| match n {
                        Ast::Quant(_, vs, _) => v.extend(vs.iter().cloned()),
                        Ast::Fix(x, _, _) => v.push(x.clone()),
                        _ => {}
                    });
                    v
                };
                if all_bound.iter().any(|b| free_set.contains(b)) {
                    st.bump("name_both_bound_and_free");
                }
                if all_bound.iter().any(|b| !free_set.contains(b)) {
                    st.bump("name_only_bound");
                }
            }
            if st.want_sample() && bound_somewhere && want_free.len() >= 2 && st.evals % 499 == 9 {
                st.sample(json!({"text": text, "ordering": ordering, "free_vars": want_free, "vars": order}));
            }
        }
    }
    true
}

/// Formulas with MANY names (long binder lists): no truth-table reference; the lists are compared
/// with the reference binder analysis and the evaluated diagram may only test free names.
/// Only fixed-point-free texts are evaluated.
fn check_long(st: &mut Stats, text: &str, ast: &Ast, ordering: Option<Vec<(String, usize)>>, origin: &str) -> bool {
    let case = || json!({"text": text, "ordering": ordering, "origin": origin});
    let order = expected_order(ast, &ordering);
    let free_set = ast.free_names();
    let want_free: Vec<String> = order.iter().filter(|n| free_set.contains(n)).cloned().collect();
    let ord_syms = ordering.as_ref().map(|o| o.iter().map(|(n, id)| NamedSymbol { name: Rc::new(n.clone()), id: *id }).collect::<Vec<_>>());
    util::budget(STEP_CAP, 10);
    let pf = match util::guarded(|| rsbdd::parser::ParsedFormula::new(&mut std::io::BufReader::new(text.as_bytes()), ord_syms)) {
        Err(c) => {
            st.violate("c09.panic", format!("C09:parse-{}", c.signature()), format!("`{}`: {:?}", text, c), case());
            return true;
        }
        Ok(Err(e)) => {
            st.violate("c09.accept", "C09:rejects-well-formed".into(), format!("`{}` rejected: {}", text, e), case());
            return true;
        }
        Ok(Ok(pf)) => pf,
    };
    st.bump("many_names_cases");
    st.max("max_names_in_a_text", order.len() as u64);
    let fv: Vec<String> = pf.free_vars.iter().map(|v| v.name.as_ref().clone()).collect();
    let vs: Vec<String> = pf.vars.iter().map(|v| v.name.as_ref().clone()).collect();
    compare_lists(st, text, &fv, &vs, &want_free, &order, &case);
    if !ast.has_kind(&|a| matches!(a, Ast::Fix(..))) {
        util::budget(STEP_CAP, 10);
        match util::guarded(|| pf.eval()) {
            Ok(d) => {
                let labs: Vec<String> = labels_of(&d).iter().map(|s| s.name.as_ref().clone()).collect();
                st.add("diagram_labels_checked", labs.len() as u64);
                if let Some(bad) = labs.iter().find(|l| !free_set.contains(l)) {
                    st.violate("c09.no-leak", "C09:bound-name-in-answer".into(), format!("`{}`: the answer tests `{}`, which has no free occurrence (free: {:?})", text, bad, want_free), case());
                }
            }
            Err(Caught::Budget(_)) => st.bump("budget_exceeded(inconclusive case)"),
            Err(c) => st.violate("c09.panic", format!("C09:eval-{}", c.signature()), format!("`{}`: {:?}", text, c), case()),
        }
    }
    st.nt.insert(util::hash_str(text));
    true
}

/// Binder lists with 11-70 names, in an order unrelated to the variable order (the names were
/// mentioned before in another order, or an ordering says otherwise), partly re-bound inside.
fn long_binders(ctx: &Ctx, st: &mut Stats) {
    let mut rng = Rng::stream(ctx.seed, "C09.long", 0);
    let sizes: Vec<usize> = ctx.tier.pick(vec![11, 15, 16, 17, 18, 24, 33, 40], vec![11, 12, 15, 16, 17, 18, 19, 24, 31, 32, 33, 40, 64, 65, 70]);
    for n in sizes {
        for variant in 0..6 {
            let names: Vec<String> = (0..n).map(|i| format!("x{}", i)).collect();
            let mut shuffled = names.clone();
            rng.shuffle(&mut shuffled);
            let mut rev = names.clone();
            rev.reverse();
            let q = ["exists", "forall", "any", "all"][variant % 4];
            let text = match variant {
                // binder list in text order, then the same names bound again in another order
                0 => format!("a & ({} {} # {}) & ({} {} # {})", q, names.join(", "), names.join(" | "), q, rev.join(", "), names.join(" & ")),
                1 => format!("({} {} # {}) | ({} {} # {} & a)", q, names.join(", "), names.join(" ^ "), q, shuffled.join(", "), names[..3].join(" & ")),
                // some of the names also free outside
                2 => format!("{} & ({} {} # [{}] >= 2) & {}", names[n / 2], q, shuffled.join(", "), names[..8].join(", "), names[0]),
                // nested re-binding of a part of the list
                3 => format!("{} {} # ({} => exists {} # {})", q, shuffled.join(", "), names[1], rev[..n / 2].join(", "), names.join(" | ")),
                // first mention inside the binder list itself, in shuffled order
                4 => format!("{} {} # ({})", q, shuffled.join(", "), names.join(" <=> ")),
                _ => format!("b | ({} {} # {}) | {}", q, shuffled[..n - 1].join(", "), names.join(" & "), shuffled[n - 1]),
            };
            check_text(st, &text, None, "long-binders");
            // and under an ordering that reverses / shuffles the names
            let mut ord_names = names.clone();
            rng.shuffle(&mut ord_names);
            let ordering: Vec<(String, usize)> = ord_names.iter().enumerate().map(|(i, s)| (s.clone(), 2 * i + 1)).collect();
            check_text(st, &text, Some(ordering), "long-binders+ordering");
        }
    }
}

/// Nesting deeper than any plausible recursion guard (300-600 levels) around binders: nested
/// quantifiers on distinct names, binders below long negation chains, inside nested if-conditions,
/// inside nested lists and below left-nested operators.
fn deep_nesting(ctx: &Ctx, st: &mut Stats) {
    for depth in ctx.tier.pick(vec![257usize, 300], vec![129, 257, 300, 600]) {
        let mut texts: Vec<String> = Vec::new();
        // nested quantifiers on distinct names, the body mentions the first, a middle and the last
        let mut t = String::new();
        for i in 0..depth {
            t.push_str(&format!("{} x{} # ", if i % 2 == 0 { "exists" } else { "forall" }, i));
        }
        t.push_str(&format!("(x0 | x{} | x{} | a)", depth / 2, depth - 1));
        texts.push(t);
        texts.push(format!("a & {}(forall x # (x | a))", "-".repeat(depth)));
        texts.push(format!("x & {}(exists x, y # (x & y & c))", "- ".repeat(depth)));
        // nested if-conditions with a fixed point at the bottom
        let mut t = String::from("(gfp X # (X & b))");
        for _ in 0..depth {
            t = format!("if {} then b else b", t);
        }
        texts.push(t);
        // nested lists
        let mut t = String::from("exists q # (q & a)");
        for _ in 0..depth {
            t = format!("[{}] >= 1", t);
        }
        texts.push(t);
        // left-nested operators
        let mut t = String::from("(forall z # z | a)");
        for _ in 0..depth {
            t = format!("({} & a)", t);
        }
        texts.push(t);
        // nested fixed points on distinct names
        let mut t = String::from("a");
        for i in 0..depth.min(300) {
            t = format!("lfp F{} # (a | {})", i, t);
        }
        texts.push(t);
        for text in texts {
            check_text(st, &text, None, "deep-nesting");
            st.bump("deeply_nested_cases");
            st.max("max_nesting_depth", depth as u64);
        }
    }
}

/// Short formulas under an ordering that lists many more names than the formula has tokens.
fn short_formula_long_ordering(st: &mut Stats) {
    let letters: Vec<String> = (b'a'..=b'z').map(|c| (c as char).to_string()).collect();
    let ordering: Vec<(String, usize)> = letters.iter().enumerate().map(|(i, n)| (n.clone(), i)).collect();
    let sparse: Vec<(String, usize)> = letters.iter().enumerate().map(|(i, n)| (n.clone(), 3 * i + 40)).collect();
    for text in ["z", "y | z", "exists z # z | b", "exists c # (c | b) & z", "forall y, z # y | z | a", "lfp z # z | y", "w & -x", "[z, y] >= 1", "if z then y else x"] {
        for ord in [&ordering, &sparse] {
            if check_text(st, text, Some(ord.clone()), "short-formula-long-ordering") {
                st.bump("short_formulas_under_long_orderings");
            }
        }
    }
}

/// A fixed point (or quantifier) re-binds a name that an ENCLOSING binder already binds, and the
/// enclosing scope goes on after it with another occurrence of the name.
fn rebinding_then_later_occurrence(st: &mut Stats) {
    let outers = ["exists x # (%)", "forall x, y # (%)", "gfp x # (b & %)", "lfp x # (% | b)", "exists y, x # (%)", "%"];
    let inners = ["(lfp x # (x | a))", "(gfp x # (x & a))", "(mu x # a)", "(exists x # x & a)", "(forall x # x | a)", "(nu x # (exists x # x))"];
    let tails = ["& x", "| x", "& [x, y] >= 1", "^ (if x then a else y)", "=> x", ""];
    for o in outers {
        for i in inners {
            for t in tails {
                let text = o.replace('%', &format!("{} {}", i, t));
                if check_text(st, &text, None, "rebinding-then-later-occurrence") {
                    st.bump("rebinding_then_later_occurrence");
                }
                let list = format!("[{}, y] = 1 {}", i, t);
                check_text(st, &o.replace('%', &list), None, "rebinding-then-later-occurrence");
            }
        }
    }
}

/// The public look-up helpers of a parsed formula agree with its two lists: the free index of the
/// i-th free variable is i, `usize2var(i)` is the i-th variable, `name2var` finds every variable by
/// its name (and nothing under a name the text does not use).
fn check_lookup_helpers(st: &mut Stats, text: &str, ord_syms: Option<Vec<NamedSymbol>>, case: &dyn Fn() -> Value) {
    util::budget(STEP_CAP, 10);
    let r = util::guarded(|| -> Result<Option<String>, std::io::Error> {
        let pf = rsbdd::parser::ParsedFormula::new(&mut std::io::BufReader::new(text.as_bytes()), ord_syms)?;
        for (i, v) in pf.free_vars.iter().enumerate() {
            let got = pf.to_free_index(v);
            if got != i {
                return Ok(Some(format!("to_free_index({}) = {} but it is free variable #{} of {:?}", v.name, got, i, pf.free_vars.iter().map(|x| x.name.as_ref().clone()).collect::<Vec<_>>())));
            }
            // a symbol IS its id: a node that reached the environment under another spelling of the
            // same id (an earlier formula of a shared environment) belongs to the same column
            let other_spelling = NamedSymbol { name: Rc::new(format!("{}_as_spelled_by_an_earlier_formula", v.name)), id: v.id };
            let got = pf.to_free_index(&other_spelling);
            if got != i {
                return Ok(Some(format!("to_free_index of the symbol with id {} under another name = {} but the variable with that id is free variable #{} ({})", v.id, got, i, v.name)));
            }
        }
        for (i, v) in pf.vars.iter().enumerate() {
            let u = pf.usize2var(i);
            if u.id != v.id || u.name != v.name {
                return Ok(Some(format!("usize2var({}) = {} but vars[{}] = {}", i, u.name, i, v.name)));
            }
            match pf.name2var(v.name.as_ref()) {
                Some(f) if f.id == v.id && f.name == v.name => {}
                other => return Ok(Some(format!("name2var({:?}) = {:?} but the variable is {} (id {})", v.name, other.map(|o| (o.name.as_ref().clone(), o.id)), v.name, v.id))),
            }
        }
        if let Some(f) = pf.name2var("a name the text does not use") {
            return Ok(Some(format!("name2var of an unused name = {} (id {})", f.name, f.id)));
        }
        Ok(None)
    });
    st.bump("lookup_helpers_checked");
    match r {
        Ok(Ok(None)) | Ok(Err(_)) => {}
        Ok(Ok(Some(m))) => st.violate("c09.free-vars", "C09:lookup-helpers-disagree".into(), format!("`{}`: {}", text, m), case()),
        Err(Caught::Budget(_)) => {}
        Err(c) => st.violate("c09.panic", format!("C09:lookup-{}", c.signature()), format!("`{}`: {:?}", text, c), case()),
    }
}

/// An outer fixed point that takes several rounds, whose body contains SEVERAL closed inner fixed
/// points (one of them under a quantifier that binds a name occurring nowhere free): every round
/// evaluates fresh copies of the body, the inner values must not be mixed up and the bound name
/// must not reach the answer.
pub fn closed_inner_fixed_points_text(k: usize, variant: usize) -> String {
    let inner: Vec<String> = (0..k)
        .map(|i| {
            let lit = ["b", "c", "d", "-b", "b | c"][(i + variant) % 5];
            if (i + variant) % 2 == 0 { format!("(gfp Z # ({}) & Z)", lit) } else { format!("(lfp Z # ({}) | Z)", lit) }
        })
        .collect();
    let quantified = ["(exists a # gfp Y # a & Y)", "(forall a # lfp Y # a | Y)", "(exists a # lfp Y # (a | Y) & a)"][variant % 3];
    format!("lfp W # ((c & d & e) | (W & exists c # W) | (exists d # W) | ({} & {}))", quantified, inner.join(" & "))
}

fn closed_inner_fixed_points(st: &mut Stats) {
    for k in 1..=8usize {
        for variant in 0..4usize {
            let text = closed_inner_fixed_points_text(k, variant);
            if check_text(st, &text, None, "closed-inner-fixed-points") {
                st.bump("closed_inner_fixed_points_in_an_iterated_outer_one");
            }
        }
    }
}

fn compare_lists(st: &mut Stats, text: &str, fv: &[String], vs: &[String], want_free: &[String], order: &[String], case: &dyn Fn() -> Value) {
    // sets must be exact; `vars` lists each name once; `free_vars` must be listed in the same
    // (variable) order as `vars`. Which order the tool gives to unlisted variables is not part of
    // the property; the reference rule (first appearance) is only recorded as a statistic.
    let (mut a, mut b) = (fv.to_vec(), want_free.to_vec());
    a.sort();
    b.sort();
    if a != b {
        st.violate("c09.free-vars", "C09:free-vars-set".into(), format!("`{}`\n free_vars = {:?}\n expected (as a set) = {:?}", text, fv, want_free), case());
    }
    let (mut a, mut b) = (vs.to_vec(), order.to_vec());
    a.sort();
    b.sort();
    if a != b {
        st.violate("c09.vars", "C09:vars-set".into(), format!("`{}`\n vars     = {:?}\n expected (each name once) = {:?}", text, vs, order), case());
    }
    let sub: Vec<String> = vs.iter().filter(|n| fv.contains(n)).cloned().collect();
    if sub != fv {
        st.violate("c09.free-vars", "C09:free-vars-order".into(), format!("`{}`\n free_vars = {:?} is not in the variable order given by vars = {:?}", text, fv, vs), case());
    }
    if vs == order {
        st.bump("vars_in_first_appearance_order(statistic)");
    }
}

/// every construct as the POSITION of the free occurrence of `v`, under binders of other / same names
fn positional(st: &mut Stats) {
    let holes: [&str; 16] = [
        "@", "-@", "@ & p", "p | @", "p ^ @", "@ nor p", "p nand @", "@ => p", "p <= @", "if @ then p else q", "if p then @ else q", "if p then q else @", "[p, @] = 1", "[p] <= [@, q]", "[@] > [p]", "(p <=> @)",
    ];
    let wrappers: [&str; 10] = ["%", "exists z # %", "forall z, w # %", "lfp Z # % | Z", "gfp Z # % & Z", "exists v # %", "forall p, v # %", "lfp v # %", "(exists v # v) & %", "% | (lfp v # v)"];
    for h in holes {
        for w in wrappers {
            let inner = h.replace('@', "v");
            let text = w.replace('%', &format!("({})", inner));
            if check_text(st, &text, None, "positional") {
                st.bump("positional_forms");
            }
        }
    }
}

fn random_job(ctx: &Ctx, job: usize, iters: u64) -> Stats {
    let mut st = Stats::new();
    let mut rng = Rng::stream(ctx.seed, "C09.random", job as u64);
    for it in 0..iters {
        let pool: &[&str] = if it % 5 == 0 { &gen::FANCY_NAMES } else if it % 10 == 1 { gen::rare_pool(it / 16 as u64) } else { &gen::PLAIN_NAMES };
        let k = 2 + rng.usize(3);
        let mut names: Vec<&str> = pool.to_vec();
        rng.shuffle(&mut names);
        names.truncate(k);
        let mut cfg = GenCfg::simple(&names, 4);
        cfg.binder_weight = 45;
        cfg.max_fix_depth = 2;
        let ast = gen::gen_ast(&mut rng, &cfg);
        let style = if rng.chance(1, 3) { Style::Fancy } else { Style::Plain };
        let text = gen::render(&ast, &mut rng, style);
        // explicit orderings: permutation / subset / superset with sparse unsorted ids
        let ordering = match rng.below(4) {
            0 | 1 => None,
            _ => {
                let mut cand: Vec<String> = names.iter().map(|s| s.to_string()).collect();
                cand.push("unused1".into());
                cand.push("unused2".into());
                rng.shuffle(&mut cand);
                cand.truncate(1 + rng.usize(cand.len()));
                let mut ids: Vec<usize> = vec![0, 1, 2, 3, 5, 8, 13, 40, 1000, 1 << 33];
                rng.shuffle(&mut ids);
                Some(cand.into_iter().zip(ids).collect::<Vec<_>>())
            }
        };
        check_text(&mut st, &text, ordering, "random");
    }
    st
}

fn exhaustive_job(job: usize, jobs: usize) -> Stats {
    // binder skeletons: up to 3 nested binders over 3 names around every small core
    let mut st = Stats::new();
    let names = ["x", "y", "z"];
    let cores = ["x", "x & y", "y | z", "x ^ z", "if x then y else z", "[x, y] >= [z]", "[x, y, z] = 2", "-y"];
    let mut binders: Vec<String> = vec![String::new()];
    for n in names {
        binders.push(format!("exists {} # ", n));
        binders.push(format!("forall {} # ", n));
        binders.push(format!("lfp {} # ", n));
        binders.push(format!("gfp {} # ", n));
    }
    binders.push("exists x, y # ".into());
    binders.push("forall z, x # ".into());
    binders.push("exists # ".into());
    let mut idx = 0usize;
    for b1 in &binders {
        for b2 in &binders {
            for b3 in &binders {
                for c in cores {
                    idx += 1;
                    if idx % jobs != job {
                        continue;
                    }
                    let text = format!("{}{}{}{}", b1, b2, b3, c);
                    if check_text(&mut st, &text, None, "skeleton") {
                        st.bump("binder_skeletons");
                    }
                    // the same with a free copy outside
                    let text2 = format!("({}{}{}{}) & {}", b1, b2, b3, c, names[idx % 3]);
                    check_text(&mut st, &text2, None, "skeleton+free");
                }
            }
        }
    }
    st
}

pub fn run(ctx: &Ctx) -> (Stats, Spec) {
    let mut st = Stats::new();
    positional(&mut st);
    long_binders(ctx, &mut st);
    short_formula_long_ordering(&mut st);
    rebinding_then_later_occurrence(&mut st);
    closed_inner_fixed_points(&mut st);
    // (own thread: deep recursion wants the workers' large stack)
    let deep = util::par_jobs(1, |_| {
        let mut s = Stats::new();
        deep_nesting(ctx, &mut s);
        s
    });
    st.merge(crate::report::merge_all(deep));
    let parts = util::par_jobs(32, |job| exhaustive_job(job, 32));
    st.merge(crate::report::merge_all(parts));
    st.exhaustive.push("all stacks of <= 3 binders (exists/forall/lfp/gfp on x, y, z; two-name lists; the empty list) around 8 cores, with and without a free copy outside; every construct as the position of the free occurrence under 10 binder contexts".into());
    let iters = ctx.tier.pick(60_000u64, 800_000u64);
    let parts = util::par_jobs(16, |job| random_job(ctx, job, iters));
    st.merge(crate::report::merge_all(parts));
    let spec = Spec {
        rule: "binder-heavy random formulas over 2-4 names (also primed / non-ASCII), with and without an explicit ordering (permutation, subset, superset with unused names, sparse unsorted ids); exhaustive binder skeletons; positional forms; binder lists with 11-70 names in an order unrelated to the variable order (re-bound in reverse / shuffled order, partly free outside, nested re-binding, with and without an ordering); binders under 257-300 [quick] / 129-600 [thorough] levels of nesting (quantifiers on distinct names, negations, if-conditions, lists, left-nested operators, fixed points). free_vars / vars are compared as ordered name lists with the reference binder analysis and order rule; labels of the evaluated diagram must be free names. distinct = (text, ordering); non-trivial = the formula contains a binder that binds at least one name.".into(),
        assumptions: vec!["reference-free formulas only (as the statement says); non-convergent fixed points are parsed but not evaluated".into()],
        floors: vec![
            ("name_both_bound_and_free".into(), 1_000, "names both bound and free hardly exercised".into()),
            ("name_only_bound".into(), 1_000, "names occurring only bound hardly exercised".into()),
            ("positional_forms".into(), 100, "positional forms not judged".into()),
            ("many_names_cases".into(), 50, "long binder lists not exercised".into()),
            ("deeply_nested_cases".into(), 10, "deep nesting not exercised".into()),
            ("binder_skeletons".into(), 10_000, "binder skeletons not judged".into()),
            ("distinct_nontrivial".into(), 20_000, "too few non-trivial cases".into()),
        ],
    };
    (st, spec)
}

pub fn replay(_ctx: &Ctx, _monitor: &str, case: &Value, st: &mut Stats) {
    let Some(t) = case.get("text").and_then(|t| t.as_str()) else { return };
    let ordering: Option<Vec<(String, usize)>> = case.get("ordering").and_then(|o| o.as_array()).map(|a| a.iter().filter_map(|p| Some((p.get(0)?.as_str()?.to_string(), p.get(1)?.as_u64()? as usize))).collect());
    check_text(st, t, ordering, "replay");
}
