//! The same monitors over an environment whose symbol type has a constant `Hash`
//! (`WeakSym`: legal — equal values hash equally — but every pair of same-shape diagrams
//! collides). Anything that confuses "same hash" with "same diagram" becomes a wrong value.
//! Used by C04 (quantifiers), C05 (counting), C07 (model) and C20 (retain); C03 has its own part.

use super::c03::WeakSym;
use crate::conv::{build_in_env, check_ordered_reduced, labels_of, short, tt_of_bdd};
use crate::refsem::count_vs_const;
use crate::refsyn::Cmp;
use crate::report::{Ctx, Stats};
use crate::tt::Tt;
use crate::util::{self, guarded, mix, Rng};
use rsbdd::bdd::{BDDEnv, BDD};
use rsbdd::TruthTableEntry;
use serde_json::json;
use std::rc::Rc;

type W = Rc<BDD<WeakSym>>;

fn syms() -> Vec<WeakSym> {
    vec![WeakSym(1), WeakSym(2), WeakSym(5), WeakSym(9)]
}

fn random_fn(rng: &mut Rng, env: &BDDEnv<WeakSym>, vars: &[(WeakSym, u32)], n: u32) -> (W, Tt) {
    let mut t = Tt::constant(n, false);
    for a in 0..t.size() {
        t.set(a, rng.chance(1, 2));
    }
    for i in 0..n {
        if rng.chance(1, 4) {
            t = t.cofactor(i, rng.chance(1, 2));
        }
    }
    (build_in_env(env, &t, vars), t)
}

/// which: "C04" | "C05" | "C07" | "C20"
pub fn weak_hash_job(ctx: &Ctx, which: &str, job: usize, iters: u64) -> Stats {
    let mut st = Stats::new();
    let mut rng = Rng::stream(ctx.seed, &format!("{}.weakhash", which), job as u64);
    let ss = syms();
    let n = ss.len() as u32;
    let idx = |s: &WeakSym| ss.iter().position(|x| x == s).map(|p| p as u32);
    let vars: Vec<(WeakSym, u32)> = ss.iter().enumerate().map(|(i, s)| (s.clone(), i as u32)).collect();
    let mut env: BDDEnv<WeakSym> = BDDEnv::new();
    for it in 0..iters {
        if it % 150 == 0 {
            env = BDDEnv::new(); // every table lookup walks one bucket: keep tables small
        }
        st.evals += 1;
        st.bump("weak_hash_symbol_calls");
        let case = json!({"kind": "weak-hash", "seed": ctx.seed, "job": job});
        util::budget(5_000_000, 1000);
        let f = random_fn(&mut rng, &env, &vars, n);
        match which {
            "C04" => {
                let list: Vec<WeakSym> = (0..rng.usize(3) + 1).map(|_| rng.pick(&ss).clone()).collect();
                let forall = rng.chance(1, 2);
                let r = guarded(|| if forall { env.all(list.clone(), Rc::clone(&f.0)) } else { env.exists(list.clone(), Rc::clone(&f.0)) });
                let mut want = f.1.clone();
                for l in &list {
                    let i = idx(l).unwrap();
                    want = if forall { want.forall(i) } else { want.exists(i) };
                }
                match r {
                    Ok(r) => {
                        if tt_of_bdd(&r, n, &idx).ok().as_ref() != Some(&want) {
                            st.violate("c04.semantics", format!("C04:{}:wrong-value", if forall { "all" } else { "exists" }), format!("constant-hash symbols: {}({:?}, {}) = {} expected table {}", if forall { "all" } else { "exists" }, list, short(&f.0), short(&r), want.hex()), case);
                        } else if !f.1.is_const() {
                            st.nt.insert(mix(f.1.hash64(), 0x3ea4 + list.len() as u64));
                        }
                    }
                    Err(c) => st.violate("c04.panic", format!("C04:weak-hash:{}", c.signature()), format!("{:?}", c), case),
                }
            }
            "C05" => {
                let len = rng.usize(4);
                let ops: Vec<(W, Tt)> = (0..len).map(|_| random_fn(&mut rng, &env, &vars, n)).collect();
                let ds: Vec<W> = ops.iter().map(|x| Rc::clone(&x.0)).collect();
                let ts: Vec<Tt> = ops.iter().map(|x| x.1.clone()).collect();
                let k = rng.range(-1, len as i64 + 1);
                let (name, cmp) = *rng.pick(&[("aln", Cmp::AtLeast), ("amn", Cmp::AtMost), ("exn", Cmp::Exactly)]);
                let r = guarded(|| match name {
                    "aln" => env.aln(&ds, k),
                    "amn" => env.amn(&ds, k),
                    _ => env.exn(&ds, k),
                });
                let want = count_vs_const(n, &ts, cmp, k as i128);
                match r {
                    Ok(r) => {
                        if tt_of_bdd(&r, n, &idx).ok().as_ref() != Some(&want) {
                            st.violate("c05.count", format!("C05:{}:wrong-value", name), format!("constant-hash symbols: {}({:?}, {}) = {} expected table {}", name, ds.iter().map(short).collect::<Vec<_>>(), k, short(&r), want.hex()), case);
                        } else if ts.iter().filter(|t| !t.is_const()).count() >= 2 {
                            st.nt.insert(mix(want.hash64(), 0x3ea5u64.wrapping_add(k as u64)));
                        }
                    }
                    Err(c) => st.violate("c05.panic", format!("C05:weak-hash:{}", c.signature()), format!("{:?}", c), case),
                }
            }
            "C07" => match guarded(|| env.model(Rc::clone(&f.0))) {
                Ok(m) => {
                    let mt = tt_of_bdd(&m, n, &idx).ok();
                    let ok = match &mt {
                        Some(mt) => mt.leq(&f.1) && (mt.is_false() == f.1.is_false()) && (matches!(m.as_ref(), BDD::False) == f.1.is_false()),
                        None => false,
                    };
                    if !ok {
                        st.violate("c07.implies", "C07:model:not-a-model".into(), format!("constant-hash symbols: model({}) = {} (f table {})", short(&f.0), short(&m), f.1.hex()), case);
                    } else if !f.1.is_const() {
                        st.nt.insert(mix(f.1.hash64(), 0x3ea7));
                    }
                }
                Err(c) => st.violate("c07.panic", format!("C07:weak-hash:{}", c.signature()), format!("{:?}", c), case),
            },
            _ => {
                for (fname, filter) in [("True", TruthTableEntry::True), ("False", TruthTableEntry::False), ("Any", TruthTableEntry::Any)] {
                    match guarded(|| env.retain_choice_bottom_up(Rc::clone(&f.0), filter)) {
                        Ok(r) => {
                            let Ok(rt) = tt_of_bdd(&r, n, &idx) else { continue };
                            let ok = match fname {
                                "True" => f.1.leq(&rt),
                                "False" => rt.leq(&f.1),
                                _ => r.as_ref() == f.0.as_ref(),
                            };
                            let support: Vec<WeakSym> = f.1.support().iter().map(|i| ss[*i as usize].clone()).collect();
                            if !ok {
                                st.violate("c20.direction", format!("C20:{}:wrong-direction", fname), format!("constant-hash symbols: retain({}, {}) = {} is not {} f", short(&f.0), fname, short(&r), match fname { "True" => "implied by", "False" => "implying", _ => "equal to" }), case.clone());
                            } else if check_ordered_reduced(&r).is_err() || labels_of(&r).iter().any(|l| !support.contains(l)) {
                                st.violate("c20.walker", format!("C20:{}:not-ordered-reduced", fname), format!("constant-hash symbols: retain({}, {}) = {}", short(&f.0), fname, short(&r)), case.clone());
                            } else if fname != "Any" && r.as_ref() != f.0.as_ref() {
                                st.nt.insert(mix(f.1.hash64(), 0x3e20 + fname.len() as u64));
                            }
                        }
                        Err(c) => st.violate("c20.panic", format!("C20:weak-hash:{}", c.signature()), format!("{:?}", c), case.clone()),
                    }
                }
            }
        }
    }
    st
}
