//! C19 — BDDSet behaves as a mathematical set of b-bit integers under every history.
//!
//! Monitor: exhaustive breadth-first exploration of the *reference* state space (pairs of subsets
//! of {0..2^b-1}); every (reachable state pair, next operation) is executed on fresh real sets by
//! replaying the shortest recorded history, then all memberships are read through `contains`, the
//! queries are repeated, and the public `bdd` field is compared before/after the queries.

use crate::report::{Ctx, Spec, Stats};
use crate::util::{self, guarded, mix, Rng};
use rsbdd::bdd::BDDEnv;
use rsbdd::set::BDDSet;
use serde_json::{json, Value};
use std::collections::{HashMap, VecDeque};
use std::rc::Rc;

#[derive(Debug, Clone, Copy, PartialEq, Eq, Hash)]
pub enum SetOp {
    Insert(u8, usize),      // (which set, element)
    Union(u8, u8),          // target, other
    Intersect(u8, u8),
    Complement(u8, u8),     // target := target \ other
    Empty(u8),
    Universe(u8),
    Contains(u8, usize),    // query
    CloneFrom(u8, u8),      // target := other.clone()  (a clone is a set of its own in the same environment)
}

impl SetOp {
    fn name(&self) -> String {
        let s = |w: &u8| if *w == 0 { "A" } else { "B" };
        match self {
            SetOp::Insert(w, x) => format!("{}.insert({})", s(w), x),
            SetOp::Union(a, b) => format!("{}.union({})", s(a), s(b)),
            SetOp::Intersect(a, b) => format!("{}.intersect({})", s(a), s(b)),
            SetOp::Complement(a, b) => format!("{}.complement({})", s(a), s(b)),
            SetOp::Empty(w) => format!("{}.empty()", s(w)),
            SetOp::Universe(w) => format!("{}.universe()", s(w)),
            SetOp::Contains(w, x) => format!("{}.contains({})", s(w), x),
            SetOp::CloneFrom(a, b) => format!("{}.becomes_clone_of({})", s(a), s(b)),
        }
    }
    fn to_json(self) -> Value {
        json!(self.name())
    }
    fn parse(s: &str) -> Option<SetOp> {
        let w = |c: &str| if c == "A" { Some(0u8) } else if c == "B" { Some(1u8) } else { None };
        let (lhs, rest) = s.split_once('.')?;
        let (f, arg) = rest.split_once('(')?;
        let arg = arg.trim_end_matches(')');
        let t = w(lhs)?;
        Some(match f {
            "insert" => SetOp::Insert(t, arg.parse().ok()?),
            "union" => SetOp::Union(t, w(arg)?),
            "intersect" => SetOp::Intersect(t, w(arg)?),
            "complement" => SetOp::Complement(t, w(arg)?),
            "empty" => SetOp::Empty(t),
            "universe" => SetOp::Universe(t),
            "contains" => SetOp::Contains(t, arg.parse().ok()?),
            "becomes_clone_of" => SetOp::CloneFrom(t, w(arg)?),
            _ => return None,
        })
    }
    fn self_aliased(&self) -> bool {
        matches!(self, SetOp::Union(a, b) | SetOp::Intersect(a, b) | SetOp::Complement(a, b) if a == b)
    }
}

/// reference: bitmasks over the universe {0..2^bits-1}
fn apply_ref(state: (u64, u64), op: SetOp, bits: usize) -> (u64, u64) {
    let full: u64 = if bits >= 6 { u64::MAX } else { (1u64 << (1u64 << bits)) - 1 };
    let mut s = [state.0, state.1];
    match op {
        SetOp::Insert(w, x) => s[w as usize] |= 1u64 << x,
        SetOp::Union(a, b) => s[a as usize] |= s[b as usize],
        SetOp::Intersect(a, b) => s[a as usize] &= s[b as usize],
        SetOp::Complement(a, b) => s[a as usize] &= !s[b as usize],
        SetOp::Empty(w) => s[w as usize] = 0,
        SetOp::Universe(w) => s[w as usize] = full,
        SetOp::Contains(..) => {}
        SetOp::CloneFrom(a, b) => s[a as usize] = s[b as usize],
    }
    (s[0], s[1])
}

fn apply_real(sets: &mut [BDDSet; 2], op: SetOp) -> Option<bool> {
    match op {
        SetOp::Insert(w, x) => {
            sets[w as usize].insert(x);
            None
        }
        SetOp::Union(a, b) => {
            sets[a as usize].union(&sets[b as usize]);
            None
        }
        SetOp::Intersect(a, b) => {
            sets[a as usize].intersect(&sets[b as usize]);
            None
        }
        SetOp::Complement(a, b) => {
            sets[a as usize].complement(&sets[b as usize]);
            None
        }
        SetOp::Empty(w) => {
            sets[w as usize].empty();
            None
        }
        SetOp::Universe(w) => {
            sets[w as usize].universe();
            None
        }
        SetOp::Contains(w, x) => Some(sets[w as usize].contains(x)),
        SetOp::CloneFrom(a, b) => {
            if a != b {
                let c = sets[b as usize].clone();
                sets[a as usize] = c;
            }
            None
        }
    }
}

fn all_ops(bits: usize) -> Vec<SetOp> {
    let n = 1usize << bits;
    let mut v = Vec::new();
    for w in 0..2u8 {
        for x in 0..n {
            v.push(SetOp::Insert(w, x));
        }
        v.push(SetOp::Empty(w));
        v.push(SetOp::Universe(w));
        for x in 0..n {
            v.push(SetOp::Contains(w, x));
        }
    }
    for a in 0..2u8 {
        for b in 0..2u8 {
            v.push(SetOp::Union(a, b));
            v.push(SetOp::Intersect(a, b));
            v.push(SetOp::Complement(a, b));
        }
    }
    v.push(SetOp::CloneFrom(0, 1));
    v.push(SetOp::CloneFrom(1, 0));
    v
}

fn sig_for(op: SetOp, what: &str) -> String {
    let kind = match op {
        SetOp::Insert(..) => "insert",
        SetOp::Union(..) => "union",
        SetOp::Intersect(..) => "intersect",
        SetOp::Complement(..) => "complement",
        SetOp::Empty(..) => "empty",
        SetOp::Universe(..) => "universe",
        SetOp::Contains(..) => "contains",
        SetOp::CloneFrom(..) => "clone",
    };
    format!("C19:{}{}:{}", kind, if op.self_aliased() { "(self-aliased)" } else { "" }, what)
}

/// Execute a history on fresh sets sharing one environment; observe everything after the last op.
fn run_history(st: &mut Stats, bits: usize, history: &[SetOp], fam: &str) {
    st.evals += 1;
    let n = 1usize << bits;
    let last = *history.last().expect("non-empty history");
    let case = || json!({"bits": bits, "history": history.iter().map(|o| o.to_json()).collect::<Vec<_>>()});
    // reference
    let mut rs = (0u64, 0u64);
    for op in history {
        rs = apply_ref(rs, *op, bits);
    }
    util::budget(50_000_000, 1000);
    let hist = history.to_vec();
    let observed = guarded(move || {
        let env = Rc::new(BDDEnv::new());
        let mut sets = [BDDSet::with_env(bits, &env), BDDSet::with_env(bits, &env)];
        let mut last_answer = None;
        let mut query_changed_set = false;
        for op in &hist {
            let before = [sets[0].bdd.borrow().clone(), sets[1].bdd.borrow().clone()];
            last_answer = apply_real(&mut sets, *op);
            if let SetOp::Contains(..) = op {
                if sets[0].bdd.borrow().as_ref() != before[0].as_ref() || sets[1].bdd.borrow().as_ref() != before[1].as_ref() {
                    query_changed_set = true;
                }
            }
        }
        // read all memberships twice; remember the diagrams in between
        let d0 = [sets[0].bdd.borrow().clone(), sets[1].bdd.borrow().clone()];
        let mut first = [0u64, 0u64];
        for w in 0..2 {
            for x in 0..n {
                if sets[w].contains(x) {
                    first[w] |= 1u64 << x;
                }
            }
        }
        let d1 = [sets[0].bdd.borrow().clone(), sets[1].bdd.borrow().clone()];
        let mut second = [0u64, 0u64];
        for w in 0..2 {
            for x in (0..n).rev() {
                if sets[w].contains(x) {
                    second[w] |= 1u64 << x;
                }
            }
        }
        let reads_changed = d0[0].as_ref() != d1[0].as_ref() || d0[1].as_ref() != d1[1].as_ref();
        (last_answer, query_changed_set, first, second, reads_changed)
    });
    let (last_answer, query_changed, first, second, reads_changed) = match observed {
        Ok(o) => o,
        Err(c) => {
            st.violate("c19.panic", sig_for(last, &c.signature()), format!("history {:?} panicked: {:?}", history.iter().map(|o| o.name()).collect::<Vec<_>>(), c), case());
            return;
        }
    };
    let hist_names = || history.iter().map(|o| o.name()).collect::<Vec<_>>().join("; ");
    if let (SetOp::Contains(w, x), Some(ans)) = (last, last_answer) {
        let want = ([rs.0, rs.1][w as usize] >> x) & 1 == 1;
        if ans != want {
            st.violate("c19.membership", sig_for(last, "wrong-answer"), format!("after [{}] the query answered {} but the reference set says {}", hist_names(), ans, want), case());
        }
    }
    if query_changed || reads_changed {
        st.violate("c19.query-pure", "C19:contains:query-modified-the-set".into(), format!("a contains() query changed the set's diagram (history [{}])", hist_names()), case());
    }
    if first != [rs.0, rs.1] {
        let w = if first[0] != rs.0 { 0 } else { 1 };
        st.violate(
            "c19.membership",
            sig_for(last, "wrong-membership"),
            format!("after [{}]: set {} contains {:#b} (bit x = element x), reference says {:#b}", hist_names(), if w == 0 { "A" } else { "B" }, first[w], [rs.0, rs.1][w]),
            case(),
        );
    } else if second != first {
        st.violate("c19.query-pure", "C19:contains:answers-change-when-asked-again".into(), format!("after [{}]: first read {:?}, second read {:?}", hist_names(), first, second), case());
    }
    let full: u64 = if bits >= 6 { u64::MAX } else { (1u64 << (1u64 << bits)) - 1 };
    // non-trivial: state before the last op has both sets neither empty nor the universe
    let mut prev = (0u64, 0u64);
    for op in &history[..history.len() - 1] {
        prev = apply_ref(prev, *op, bits);
    }
    if prev.0 != 0 && prev.1 != 0 && prev.0 != full && prev.1 != full {
        let mut h = mix(prev.0, prev.1);
        h = mix(h, util::hash_str(&last.name()));
        st.nt.insert(mix(h, mix(bits as u64, util::hash_str(fam))));
    }
    if last.self_aliased() {
        st.bump("self_aliased_ops");
    }
    if let SetOp::Contains(..) = last {
        st.bump("queries_as_last_op");
    }
    if st.want_sample() && history.len() >= 4 && st.evals % 401 == 3 {
        st.sample(json!({"bits": bits, "history": hist_names(), "reference_state": {"A": format!("{:#b}", rs.0), "B": format!("{:#b}", rs.1)}}));
    }
}

fn bfs(bits: usize) -> (Vec<((u64, u64), Vec<SetOp>)>, u64) {
    // shortest history reaching every reference state pair
    let ops = all_ops(bits);
    let mut seen: HashMap<(u64, u64), Vec<SetOp>> = HashMap::new();
    let mut q = VecDeque::new();
    seen.insert((0, 0), vec![]);
    q.push_back((0u64, 0u64));
    let mut transitions = 0u64;
    while let Some(s) = q.pop_front() {
        let h = seen[&s].clone();
        for op in &ops {
            if let SetOp::Contains(..) = op {
                continue;
            }
            transitions += 1;
            let t = apply_ref(s, *op, bits);
            if !seen.contains_key(&t) {
                let mut h2 = h.clone();
                h2.push(*op);
                seen.insert(t, h2);
                q.push_back(t);
            }
        }
    }
    let mut v: Vec<_> = seen.into_iter().collect();
    v.sort_by_key(|x| x.0);
    (v, transitions)
}

fn exhaustive(bits: usize) -> Stats {
    let (states, _) = bfs(bits);
    let ops = all_ops(bits);
    let chunks = 64usize;
    let parts = util::par_jobs(chunks, |job| {
        let mut st = Stats::new();
        for (i, (s, h)) in states.iter().enumerate() {
            if i % chunks != job {
                continue;
            }
            for op in &ops {
                let mut hist = h.clone();
                hist.push(*op);
                run_history(&mut st, bits, &hist, "bfs");
            }
            // the same state reached with REDUNDANT steps on the way: every operation that leaves
            // the reference state as it is (inserting a member again, uniting with a subset,
            // intersecting with a superset, removing a disjoint set, X = X) is executed before the
            // next operation — a shortest history never contains such a step
            if bits <= 2 || i % 4 == 1 {
                let redundant: Vec<SetOp> = ops.iter().filter(|o| !matches!(o, SetOp::Contains(..)) && apply_ref(*s, **o, bits) == *s).cloned().collect();
                for (k, op) in ops.iter().enumerate() {
                    let mut hist = h.clone();
                    if k % 2 == 0 {
                        hist.extend(redundant.iter().cloned());
                    } else {
                        hist.extend(redundant.iter().rev().cloned());
                    }
                    hist.push(*op);
                    run_history(&mut st, bits, &hist, "bfs-with-redundant-steps");
                    st.bump("histories_with_redundant_steps");
                }
            }
        }
        st
    });
    let mut st = crate::report::merge_all(parts);
    st.add(&format!("reference_state_pairs_b{}", bits), states.len() as u64);
    st.add(&format!("state_op_pairs_b{}", bits), (states.len() * ops.len()) as u64);
    st.max("max_history_length", states.iter().map(|s| s.1.len() as u64 + 1).max().unwrap_or(0));
    st
}

fn random_job(ctx: &Ctx, job: usize, iters: u64) -> Stats {
    let mut st = Stats::new();
    let maxlen = ctx.tier.pick(60usize, 500usize);
    let mut rng = Rng::stream(ctx.seed, "C19.random", job as u64);
    for _ in 0..iters {
        let bits = 2 + rng.usize(3);
        let ops = all_ops(bits);
        let len = 5 + rng.usize(maxlen);
        let hist: Vec<SetOp> = (0..len).map(|_| *rng.pick(&ops)).collect();
        run_history(&mut st, bits, &hist, "random");
        st.bump("random_histories");
        st.max("max_history_length", len as u64);
    }
    st
}

/// Wide sets (b = 31..64): the universe is far too large to enumerate, so histories work on a
/// pool of sampled elements (random b-bit values plus neighbours that differ in one high or low
/// bit), the reference is a BTreeSet, and after every operation `contains` is asked for the whole
/// pool. `universe()` is left out (its complement cannot be enumerated).
/// ONE environment shared by two 64-bit sets for a long history (every insert and every membership
/// query interns about two thousand nodes): the environment grows well beyond a million nodes
/// while memberships of old and new elements keep being compared with the reference sets.
fn long_lived_env_job(ctx: &Ctx, target_nodes: usize) -> Stats {
    use std::collections::BTreeSet;
    let mut st = Stats::new();
    let mut rng = Rng::stream(ctx.seed, "C19.longenv", 0);
    let case = json!({"kind": "long-env", "seed": ctx.seed, "target": target_nodes});
    st.evals += 1;
    util::budget(u64::MAX, 1000);
    let r = guarded(move || {
        let env = Rc::new(BDDEnv::new());
        let bits = 64usize;
        let sets = [BDDSet::with_env(bits, &env), BDDSet::with_env(bits, &env)];
        let mut refs: [BTreeSet<usize>; 2] = [BTreeSet::new(), BTreeSet::new()];
        let mut known: Vec<usize> = Vec::new();
        let mut steps = 0u64;
        let mut queries = 0u64;
        while env.size() < target_nodes && steps < 5_000 {
            steps += 1;
            let (w, o) = (rng.usize(2), rng.usize(2));
            let what = match rng.below(10) {
                0 => {
                    sets[w].union(&sets[o]);
                    let other = refs[o].clone();
                    refs[w].extend(other);
                    format!("{}.union({})", ["A", "B"][w], ["A", "B"][o])
                }
                1 => {
                    sets[w].intersect(&sets[o]);
                    let other = refs[o].clone();
                    refs[w].retain(|e| other.contains(e));
                    format!("{}.intersect({})", ["A", "B"][w], ["A", "B"][o])
                }
                2 if w != o => {
                    sets[w].complement(&sets[o]);
                    let other = refs[o].clone();
                    refs[w].retain(|e| !other.contains(e));
                    format!("{}.complement({})", ["A", "B"][w], ["A", "B"][o])
                }
                _ => {
                    let x = rng.next() as usize;
                    sets[w].insert(x);
                    refs[w].insert(x);
                    known.push(x);
                    format!("{}.insert({:#x})", ["A", "B"][w], x)
                }
            };
            // the newest element, two older ones, one never inserted
            let mut probe: Vec<usize> = Vec::new();
            if let Some(l) = known.last() {
                probe.push(*l);
            }
            for _ in 0..2 {
                if !known.is_empty() {
                    probe.push(known[rng.usize(known.len())]);
                }
            }
            probe.push(rng.next() as usize);
            for s in 0..2 {
                for e in &probe {
                    queries += 1;
                    let got = sets[s].contains(*e);
                    if got != refs[s].contains(e) {
                        return Err((steps, what, s, *e, got, env.size()));
                    }
                }
            }
        }
        Ok((steps, queries, env.size()))
    });
    match r {
        Ok(Ok((steps, queries, size))) => {
            st.add("long_lived_environment_steps", steps);
            st.add("long_lived_environment_queries", queries);
            st.max("max_environment_size", size as u64);
            st.nt.insert(0x19_1000);
        }
        Ok(Err((step, what, s, e, got, size))) => st.violate("c19.membership", "C19:long-env:wrong-membership".into(), format!("two 64-bit sets in one environment, step {} ({}): set {} answers contains({:#x}) = {}, the reference says {}; the environment holds {} nodes", step, what, ["A", "B"][s], e, got, !got, size), case),
        Err(c) => st.violate("c19.panic", format!("C19:long-env:{}", c.signature()), format!("{:?}", c), case),
    }
    st
}

/// An element type whose categorisation FAILS (panics) for one bit position — a short bit vector
/// asked for a bit it does not have, say.
#[derive(Clone, Copy, Debug)]
pub struct Failing(pub usize, pub usize);

impl rsbdd::set::BDDCategorizable for Failing {
    fn categorize(&self, c: usize) -> bool {
        if c == self.1 {
            panic!("this element has no bit {}", c);
        }
        (self.0 >> c) & 1 == 0
    }
}

/// Queries under observation: (1) while someone holds a shared borrow of the set's public diagram
/// cell (reading or plotting it), a membership query must answer as usual — a query only reads;
/// (2) a query that fails half-way (the element's categorisation panics, the caller catches it)
/// must leave the set as it was.
fn observed_queries_job(ctx: &Ctx, job: usize, iters: u64) -> Stats {
    let mut st = Stats::new();
    let mut rng = Rng::stream(ctx.seed, "C19.observed", job as u64);
    for it in 0..iters {
        let bits = 2 + rng.usize(4);
        let universe = 1usize << bits;
        let members: std::collections::BTreeSet<usize> = (0..universe).filter(|_| rng.chance(1, 2)).collect();
        let probe = rng.usize(universe);
        let fail_at = rng.usize(bits);
        st.evals += 1;
        let case = json!({"kind": "observed", "seed": ctx.seed, "job": job, "iteration": it});
        util::budget(50_000_000, 1000);
        let m2 = members.clone();
        let r = {
            guarded(move || -> Result<(), String> {
                let env = Rc::new(BDDEnv::new());
                let s = BDDSet::with_env(bits, &env);
                for e in &m2 {
                    s.insert(*e);
                }
                // (1) a reader holds the diagram while the query runs
                {
                    let reader = s.bdd.borrow();
                    let answer = std::panic::catch_unwind(std::panic::AssertUnwindSafe(|| s.contains(probe)));
                    drop(reader);
                    match answer {
                        Ok(a) if a == m2.contains(&probe) => {}
                        Ok(a) => return Err(format!("with a reader holding the diagram, contains({}) = {} (the set is {:?})", probe, a, m2)),
                        Err(_) => return Err(format!("contains({}) panics while a reader holds a shared borrow of the set's diagram (the set is {:?}): a query must only read", probe, m2)),
                    }
                }
                // (2) a query that fails half-way
                let failed = std::panic::catch_unwind(std::panic::AssertUnwindSafe(|| s.contains(Failing(probe, fail_at))));
                if failed.is_ok() {
                    return Err("the failing element did not fail (harness assumption)".into());
                }
                for e in 0..universe {
                    let got = s.contains(e);
                    if got != m2.contains(&e) {
                        return Err(format!("after a query whose element failed to categorise bit {} (caught by the caller), contains({}) = {} but the set was {:?}", fail_at, e, got, m2));
                    }
                }
                Ok(())
            })
        };
        match r {
            Ok(Ok(())) => {
                st.bump("queries_under_observation");
                if !members.is_empty() && members.len() < universe {
                    st.nt.insert(mix(0x19_0b, mix(job as u64, it)));
                }
            }
            Ok(Err(m)) if m.contains("harness assumption") => st.bump("failing_element_did_not_fail(skipped)"),
            Ok(Err(m)) => st.violate("c19.query-pure", "C19:contains:query-modified-the-set".into(), format!("b = {}: {}", bits, m), case),
            Err(c) => st.violate("c19.panic", format!("C19:observed:{}", c.signature()), format!("{:?}", c), case),
        }
    }
    st
}

/// Elements written as plain integer LITERALS (`s.insert(5)`), as every example does: on sets of
/// 3, 33, 40 and 64 bits. Whatever type the compiler picks for the literal, 5 is the element 5.
fn literal_elements(st: &mut Stats) {
    for bits in [3usize, 31, 32, 33, 40, 63, 64] {
        st.evals += 1;
        let case = json!({"kind": "literals", "bits": bits});
        util::budget(50_000_000, 1000);
        let r = guarded(move || -> Result<(), String> {
            let env = Rc::new(BDDEnv::new());
            let a = BDDSet::with_env(bits, &env);
            let b = BDDSet::with_env(bits, &env);
            a.insert(5);
            a.insert(2);
            b.insert(5);
            b.insert(7);
            let single = BDDSet::from_element(6, bits, &env);
            a.union(&single);
            // a = {2, 5, 6}, b = {5, 7}
            for (what, got, want) in [
                ("a.contains(5)", a.contains(5), true),
                ("a.contains(5usize)", a.contains(5usize), true),
                ("a.contains(6)", a.contains(6), true),
                ("a.contains(7)", a.contains(7), false),
                ("b.contains(7usize)", b.contains(7usize), true),
                ("b.contains(2)", b.contains(2), false),
            ] {
                if got != want {
                    return Err(format!("{} = {} (a = {{2, 5, 6}}, b = {{5, 7}}, elements inserted as integer literals)", what, got));
                }
            }
            if bits > 32 {
                let high = 5usize + (5usize << 32);
                if a.contains(high) {
                    return Err(format!("a.contains({:#x}) = true although only 2, 5 and 6 were inserted", high));
                }
            }
            a.complement(&b);
            if a.contains(5) || !a.contains(2) || !a.contains(6) {
                return Err("after a.complement(b): a should be {2, 6}".into());
            }
            Ok(())
        });
        match r {
            Ok(Ok(())) => {
                st.bump("sets_with_literal_elements");
                st.nt.insert(mix(0x19_11, bits as u64));
            }
            Ok(Err(m)) => st.violate("c19.membership", "C19:literals:wrong-membership".into(), format!("b = {}: {}", bits, m), case),
            Err(c) => st.violate("c19.panic", format!("C19:literals:{}", c.signature()), format!("b = {}: {:?}", bits, c), case),
        }
    }
}

/// Sets that are (almost) ALONE in their environment: made with `BDDSet::new` (the set is the
/// only owner of its environment), or with `with_env` while the caller keeps zero, one or two
/// handles of the environment, with or without a sibling set. Histories of insert / empty /
/// universe / union with a one-element set / clone-and-drop; after every step all memberships are
/// compared with a reference set. (An environment that tidies itself up when it believes nobody
/// else is looking must still answer correctly afterwards.)
fn lone_set_histories(st: &mut Stats, seed: u64, first: u64, count: u64) {
    use std::collections::BTreeSet;
    for h in first..first + count {
        st.evals += 1;
        let case = json!({"kind": "lone", "seed": seed, "history": h});
        util::budget(50_000_000, 1000);
        let r = guarded(move || -> Result<(usize, String), String> {
            let mut rng = Rng::stream(seed, "C19.lone", h);
            let bits = [1usize, 2, 3, 4, 6][rng.usize(5)];
            let ownership = rng.usize(6);
            let universe = 1usize << bits;
            let mut keep: Vec<Rc<BDDEnv<usize>>> = Vec::new();
            let mut sibling: Option<(BDDSet, BTreeSet<usize>)> = None;
            let s = match ownership {
                0 => BDDSet::new(bits),
                1 => {
                    let env = Rc::new(BDDEnv::new());
                    BDDSet::with_env(bits, &env)
                }
                2 => {
                    let env = Rc::new(BDDEnv::new());
                    let s = BDDSet::with_env(bits, &env);
                    keep.push(env);
                    s
                }
                3 => {
                    let env = Rc::new(BDDEnv::new());
                    let s = BDDSet::with_env(bits, &env);
                    keep.push(Rc::clone(&env));
                    keep.push(env);
                    s
                }
                4 => {
                    let env = Rc::new(BDDEnv::new());
                    let s = BDDSet::with_env(bits, &env);
                    let sib = BDDSet::with_env(bits, &env);
                    let e = rng.usize(universe);
                    sib.insert(e);
                    sibling = Some((sib, [e].into_iter().collect()));
                    s
                }
                _ => {
                    let env = Rc::new(BDDEnv::new());
                    let s = BDDSet::with_env(bits, &env);
                    let sib = BDDSet::with_env(bits, &env);
                    sibling = Some((sib, BTreeSet::new()));
                    keep.push(env);
                    s
                }
            };
            let mut model: BTreeSet<usize> = BTreeSet::new();
            let mut trace: Vec<String> = vec![format!("b = {}, ownership kind {}", bits, ownership)];
            let len = 3 + rng.usize(14);
            for _ in 0..len {
                match rng.usize(10) {
                    0..=3 => {
                        let e = rng.usize(universe);
                        s.insert(e);
                        model.insert(e);
                        trace.push(format!("insert({})", e));
                    }
                    4 | 5 => {
                        s.empty();
                        model.clear();
                        trace.push("empty()".into());
                    }
                    6 => {
                        s.universe();
                        model = (0..universe).collect();
                        trace.push("universe()".into());
                    }
                    7 => {
                        let e = rng.usize(universe);
                        // the environment of a lone set is private: a one-element set in the same
                        // environment is made from a clone, or through a handle the caller kept
                        let one = match keep.first() {
                            Some(env) => BDDSet::from_element(e, bits, env),
                            None => {
                                let c = s.clone();
                                c.empty();
                                c.insert(e);
                                c
                            }
                        };
                        s.union(&one);
                        model.insert(e);
                        trace.push(format!("union(one-element set {{{}}})", e));
                    }
                    8 => {
                        let c = s.clone();
                        c.empty();
                        drop(c);
                        trace.push("clone().empty(), dropped".into());
                    }
                    _ => {
                        if let Some((sib, sm)) = sibling.as_mut() {
                            if rng.chance(1, 2) {
                                sib.empty();
                                sm.clear();
                                trace.push("sibling.empty()".into());
                            } else {
                                let e = rng.usize(universe);
                                sib.insert(e);
                                sm.insert(e);
                                trace.push(format!("sibling.insert({})", e));
                            }
                        } else if !keep.is_empty() && rng.chance(1, 3) {
                            keep.pop();
                            trace.push("caller drops an environment handle".into());
                        }
                    }
                }
                for e in 0..universe {
                    if s.contains(e) != model.contains(&e) {
                        return Err(format!("after {}: contains({}) = {}, reference set {:?}", trace.join("; "), e, !model.contains(&e), model));
                    }
                    if let Some((sib, sm)) = sibling.as_ref() {
                        if sib.contains(e) != sm.contains(&e) {
                            return Err(format!("after {}: sibling.contains({}) = {}, reference set {:?}", trace.join("; "), e, !sm.contains(&e), sm));
                        }
                    }
                }
            }
            Ok((ownership, trace.join("; ")))
        });
        match r {
            Ok(Ok((o, _))) => {
                st.bump("lone_set_histories");
                st.bump(&format!("lone_set_histories_ownership_{}", o));
                st.nt.insert(mix(0x19_12, mix(seed, h)));
            }
            Ok(Err(m)) => st.violate("c19.membership", "C19:lone:wrong-membership".into(), m, case),
            Err(c) => st.violate("c19.panic", format!("C19:lone:{}", c.signature()), format!("lone-set history {} (seed {}): {:?}", h, seed, c), case),
        }
    }
}

/// VERY LONG histories on one set: a query, then exactly N modifications (N around 2^8 and 2^16 and
/// their multiples — where a narrow counter of modifications would wrap), then the same query
/// first and all the others after it. The modifications are chosen so that the answer must have
/// changed: a remembered answer is a wrong one.
fn wraparound_job(ctx: &Ctx, job: usize) -> Stats {
    let mut st = Stats::new();
    let counts: Vec<usize> = ctx.tier.pick(vec![255usize, 256, 257, 65_535, 65_536, 65_537, 131_072], vec![255, 256, 257, 511, 512, 65_535, 65_536, 65_537, 131_071, 131_072, 196_608, 262_144]);
    for (ci, n_mods) in counts.iter().enumerate() {
        for shape in 0..4usize {
            if (ci * 4 + shape) % 16 != job {
                continue;
            }
            let n_mods = *n_mods;
            let bits = [3usize, 4, 16, 4][shape];
            if bits == 16 && !(ctx.tier == crate::report::Tier::Thorough && (n_mods == 65_536 || n_mods == 65_537)) {
                continue; // (65 536 inserts into a 16-bit set take about a minute: thorough tier only)
            }
            st.evals += 1;
            let case = json!({"kind": "wraparound", "modifications": n_mods, "shape": shape});
            util::budget(u64::MAX, 1000);
            let r = guarded(move || -> Result<u64, String> {
                let env = Rc::new(BDDEnv::new());
                let s = BDDSet::with_env(bits, &env);
                let other = BDDSet::with_env(bits, &env);
                let probe = if bits == 16 { 12_345usize } else { 5 };
                let mask = (1usize << bits) - 1;
                let mut reference: std::collections::BTreeSet<usize> = std::collections::BTreeSet::new();
                // shapes 0-2 start empty and end with the probe inside; shape 3 starts full and ends without it
                if shape == 3 {
                    s.universe();
                    reference = (0..=mask).collect();
                }
                let before = s.contains(probe);
                if before != reference.contains(&probe) {
                    return Err(format!("first query: contains({}) = {}", probe, before));
                }
                for i in 0..n_mods {
                    let last = i + 1 == n_mods;
                    match shape {
                        0 | 1 => {
                            // inserts walking through the universe; the last one inserts the probe
                            let e = if last { probe } else { (i * 7 + 1) & mask };
                            s.insert(e);
                            reference.insert(e);
                        }
                        2 => {
                            let e = if last { probe } else { (i * 37 + 11) & mask };
                            if last || e != probe {
                                s.insert(e);
                                reference.insert(e);
                            } else {
                                s.union(&other);
                            }
                        }
                        _ => {
                            // universe / empty flips, ending empty
                            if (n_mods - i) % 2 == 0 {
                                s.universe();
                                reference = (0..=mask).collect();
                            } else {
                                s.empty();
                                reference.clear();
                            }
                        }
                    }
                }
                let after = s.contains(probe);
                if after != reference.contains(&probe) {
                    return Err(format!("contains({}) = {} before and {} after {} modifications; the reference says {}", probe, before, after, n_mods, reference.contains(&probe)));
                }
                let mut asked = 0u64;
                for e in (0..=mask).step_by(if bits == 16 { 257 } else { 1 }) {
                    asked += 1;
                    if s.contains(e) != reference.contains(&e) {
                        return Err(format!("after {} modifications contains({}) = {}, the reference says {}", n_mods, e, !reference.contains(&e), reference.contains(&e)));
                    }
                }
                Ok(asked)
            });
            match r {
                Ok(Ok(asked)) => {
                    st.bump("very_long_single_set_histories");
                    st.max("max_modifications_of_one_set", n_mods as u64);
                    st.add("queries_after_very_long_histories", asked);
                    st.nt.insert(mix(0x19_aa, (n_mods * 4 + shape) as u64));
                }
                Ok(Err(m)) => st.violate("c19.membership", "C19:long-history:wrong-membership".into(), format!("one {}-bit set, shape {}: {}", bits, shape, m), case),
                Err(c) => st.violate("c19.panic", format!("C19:long-history:{}", c.signature()), format!("{:?}", c), case),
            }
        }
    }
    st
}

/// Sets of DIFFERENT widths living in ONE environment (a program with a set of bytes and a set of
/// nibbles does exactly this): each set interacts only with sets of its own width, but every
/// operation of every set goes through the same environment, interleaved.
fn mixed_width_job(ctx: &Ctx, job: usize, histories: u64) -> Stats {
    use std::collections::BTreeSet;
    let mut st = Stats::new();
    let mut rng = Rng::stream(ctx.seed, "C19.mixedwidth", job as u64);
    for h in 0..histories {
        let family: &[usize] = *rng.pick(&[&[1usize, 2, 3][..], &[2, 3, 4, 5], &[3, 4], &[0, 1, 6], &[4, 64], &[2, 33, 5], &[3, 3, 4, 4]]);
        // two sets per width
        let widths: Vec<usize> = family.iter().flat_map(|b| [*b, *b]).collect();
        let len = 6 + rng.usize(40);
        let mut ops: Vec<(u64, usize, usize, u64)> = Vec::new();
        for _ in 0..len {
            ops.push((rng.below(10), rng.usize(widths.len()), rng.usize(2), rng.next()));
        }
        st.evals += 1;
        st.bump("mixed_width_histories");
        let case = json!({"kind": "mixed-width", "seed": ctx.seed, "job": job, "history": h});
        util::budget(50_000_000, 1000);
        let widths2 = widths.clone();
        let observed = guarded(move || {
            let env = Rc::new(BDDEnv::new());
            let widths = widths2;
            let mut sets: Vec<BDDSet> = widths.iter().map(|b| BDDSet::with_env(*b, &env)).collect();
            let mut refs: Vec<BTreeSet<usize>> = widths.iter().map(|_| BTreeSet::new()).collect();
            let mut seen: Vec<Vec<usize>> = widths.iter().map(|_| Vec::new()).collect(); // elements used so far, for wide sets
            let mut trace: Vec<String> = Vec::new();
            let mut queries = 0u64;
            for (kind, w, side, x) in &ops {
                let w = *w;
                let b = widths[w];
                // the partner: the other set of the same width (or the set itself)
                let o = if *side == 0 { w ^ 1 } else { w };
                let name = |i: usize| format!("S{}<{}>", i, widths[i]);
                match kind {
                    0 | 1 | 2 => {
                        let e = if b >= 64 { *x as usize } else { (*x as usize) & ((1usize << b) - 1) };
                        sets[w].insert(e);
                        refs[w].insert(e);
                        seen[w].push(e);
                        seen[w ^ 1].push(e);
                        trace.push(format!("{}.insert({:#x})", name(w), e));
                    }
                    3 => {
                        sets[w].union(&sets[o]);
                        let other = refs[o].clone();
                        refs[w].extend(other);
                        trace.push(format!("{}.union({})", name(w), name(o)));
                    }
                    4 => {
                        sets[w].intersect(&sets[o]);
                        let other = refs[o].clone();
                        refs[w].retain(|e| other.contains(e));
                        trace.push(format!("{}.intersect({})", name(w), name(o)));
                    }
                    5 => {
                        sets[w].complement(&sets[o]);
                        let other = refs[o].clone();
                        refs[w].retain(|e| !other.contains(e));
                        trace.push(format!("{}.complement({})", name(w), name(o)));
                    }
                    8 => {
                        // a set made by the other constructors replaces S[w]: a singleton ...
                        let e = if b >= 64 { *x as usize } else { (*x as usize) & ((1usize << b) - 1) };
                        sets[w] = BDDSet::from_element(e, b, &env);
                        refs[w] = [e].into_iter().collect();
                        seen[w].push(e);
                        seen[w ^ 1].push(e);
                        trace.push(format!("{} = from_element({:#x})", name(w), e));
                    }
                    9 => {
                        // ... or a set over the diagram of its partner
                        let d = sets[o].bdd.borrow().clone();
                        sets[w] = BDDSet::from_bdd(&d, b, &env);
                        refs[w] = refs[o].clone();
                        trace.push(format!("{} = from_bdd({}.bdd)", name(w), name(o)));
                    }
                    6 if b <= 6 => {
                        sets[w].universe();
                        refs[w] = (0..1usize << b).collect();
                        trace.push(format!("{}.universe()", name(w)));
                    }
                    _ => {
                        sets[w].empty();
                        refs[w].clear();
                        trace.push(format!("{}.empty()", name(w)));
                    }
                }
                // every set of every width is read back after every step
                for s in 0..widths.len() {
                    let bs = widths[s];
                    let probe: Vec<usize> = if bs <= 6 { (0..1usize << bs).collect() } else { seen[s].iter().rev().take(6).copied().chain([0usize, (x.rotate_left(17) as usize) & if bs >= 64 { usize::MAX } else { (1usize << bs) - 1 }]).collect() };
                    for e in probe {
                        queries += 1;
                        let got = sets[s].contains(e);
                        if got != refs[s].contains(&e) {
                            return Err((trace.clone(), s, bs, e, got));
                        }
                    }
                }
            }
            Ok((trace.len(), queries))
        });
        match observed {
            Ok(Ok((k, q))) => {
                st.add("mixed_width_operations", k as u64);
                st.add("mixed_width_queries", q);
                st.nt.insert(mix(widths.iter().fold(7u64, |a, b| mix(a, *b as u64)), mix(h, job as u64) ^ 0x1919));
            }
            Ok(Err((trace, s, bs, e, got))) => {
                st.violate("c19.membership", "C19:mixed-width:wrong-membership".into(), format!("sets of widths {:?} in one environment: after [{}] set S{} (b = {}) answers contains({:#x}) = {}, the reference says {}", widths, trace.join("; "), s, bs, e, got, !got), case);
            }
            Err(c) => st.violate("c19.panic", format!("C19:mixed-width:{}", c.signature()), format!("widths {:?}: {:?}", widths, c), case),
        }
    }
    st
}

/// Elements wider than a machine word: a user-defined element type (the trait is public).
#[derive(Clone, Copy, Debug, PartialEq, Eq, PartialOrd, Ord)]
pub struct Wide(pub u128);

impl rsbdd::set::BDDCategorizable for Wide {
    fn categorize(&self, c: usize) -> bool {
        // same convention as the implementation for usize: true = bit c is 0
        c >= 128 || (self.0 >> c) & 1 == 0
    }
}

fn wide_job(ctx: &Ctx, job: usize, histories: u64) -> Stats {
    use std::collections::BTreeSet;
    let mut st = Stats::new();
    let mut rng = Rng::stream(ctx.seed, "C19.wide", job as u64);
    for h in 0..histories {
        let bits = *rng.pick(&[31usize, 32, 33, 40, 48, 63, 64, 64, 65, 66, 72, 96, 127, 128]);
        // up to 64 bits the elements are usize (two histories in three) or the user-defined type
        let user_type = bits > 64 || rng.chance(1, 3);
        let mask: u128 = if bits >= 128 { u128::MAX } else { (1u128 << bits) - 1 };
        let mut pool: Vec<u128> = Vec::new();
        for _ in 0..4 {
            let x = (((rng.next() as u128) << 64) | rng.next() as u128) & mask;
            pool.push(x);
            pool.push(x ^ (1u128 << rng.below(bits as u64)));
            pool.push(x ^ (1u128 << (bits - 1)));
            if bits > 64 {
                pool.push(x ^ (1u128 << 64)); // equal modulo 2^64
                pool.push(x & (u64::MAX as u128));
            }
        }
        pool.push(0);
        pool.push(mask);
        pool.sort();
        pool.dedup();
        let len = 4 + rng.usize(20);
        let mut log: Vec<String> = Vec::new();
        st.evals += 1;
        st.bump("wide_set_histories");
        if user_type {
            st.bump("wide_set_histories_with_a_user_defined_element_type");
        }
        st.max("max_set_bits", bits as u64);
        let case = json!({"kind": "wide", "seed": ctx.seed, "job": job, "history": h});
        util::budget(50_000_000, 1000);
        let pool2 = pool.clone();
        let mut ops: Vec<(u64, usize, usize, u128)> = Vec::new();
        for _ in 0..len {
            ops.push((rng.below(5), rng.usize(2), rng.usize(2), *rng.pick(&pool)));
        }
        let ops2 = ops.clone();
        let observed = guarded(move || {
            let env = Rc::new(BDDEnv::new());
            let sets = [BDDSet::with_env(bits, &env), BDDSet::with_env(bits, &env)];
            let mut refs: [BTreeSet<u128>; 2] = [BTreeSet::new(), BTreeSet::new()];
            let mut trace: Vec<String> = Vec::new();
            for (kind, w, o, x) in &ops2 {
                match kind {
                    0 | 1 => {
                        if user_type {
                            sets[*w].insert(Wide(*x));
                        } else {
                            sets[*w].insert(*x as usize);
                        }
                        refs[*w].insert(*x);
                        trace.push(format!("{}.insert({:#x})", ["A", "B"][*w], x));
                    }
                    2 => {
                        sets[*w].union(&sets[*o]);
                        let other = refs[*o].clone();
                        refs[*w].extend(other);
                        trace.push(format!("{}.union({})", ["A", "B"][*w], ["A", "B"][*o]));
                    }
                    3 => {
                        sets[*w].intersect(&sets[*o]);
                        let other = refs[*o].clone();
                        refs[*w].retain(|e| other.contains(e));
                        trace.push(format!("{}.intersect({})", ["A", "B"][*w], ["A", "B"][*o]));
                    }
                    _ => {
                        sets[*w].complement(&sets[*o]);
                        let other = refs[*o].clone();
                        refs[*w].retain(|e| !other.contains(e));
                        trace.push(format!("{}.complement({})", ["A", "B"][*w], ["A", "B"][*o]));
                    }
                }
                // after every step: the element just touched and a few others; after the last: all
                let last = trace.len() == ops2.len();
                for s in 0..2 {
                    for (k, e) in pool2.iter().enumerate() {
                        if !last && e != x && (k + trace.len()) % 5 != 0 {
                            continue;
                        }
                        let got = if user_type { sets[s].contains(Wide(*e)) } else { sets[s].contains(*e as usize) };
                        if got != refs[s].contains(e) {
                            return Err((trace.clone(), s, *e, got));
                        }
                    }
                }
            }
            Ok(trace.len())
        });
        match observed {
            Ok(Ok(k)) => {
                st.add("wide_set_operations", k as u64);
                st.nt.insert(mix(bits as u64, mix(h, job as u64) ^ 0x19));
                log.clear();
            }
            Ok(Err((trace, s, e, got))) => {
                st.violate("c19.membership", format!("C19:wide:wrong-membership:b>={}", if bits > 32 { 33 } else { 31 }), format!("b = {}: after [{}] set {} answers contains({:#x}) = {}, the reference says {}", bits, trace.join("; "), ["A", "B"][s], e, got, !got), case);
            }
            Err(c) => st.violate("c19.panic", format!("C19:wide:{}", c.signature()), format!("b = {}: {:?}", bits, c), case),
        }
    }
    st
}

pub fn run(ctx: &Ctx) -> (Stats, Spec) {
    let mut st = Stats::new();
    st.merge(exhaustive(0));
    st.merge(exhaustive(1));
    st.merge(exhaustive(2));
    st.exhaustive.push("b = 0 (one element, the integer 0), b = 1 and b = 2: every reachable pair of reference states (16 / 256 pairs) x every next operation (insert, union/intersect/complement in all four operand combinations incl. self-aliased, empty, universe, contains for every element)".into());
    st.merge(exhaustive(3));
    literal_elements(&mut st);
    st.exhaustive.push("b = 3: all 65 536 reference state pairs x every next operation".into());
    let iters = ctx.tier.pick(300u64, 30_000u64);
    let parts = util::par_jobs(16, |job| {
        let mut s = random_job(ctx, job, iters);
        s.merge(wide_job(ctx, job, ctx.tier.pick(40u64, 600u64)));
        s.merge(mixed_width_job(ctx, job, ctx.tier.pick(60u64, 3_000u64)));
        s.merge(wraparound_job(ctx, job));
        s.merge(observed_queries_job(ctx, job, ctx.tier.pick(60u64, 2_000u64)));
        {
            let n = ctx.tier.pick(250u64, 20_000u64);
            lone_set_histories(&mut s, ctx.seed, job as u64 * n, n);
        }
        if job == 0 {
            s.merge(long_lived_env_job(ctx, ctx.tier.pick(1_400_000usize, 5_000_000usize)));
        }
        s
    });
    st.merge(crate::report::merge_all(parts));
    if ctx.tier == crate::report::Tier::Thorough {
        super::common::miri_tripwire(ctx, &mut st, 150);
    }
    let spec = Spec {
        rule: "breadth-first over reference states: two sets sharing one environment, each (state pair, next operation — insert, union, intersect, complement, empty, universe, contains, and `X = Y.clone()`) executed on fresh real sets via the shortest history reaching the state, and again (b <= 2: always, b = 3: every fourth state) after all REDUNDANT steps of that state (operations that leave the reference state unchanged); then all memberships of both sets are read twice through contains() and the public bdd field is compared across the queries; plus histories on WIDE sets (b in {31, 32, 33, 40, 48, 63, 64} with usize elements or a user-defined element type, b in {65, 66, 72, 96, 127, 128} with a user-defined 128-bit element type) over pools of sampled elements, their one-bit neighbours and (b > 64) elements equal modulo 2^64; plus histories over six to eight sets of DIFFERENT widths (families {1,2,3}, {2,3,4,5}, {3,4}, {0,1,6}, {4,64}, {2,33,5}, {3,3,4,4}; two sets per width) in one environment (sets also re-made through from_element and from_bdd), all memberships of all sets read back after every step; plus histories of exactly 255 .. 131 072 [quick] / .. 262 144 [thorough] modifications of ONE set between two identical queries (inserts through the universe, unions with an empty set, universe / empty flips); plus queries UNDER OBSERVATION (while a reader holds a shared borrow of the public diagram cell; after a query whose user-defined element panicked half-way and was caught); plus histories of a set that is (almost) ALONE in its environment (BDDSet::new; with_env with zero, one or two caller handles, with or without a sibling set; b in {1,2,3,4,6}; insert / empty / universe / union with a one-element set / clone-and-drop, all memberships after every step); plus ONE long history of two 64-bit sets in one environment that grows beyond 1.4 million [quick] / 5 million [thorough] nodes, memberships of the newest, older and never-inserted elements compared after every step; plus random histories of length 5-64 [quick] / 5-504 [thorough] with b in 2..4. distinct = (state pair before the last operation, last operation, b); non-trivial = both sets neither empty nor the universe.".into(),
        assumptions: vec![
            "only elements < 2^b are used (the statement speaks of b-bit integers)".into(),
            "`complement` is set difference, as the statement says".into(),
            "membership is read only through the public query; the bdd field is compared structurally before/after queries (encoding-independent)".into(),
        ],
        floors: vec![
            ("self_aliased_ops".into(), 100, "self-aliased operands never exercised".into()),
            ("queries_under_observation".into(), 500, "queries under a live reader / failing queries never exercised".into()),
            ("very_long_single_set_histories".into(), 20, "histories of 2^8 / 2^16 modifications of one set never exercised".into()),
            ("histories_with_redundant_steps".into(), 1_000, "redundant steps never exercised".into()),
            ("wide_set_histories".into(), 200, "wide sets (b >= 31) never exercised".into()),
            ("wide_set_histories_with_a_user_defined_element_type".into(), 50, "sets over a user-defined element type never exercised".into()),
            ("mixed_width_histories".into(), 500, "sets of different widths in one environment never exercised".into()),
            ("long_lived_environment_queries".into(), 500, "long-lived environment never exercised".into()),
            ("lone_set_histories".into(), 2_000, "sets alone in their environment never exercised".into()),
            ("queries_as_last_op".into(), 500, "queries never exercised as last operation".into()),
            ("distinct_nontrivial".into(), 1_000, "too few non-trivial cases".into()),
        ],
    };
    (st, spec)
}

pub fn replay(_ctx: &Ctx, _monitor: &str, case: &Value, st: &mut Stats) {
    if case.get("kind").and_then(|k| k.as_str()) == Some("long-env") {
        let mut c2 = _ctx.clone();
        c2.seed = case.get("seed").and_then(|j| j.as_u64()).unwrap_or(_ctx.seed);
        st.merge(long_lived_env_job(&c2, case.get("target").and_then(|j| j.as_u64()).unwrap_or(1_400_000) as usize));
        return;
    }
    if case.get("kind").and_then(|k| k.as_str()) == Some("lone") {
        let seed = case.get("seed").and_then(|j| j.as_u64()).unwrap_or(_ctx.seed);
        let h = case.get("history").and_then(|j| j.as_u64()).unwrap_or(0);
        lone_set_histories(st, seed, h, 1);
        return;
    }
    if case.get("kind").and_then(|k| k.as_str()) == Some("literals") {
        literal_elements(st);
        return;
    }
    if case.get("kind").and_then(|k| k.as_str()) == Some("wraparound") {
        for job in 0..16 {
            st.merge(wraparound_job(_ctx, job));
        }
        return;
    }
    if case.get("kind").and_then(|k| k.as_str()) == Some("mixed-width") {
        let job = case.get("job").and_then(|j| j.as_u64()).unwrap_or(0) as usize;
        let h = case.get("history").and_then(|j| j.as_u64()).unwrap_or(0);
        let mut c2 = _ctx.clone();
        c2.seed = case.get("seed").and_then(|j| j.as_u64()).unwrap_or(_ctx.seed);
        st.merge(mixed_width_job(&c2, job, h + 1));
        return;
    }
    if case.get("kind").and_then(|k| k.as_str()) == Some("wide") {
        let job = case.get("job").and_then(|j| j.as_u64()).unwrap_or(0) as usize;
        let h = case.get("history").and_then(|j| j.as_u64()).unwrap_or(0);
        let mut c2 = _ctx.clone();
        c2.seed = case.get("seed").and_then(|j| j.as_u64()).unwrap_or(_ctx.seed);
        st.merge(wide_job(&c2, job, h + 1));
        return;
    }
    let bits = case.get("bits").and_then(|b| b.as_u64()).unwrap_or(2) as usize;
    let hist: Vec<SetOp> = case.get("history").and_then(|h| h.as_array()).map(|a| a.iter().filter_map(|x| x.as_str().and_then(SetOp::parse)).collect()).unwrap_or_default();
    if !hist.is_empty() {
        run_history(st, bits, &hist, "replay");
    }
}
