//! C10 — the printed truth table is a faithful partition of the assignment space.
//!
//! Monitor: offline checker over the captured stdout of the real `rsbdd` binary: header, pairwise
//! disjoint rows, coverage, row values, filters, -v lines, channel and -b independence.

use super::clitab::*;
use crate::cli::Cell;
use crate::gen::{self, GenCfg, Style};
use crate::report::{Ctx, Spec, Stats};
use crate::tt::Tt;
use crate::util::{self, mix, Rng};
use serde_json::{json, Value};

const TRUE_SPELLINGS: [&str; 5] = ["true", "True", "t", "T", "1"];
const FALSE_SPELLINGS: [&str; 5] = ["false", "False", "f", "F", "0"];
const ANY_SPELLINGS: [&str; 5] = ["any", "Any", "a", "A", "*"];

fn vline_cells(items: &[(String, bool)], header: &[String]) -> Result<Vec<Cell>, String> {
    let mut cells = vec![Cell::False; header.len()];
    for (name, any) in items {
        let Some(i) = header.iter().position(|h| h == name) else { return Err(format!("-v line mentions `{}` which is not a free variable", name)) };
        cells[i] = if *any { Cell::Any } else { Cell::True };
    }
    Ok(cells)
}

/// run one invocation and judge it; returns the stdout when the run was judged
pub fn check_inv(ctx: &Ctx, st: &mut Stats, inv: &Inv, tag: &str) -> Option<String> {
    st.evals += 1;
    let Some(rf) = reference_for(inv) else {
        st.bump("outside_reference(skipped)");
        return None;
    };
    let Some(filter) = filter_kind(&inv.filter) else {
        st.bump("rejected_filter_spelling(not judged here)");
        return None;
    };
    let out = invoke(ctx, inv, tag);
    let case = || inv.to_json();
    if out.timed_out || out.budget_exceeded() {
        st.bump("out_of_budget(inconclusive case)");
        return None;
    }
    if !out.ok() {
        st.violate("c10.run", format!("C10:run-failed:{}", out.panic_site()), format!("{} failed ({})\n{}", inv.describe(), out.status_string(), out.stderr_str().lines().filter(|l| !l.starts_with("finished ")).take(8).collect::<Vec<_>>().join("\n")), case());
        return None;
    }
    let so = out.stdout_str();
    let parsed = match parse_stdout(&so, inv) {
        Ok(p) => p,
        Err(e) => {
            st.violate("c10.format", "C10:unparsable-output".into(), format!("{}: {}\n{}", inv.describe(), e, so), case());
            return None;
        }
    };
    if inv.r {
        // the exported order must list every variable of the text exactly once
        let mut a = parsed.exported.clone();
        a.sort();
        let mut b = rf.all.clone();
        b.sort();
        if a != b {
            st.violate("c10.export", "C10:exported-ordering".into(), format!("{}: exported ordering {:?}, the variables of the text are {:?}", inv.describe(), parsed.exported, rf.all), case());
        } else if let Some(table) = &parsed.table {
            // "the header lists the free variables in variable order": the exported list IS the variable order
            let want: Vec<String> = parsed.exported.iter().filter(|n| rf.free.contains(n)).cloned().collect();
            if table.header != want {
                st.violate("c10.table", "C10:table:header-order".into(), format!("{}: header {:?} but the free variables in (exported) variable order are {:?}", inv.describe(), table.header, want), case());
            }
        }
    }
    if let (Some(table), Some(o)) = (&parsed.table, &inv.ordering) {
        // under an ordering file the variables it lists come in the file's order (a name listed twice may count at either place)
        if let Some(listed) = super::clitab::ordering_tokens(o) {
            st.bump("headers_compared_with_an_ordering_file");
            if !super::clitab::respects_some_reading(&table.header, &listed) {
                st.violate("c10.table", "C10:table:header-order".into(), format!("{}: header {:?} does not follow the order of the ordering file, which lists {:?}", inv.describe(), table.header, listed), case());
                return None;
            }
        }
    }
    if let Some(table) = &parsed.table {
        st.bump(&format!("tables_filter_{}", filter));
        if let Err((sig, msg)) = judge_table(table, &rf, filter, inv.m) {
            st.violate("c10.table", format!("C10:table:{}", sig), format!("{}: {}\n{}", inv.describe(), msg, so), case());
            return None;
        }
        st.add("rows_checked", table.rows.len() as u64);
        if rf.free.len() >= 2 && table.rows.len() >= 3 {
            let mut h = util::hash_str(&inv.text);
            h = mix(h, util::hash_str(&format!("{:?}{:?}{}{}{}{:?}{}", inv.ordering, inv.filter, inv.v, inv.m, inv.r, inv.b, inv.channel)));
            st.nt.insert(h);
        }
    }
    if inv.v {
        st.bump("v_outputs");
        let n = rf.free.len() as u32;
        let mut seen = Tt::constant(n, false);
        let mut vcells = Vec::new();
        for items in &parsed.vlines {
            match vline_cells(items, &rf.free) {
                Ok(c) => {
                    let cover = row_cover(&c);
                    if !cover.and(&seen).is_false() {
                        st.violate("c10.vlines", "C10:-v:overlap".into(), format!("{}: -v lines overlap\n{}", inv.describe(), so), case());
                        return None;
                    }
                    if !cover.leq(&rf.table) {
                        st.violate("c10.vlines", "C10:-v:not-satisfying".into(), format!("{}: a -v line covers a falsifying assignment\n{}", inv.describe(), so), case());
                        return None;
                    }
                    seen = seen.or(&cover);
                    vcells.push(c);
                }
                Err(e) => {
                    st.violate("c10.vlines", "C10:-v:unknown-name".into(), format!("{}: {}\n{}", inv.describe(), e, so), case());
                    return None;
                }
            }
        }
        if !inv.m && seen != rf.table {
            st.violate("c10.vlines", "C10:-v:coverage".into(), format!("{}: the -v lines do not cover exactly the satisfying assignments\n{}", inv.describe(), so), case());
            return None;
        }
        if let Some(table) = &parsed.table {
            if filter != "false" {
                let mut trues: Vec<Vec<Cell>> = table.rows.iter().filter(|r| r.1).map(|r| r.0.clone()).collect();
                let key = |c: &Vec<Cell>| c.iter().map(|x| match x { Cell::True => 'T', Cell::False => 'F', Cell::Any => '*' }).collect::<String>();
                trues.sort_by_key(key);
                // compare in the column order the tool printed
                let mut vs: Vec<Vec<Cell>> = parsed.vlines.iter().filter_map(|items| vline_cells(items, &table.header).ok()).collect();
                vs.sort_by_key(key);
                if trues != vs {
                    st.violate("c10.vlines", "C10:-v:differs-from-true-rows".into(), format!("{}: -v lines are not exactly the satisfying rows\n{}", inv.describe(), so), case());
                    return None;
                }
            }
        }
    }
    if st.want_sample() && rf.free.len() >= 2 && st.evals % 53 == 7 {
        st.sample(json!({"invocation": inv.describe(), "stdout": so}));
    }
    Some(so)
}

fn gen_ordering(rng: &mut Rng, names: &[String]) -> String {
    let mut ns: Vec<String> = names.to_vec();
    rng.shuffle(&mut ns);
    match rng.below(5) {
        0 => {} // permutation
        1 => ns.truncate(1 + rng.usize(ns.len().max(1))), // subset
        2 => {
            // superset: unused names before / between / after
            ns.insert(0, "unused_first".into());
            let mid = rng.usize(ns.len() + 1);
            ns.insert(mid, "zz'".into());
            ns.push("unused_last".into());
        }
        3 => {
            // repeats
            let d = ns[rng.usize(ns.len())].clone();
            ns.push(d.clone());
            ns.insert(0, d);
        }
        _ => {
            ns.truncate(1 + rng.usize(ns.len().max(1)));
            ns.insert(rng.usize(ns.len() + 1), "extra".into());
        }
    }
    let sep = rng.pick_str(&["\n", " ", ", ", " ; ", "\r\n", " and ", " \"comment\" ", " 12 ", " # ", " => ", ",", ";", "\"c\"", "|", ")(", ", ", ",", " \"an old order:\na b c d e f\nx\" ", "\n\"\nb a\n\"\n"]);
    let mut s = ns.join(sep);
    if rng.chance(1, 3) {
        s.push('\n');
    }
    s
}

fn gen_inv(rng: &mut Rng) -> Inv {
    let pool: &[&str] = if rng.chance(1, 4) { &gen::FANCY_NAMES } else if rng.chance(1, 8) { gen::rare_pool(rng.next() as u64) } else { &gen::PLAIN_NAMES };
    let k = 1 + rng.usize(6);
    let mut names: Vec<&str> = pool.to_vec();
    rng.shuffle(&mut names);
    names.truncate(k);
    let mut cfg = GenCfg::simple(&names, 4);
    cfg.binder_weight = 12;
    cfg.max_fix_depth = 1;
    let ast = gen::gen_ast(rng, &cfg);
    let style = if rng.chance(1, 3) { Style::Fancy } else { Style::Plain };
    let text = gen::render(&ast, rng, style);
    let all_names = ast.names_in_text_order();
    let filter = match rng.below(5) {
        0 => None,
        1 => Some(rng.pick_str(&TRUE_SPELLINGS).to_string()),
        2 => Some(rng.pick_str(&FALSE_SPELLINGS).to_string()),
        3 => Some(rng.pick_str(&ANY_SPELLINGS).to_string()),
        _ => Some(rng.pick_str(&["t", "f"]).to_string()),
    };
    let ordering = if !all_names.is_empty() && rng.chance(2, 5) { Some(gen_ordering(rng, &all_names)) } else { None };
    let mode = rng.below(10);
    Inv {
        text,
        channel: rng.below(9) as u8,
        ordering,
        filter,
        t: mode != 1,
        v: mode == 1 || mode == 2 || mode == 3,
        m: mode == 4 || mode == 3,
        b: if mode == 5 { Some(1 + rng.below(3) as u32) } else { None },
        r: mode == 6 || mode == 2,
    }
}

fn job(ctx: &Ctx, job: usize, iters: u64) -> Stats {
    let mut st = Stats::new();
    let mut rng = Rng::stream(ctx.seed, "C10.cli", job as u64);
    for i in 0..iters {
        let inv = gen_inv(&mut rng);
        let tag = format!("{}-{}", job, i);
        let Some(base) = check_inv(ctx, &mut st, &inv, &tag) else { continue };
        // the same formula through the other channels and with -b N: identical stdout
        if i % 3 == 0 {
            for ch in 0..9u8 {
                if ch == inv.channel {
                    continue;
                }
                // texts with a NUL or leading/trailing whitespace differences cannot differ by channel: the text is passed verbatim
                let mut other = inv.clone();
                other.channel = ch;
                st.evals += 1;
                st.bump("channel_comparisons");
                let out = invoke(ctx, &other, &format!("{}-ch{}", tag, ch));
                if out.timed_out || out.budget_exceeded() {
                    continue;
                }
                if out.stdout_str() != base {
                    st.violate("c10.channels", "C10:channel-dependent-output".into(), format!("{} prints something else via channel {}:\n--- first\n{}\n--- second ({})\n{}", inv.describe(), ch, base, out.status_string(), out.stdout_str()), other.to_json());
                }
            }
        }
        if i % 4 == 1 && inv.b.is_none() {
            for b in [1u32, 2] {
                let mut other = inv.clone();
                other.b = Some(b);
                st.evals += 1;
                st.bump("benchmark_comparisons");
                let out = invoke(ctx, &other, &format!("{}-b{}", tag, b));
                if out.timed_out || out.budget_exceeded() {
                    continue;
                }
                if out.stdout_str() != base {
                    st.violate("c10.benchmark", "C10:-b-dependent-output".into(), format!("{} prints something else with -b {}:\n--- without\n{}\n--- with ({})\n{}", inv.describe(), b, base, out.status_string(), out.stdout_str()), other.to_json());
                }
            }
        }
    }
    st
}

fn pow2(k: u32) -> u128 {
    if k >= 128 { 0 } else { 1u128 << k }
}

/// Tables with MANY columns (60..130 free variables, linear diagrams): too wide for truth tables, so
/// every printed row is judged by three-valued evaluation of the formula under the row's partial
/// assignment (definitely the printed value), rows are compared pairwise for disjointness, and the
/// number of covered assignments (sum of 2^#Any, modulo 2^128) is compared with the known count.
fn wide_case(ctx: &Ctx, st: &mut Stats, n: usize, shape: &str, filter: Option<&str>, channel: u8, with_v: bool) {
    use crate::cli::Cell;
    let names: Vec<String> = (0..n).map(|i| format!("x{:03}", i)).collect();
    let (text, true_count): (String, u128) = match shape {
        "or" => (names.join(" | "), pow2(n as u32).wrapping_sub(1)),
        "and" => (names.join(" & "), 1),
        // x0 => (x1 => (... => x_last)) : false only when all but the last are true and the last is false
        _ => (names.join(" => "), pow2(n as u32).wrapping_sub(1)),
    };
    // (all counts are kept modulo 2^128: equal counts stay equal, and tables have up to 129 columns)
    let total: u128 = pow2(n as u32);
    let inv = Inv { text: text.clone(), channel, filter: filter.map(|s| s.to_string()), t: true, v: with_v, ..Default::default() };
    st.evals += 1;
    st.bump("wide_tables");
    let out = invoke(ctx, &inv, &format!("wide-{}-{}-{}-{}", n, shape, filter.unwrap_or("none"), channel));
    let case = || json!({"kind": "wide", "n": n, "shape": shape, "filter": filter, "channel": channel, "v": with_v});
    if out.timed_out || out.budget_exceeded() {
        st.bump("out_of_budget(inconclusive case)");
        return;
    }
    let desc = format!("rsbdd `{} .. {}` ({} variables, shape {}){}{}", names[0], names[n - 1], n, shape, filter.map(|f| format!(" -f {}", f)).unwrap_or_default(), if with_v { " -t -v" } else { " -t" });
    if !out.ok() {
        st.violate("c10.run", format!("C10:run-failed:{}", out.panic_site()), format!("{} failed: {}\n{}", desc, out.status_string(), out.stderr_str().lines().filter(|l| !l.starts_with("finished ")).take(5).collect::<Vec<_>>().join("\n")), case());
        return;
    }
    let so = out.stdout_str();
    let parsed = match parse_stdout(&so, &inv) {
        Ok(p) => p,
        Err(e) => {
            st.violate("c10.format", "C10:unparsable-output".into(), format!("{}: {}", desc, e), case());
            return;
        }
    };
    let table = parsed.table.unwrap();
    let mut sorted = table.header.clone();
    sorted.sort();
    if sorted != names {
        st.violate("c10.table", "C10:table:header".into(), format!("{}: the header does not list exactly the {} free variables", desc, n), case());
        return;
    }
    let Ok(ast) = crate::refsyn::parse_text(&text) else { return };
    let Ok(prob) = crate::solve3::compile(&ast) else { return };
    let col: Vec<usize> = table.header.iter().map(|h| prob.index[h]).collect();
    let fk = filter_kind(&inv.filter).unwrap_or("any");
    let mut covered: u128 = 0;
    for (k, (cells, res)) in table.rows.iter().enumerate() {
        let mut asg: Vec<(usize, bool)> = Vec::new();
        let mut anys = 0u32;
        for (i, c) in cells.iter().enumerate() {
            match c {
                Cell::True => asg.push((col[i], true)),
                Cell::False => asg.push((col[i], false)),
                Cell::Any => anys += 1,
            }
        }
        if crate::solve3::probe(&prob, &asg, true) != Some(*res) {
            st.violate("c10.table", "C10:table:row-value".into(), format!("{}: row {} says {} but the formula is not definitely {} on the assignments the row covers\n{}", desc, k + 1, res, res, so.lines().nth(k + 2).unwrap_or("")), case());
            return;
        }
        if (fk == "true" && !*res) || (fk == "false" && *res) {
            st.violate("c10.table", "C10:table:filter".into(), format!("{}: row {} contradicts the filter", desc, k + 1), case());
            return;
        }
        covered = covered.wrapping_add(pow2(anys));
        for (cells2, _) in table.rows.iter().take(k) {
            let disjoint = cells.iter().zip(cells2.iter()).any(|(a, b)| (*a == Cell::True && *b == Cell::False) || (*a == Cell::False && *b == Cell::True));
            if !disjoint {
                st.violate("c10.table", "C10:table:rows-overlap".into(), format!("{}: row {} overlaps an earlier row", desc, k + 1), case());
                return;
            }
        }
    }
    let want = match fk {
        "true" => true_count,
        "false" => total.wrapping_sub(true_count),
        _ => total,
    };
    if covered != want {
        st.violate("c10.table", "C10:table:coverage".into(), format!("{}: the rows cover {} assignments, expected {} (filter {})", desc, covered, want, fk), case());
        return;
    }
    if with_v {
        let sat_lines: u128 = parsed.vlines.iter().fold(0u128, |acc, items| acc.wrapping_add(pow2(items.iter().filter(|x| x.1).count() as u32)));
        if sat_lines != true_count {
            st.violate("c10.vlines", "C10:-v:coverage".into(), format!("{}: the -v lines cover {} assignments, the formula has {} satisfying ones", desc, sat_lines, true_count), case());
            return;
        }
    }
    st.add("rows_checked", table.rows.len() as u64);
    st.add("wide_table_columns", n as u64);
    st.nt.insert(mix(util::hash_str(shape), mix(n as u64, util::hash_str(fk) ^ channel as u64)));
}

/// MANY ROWS: the parity of n variables has 2^n rows without a single `Any` (more than 65 535 of
/// them for n >= 17). Every row is a total assignment: its value must be the parity, no assignment
/// may appear twice, and the number of rows is 2^n (2^(n-1) under a filter).
fn many_rows_case(ctx: &Ctx, st: &mut Stats, n: usize, filter: Option<&str>, with_v: bool, channel: u8) {
    use crate::cli::Cell;
    let names: Vec<String> = (0..n).map(|i| format!("p{:02}", i)).collect();
    let text = names.join(" ^ ");
    let inv = Inv { text, channel, filter: filter.map(|s| s.to_string()), t: true, v: with_v, ..Default::default() };
    st.evals += 1;
    st.bump("many_row_tables");
    let out = invoke(ctx, &inv, &format!("rows-{}-{}-{}", n, filter.unwrap_or("none"), channel));
    let case = || json!({"kind": "many-rows", "n": n, "filter": filter, "v": with_v, "channel": channel});
    if out.timed_out || out.budget_exceeded() {
        st.bump("out_of_budget(inconclusive case)");
        return;
    }
    let desc = format!("rsbdd `p00 ^ .. ^ p{:02}`{}{}", n - 1, filter.map(|f| format!(" -f {}", f)).unwrap_or_default(), if with_v { " -t -v" } else { " -t" });
    if !out.ok() {
        st.violate("c10.run", format!("C10:run-failed:{}", out.panic_site()), format!("{} failed: {}", desc, out.status_string()), case());
        return;
    }
    let so = out.stdout_str();
    let parsed = match parse_stdout(&so, &inv) {
        Ok(p) => p,
        Err(e) => {
            st.violate("c10.format", "C10:unparsable-output".into(), format!("{}: {}", desc, e), case());
            return;
        }
    };
    let table = parsed.table.unwrap();
    let mut sorted = table.header.clone();
    sorted.sort();
    if sorted != names {
        st.violate("c10.table", "C10:table:header".into(), format!("{}: the header does not list exactly the {} variables", desc, n), case());
        return;
    }
    let fk = filter_kind(&inv.filter).unwrap_or("any");
    let mut seen = vec![false; 1usize << n];
    for (k, (cells, res)) in table.rows.iter().enumerate() {
        let mut idx = 0usize;
        let mut ones = 0u32;
        for (i, c) in cells.iter().enumerate() {
            match c {
                Cell::True => {
                    idx |= 1 << i;
                    ones += 1;
                }
                Cell::False => {}
                Cell::Any => {
                    st.violate("c10.table", "C10:table:row-value".into(), format!("{}: row {} leaves a variable open, but a parity depends on every variable", desc, k + 1), case());
                    return;
                }
            }
        }
        if (ones % 2 == 1) != *res {
            st.violate("c10.table", "C10:table:row-value".into(), format!("{}: row {} says {} for an assignment with {} true variables", desc, k + 1, res, ones), case());
            return;
        }
        if (fk == "true" && !*res) || (fk == "false" && *res) {
            st.violate("c10.table", "C10:table:filter".into(), format!("{}: row {} contradicts the filter", desc, k + 1), case());
            return;
        }
        if seen[idx] {
            st.violate("c10.table", "C10:table:rows-overlap".into(), format!("{}: row {} repeats an earlier row", desc, k + 1), case());
            return;
        }
        seen[idx] = true;
    }
    let want = if fk == "any" { 1usize << n } else { 1usize << (n - 1) };
    if table.rows.len() != want {
        st.violate("c10.table", "C10:table:coverage".into(), format!("{}: {} rows, expected {} (filter {})", desc, table.rows.len(), want, fk), case());
        return;
    }
    if with_v {
        let lines = parsed.vlines.len();
        let open: usize = parsed.vlines.iter().map(|items| items.iter().filter(|x| x.1).count()).sum();
        if lines != 1usize << (n - 1) || open != 0 {
            st.violate("c10.vlines", "C10:-v:coverage".into(), format!("{}: {} -v lines ({} open entries), the formula has {} satisfying assignments, all total", desc, lines, open, 1usize << (n - 1)), case());
            return;
        }
    }
    st.add("rows_checked", table.rows.len() as u64);
    st.max("max_rows_in_one_table", table.rows.len() as u64);
    st.nt.insert(mix(0x7075, mix(n as u64, util::hash_str(fk) ^ with_v as u64)));
}

pub fn run(ctx: &Ctx) -> (Stats, Spec) {
    let iters = ctx.tier.pick(500u64, 8_000u64);
    let parts = util::par_jobs(16, |j| job(ctx, j, iters));
    let mut st = crate::report::merge_all(parts);
    // wide tables: 60..130 columns
    let widths: Vec<usize> = ctx.tier.pick(vec![31, 32, 33, 63, 64, 65, 66, 100], vec![31, 32, 33, 63, 64, 65, 66, 67, 70, 96, 100, 127, 128, 129]);
    let mut wide: Vec<(usize, &str, Option<&str>, u8, bool)> = Vec::new();
    for (i, n) in widths.iter().enumerate() {
        for (j, shape) in ["or", "and", "implies"].iter().enumerate() {
            let f = [None, Some("t"), Some("f")][(i + j) % 3];
            wide.push((*n, shape, f, ((i + j) % 3) as u8, (i + j) % 2 == 0));
        }
    }
    let parts = util::par_jobs(wide.len(), |j| {
        let mut s = Stats::new();
        let (n, shape, f, ch, v) = wide[j];
        wide_case(ctx, &mut s, n, shape, f, ch, v);
        s
    });
    st.merge(crate::report::merge_all(parts));
    // tables with more rows than a 16-bit counter holds
    let many: Vec<(usize, Option<&str>, bool, u8)> = ctx.tier.pick(vec![(17, None, false, 0), (17, Some("t"), true, 2), (16, Some("f"), false, 1)], vec![(17, None, true, 0), (17, Some("t"), true, 2), (17, Some("f"), false, 1), (18, None, false, 1), (18, Some("true"), true, 0), (16, None, true, 5)]);
    let parts = util::par_jobs(many.len(), |j| {
        let mut s = Stats::new();
        let (n, f, v, ch) = many[j];
        many_rows_case(ctx, &mut s, n, f, v, ch);
        s
    });
    st.merge(crate::report::merge_all(parts));
    // fixed probes: every accepted filter spelling, 0 free variables, long and non-ASCII names, superset orderings
    let mut k = 0;
    for f in TRUE_SPELLINGS.iter().chain(FALSE_SPELLINGS.iter()).chain(ANY_SPELLINGS.iter()) {
        for text in ["(a | b) & -c", "true", "exists a # a & b", "a_rather_long_variable_name ^ é"] {
            k += 1;
            let inv = Inv { text: text.into(), filter: Some(f.to_string()), t: true, v: k % 2 == 0, ..Default::default() };
            check_inv(ctx, &mut st, &inv, &format!("fixed-{}", k));
            st.bump("filter_spellings_probed");
        }
    }
    for (text, ord) in [("a & b", "x a b"), ("a & b", "b zz a"), ("(a ^ b) | c", "c\nq\nb"), ("a & b", "b b a a"), ("exists a # a & b & c", "a c b"), ("a | b", "\"only a comment\"")] {
        k += 1;
        let inv = Inv { text: text.into(), ordering: Some(ord.into()), t: true, v: true, r: true, ..Default::default() };
        check_inv(ctx, &mut st, &inv, &format!("fixed-{}", k));
    }
    // fixed points that take many rounds without being monotone (function-space counters, see c01.rs)
    for (n, pattern) in [(2usize, 15usize), (2, 9), (2, 6), (3, 37), (3, 200)] {
        for gfp in [false, true] {
            k += 1;
            let inv = Inv { text: super::c01::counter_text(n, pattern, gfp), t: true, v: true, channel: (k % 9) as u8, ..Default::default() };
            if check_inv(ctx, &mut st, &inv, &format!("counter-{}", k)).is_some() {
                st.bump("function_space_counters");
            }
        }
    }
    // every name length from 1 to 130 bytes: the full table judgement (padding and column widths depend on it)
    for len in 1..=130usize {
        k += 1;
        let name = if len % 3 == 2 && len % 2 == 0 { "é".repeat(len / 2) } else { "w".repeat(len) };
        let inv = Inv { text: format!("({} | o) & (p | -{})", name, name), t: true, v: len % 2 == 0, filter: [None, Some("t".to_string()), Some("f".to_string())][len % 3].clone(), ..Default::default() };
        check_inv(ctx, &mut st, &inv, &format!("namelen-{}", k));
        st.bump("name_lengths_swept");
    }
    // texts that begin AND end with a prime (part of a name, not a quotation mark)
    for text in ["'a & a'", "'x'", "'p | -q'", "'q", "b'", "'a' & 'b'", "''"] {
        for ch in 0..9u8 {
            k += 1;
            let inv = Inv { text: text.into(), t: true, v: true, channel: ch, ..Default::default() };
            check_inv(ctx, &mut st, &inv, &format!("primes-{}", k));
        }
    }
    // long outputs (tens of KiB: more than any output buffer), with the table and the -v listing
    // in one run — parity and threshold functions of 8-10 variables have 2^n or many rows
    for n in ctx.tier.pick(vec![8usize, 9], vec![8, 9, 10, 11]) {
        let names: Vec<String> = (0..n).map(|i| format!("p{}", i)).collect();
        for (j, text) in [names.join(" ^ "), format!("[{}] >= {}", names.join(", "), n / 2), format!("({}) <=> ({})", names[..n / 2].join(" ^ "), names[n / 2..].join(" ^ "))].iter().enumerate() {
            for (f, v) in [(None, true), (Some("t"), true), (Some("f"), true), (None, false)] {
                k += 1;
                let inv = Inv { text: text.clone(), filter: f.map(|s: &str| s.to_string()), t: true, v, channel: ((k + j) % 6) as u8, ..Default::default() };
                check_inv(ctx, &mut st, &inv, &format!("long-{}", k));
                st.bump("long_outputs");
            }
        }
    }
    // ordering files larger than any I/O buffer: the names come after ~20 KiB of comments / blank lines
    for (i, pad) in [format!("\"{}\"\n", "o".repeat(20_000)), "\n".repeat(12_000), "\"c\" ; \n".repeat(2_500)].iter().enumerate() {
        for ch in [i as u8, i as u8 + 3] {
            k += 1;
            let inv = Inv { text: "(a ^ b) | (c & -d)".into(), ordering: Some(format!("d {} c\n{}b a", pad, pad)), t: true, r: true, channel: ch, ..Default::default() };
            check_inv(ctx, &mut st, &inv, &format!("bigord-{}", k));
            st.bump("large_ordering_files");
        }
    }
    let spec = Spec {
        rule: "random formulas (<= 6 names, plain and non-ASCII / primed / long names, 0..6 free variables) x filter in every accepted spelling or absent x channel (nine: stdin as a terminal on which the text is typed, --evaluate, regular file, a regular file named `-`, a regular file on stdin of which an earlier reader consumed the first line, stdin at once / in small pieces, a named pipe or /dev/stdin as the file; the ordering file through a named pipe too; long outputs of 8-11-variable parity / threshold functions with -t and -v in one run; --evaluate, file, stdin) x ordering file (absent, permutation, subset, superset with unused names, repeats, separators incl. keywords / comments / numbers) x {-t, -v, -t -v, -m, -b N, -r}; tables of 16-18-variable parities with 65 536 - 262 144 rows (each row a total assignment: value, uniqueness, count, -v lines); tables with 31..130 columns (or / and / implication chains; rows judged by three-valued evaluation, pairwise disjointness and an exact 128-bit count of covered assignments); every third case is re-run through the other two channels and every fourth with -b 1 and -b 2 (stdout must be identical). distinct = (formula, option set); non-trivial = >= 2 free variables and >= 3 printed rows.".into(),
        assumptions: vec![
            "with -m the printed diagram is a model: rows must partition and true rows must satisfy the formula (their number is C07's subject)".into(),
            "rejected filter spellings and inputs outside the reference's evaluable range are not judged here (C12)".into(),
        ],
        floors: vec![
            ("tables_filter_any".into(), 200, "filter Any hardly exercised".into()),
            ("tables_filter_true".into(), 100, "filter True hardly exercised".into()),
            ("tables_filter_false".into(), 100, "filter False hardly exercised".into()),
            ("v_outputs".into(), 100, "-v hardly exercised".into()),
            ("channel_comparisons".into(), 100, "channels not compared".into()),
            ("long_outputs".into(), 10, "outputs beyond one buffer not exercised".into()),
            ("benchmark_comparisons".into(), 50, "-b not compared".into()),
            ("max_rows_in_one_table".into(), 100_000, "tables with more than 65 535 rows not exercised".into()),
            ("rows_checked".into(), 3_000, "too few rows".into()),
            ("wide_tables".into(), 20, "tables with many columns not exercised".into()),
            ("distinct_nontrivial".into(), 300, "too few non-trivial invocations".into()),
        ],
    };
    (st, spec)
}

pub fn replay(ctx: &Ctx, _monitor: &str, case: &Value, st: &mut Stats) {
    if case.get("kind").and_then(|k| k.as_str()) == Some("wide") {
        let n = case.get("n").and_then(|x| x.as_u64()).unwrap_or(65) as usize;
        let shape = case.get("shape").and_then(|x| x.as_str()).unwrap_or("or").to_string();
        let filter = case.get("filter").and_then(|x| x.as_str()).map(|s| s.to_string());
        let ch = case.get("channel").and_then(|x| x.as_u64()).unwrap_or(0) as u8;
        let v = case.get("v").and_then(|x| x.as_bool()).unwrap_or(false);
        wide_case(ctx, st, n, &shape, filter.as_deref(), ch, v);
        return;
    }
    if case.get("kind").and_then(|k| k.as_str()) == Some("many-rows") {
        let n = case.get("n").and_then(|x| x.as_u64()).unwrap_or(17) as usize;
        let filter = case.get("filter").and_then(|x| x.as_str()).map(|s| s.to_string());
        let ch = case.get("channel").and_then(|x| x.as_u64()).unwrap_or(0) as u8;
        let v = case.get("v").and_then(|x| x.as_bool()).unwrap_or(false);
        many_rows_case(ctx, st, n, filter.as_deref(), v, ch);
        return;
    }
    let inv = Inv::from_json(case);
    let base = check_inv(ctx, st, &inv, "replay");
    if let Some(base) = base {
        for ch in 0..3u8 {
            let mut o = inv.clone();
            o.channel = ch;
            o.b = None;
            let out = invoke(ctx, &o, &format!("replay-ch{}", ch));
            let mut o2 = inv.clone();
            o2.b = None;
            let ref_out = if inv.b.is_some() { invoke(ctx, &o2, "replay-nob").stdout_str() } else { base.clone() };
            if out.ok() && out.stdout_str() != ref_out {
                st.violate("c10.channels", "C10:channel-dependent-output".into(), format!("channel {} differs", ch), o.to_json());
            }
        }
        if inv.b.is_some() {
            let mut o = inv.clone();
            o.b = None;
            let out = invoke(ctx, &o, "replay-nob2");
            if out.ok() && out.stdout_str() != base {
                st.violate("c10.benchmark", "C10:-b-dependent-output".into(), "differs with -b".into(), inv.to_json());
            }
        }
    }
}
