//! C18 — random_graph_gen outputs the graph that was asked for.
//!
//! Monitor: offline checker over the real generator's output for every small request, each
//! repeated (every run is a fresh random sample); infeasible requests must be refused; --convert
//! and --colors against brute-force oracles.

use crate::cli;
use crate::puzzles;
use crate::report::{Ctx, Spec, Stats};
use crate::util::{self, mix, Rng};
use serde_json::{json, Value};
use std::collections::{BTreeSet, HashSet};
use std::time::Duration;

fn parse_output(text: &str, dot: bool, undirected: bool) -> Result<Vec<(String, String)>, String> {
    let mut edges = Vec::new();
    if dot {
        let lines: Vec<&str> = text.lines().collect();
        let head = if undirected { "graph G {" } else { "digraph G {" };
        if lines.first().copied() != Some(head) {
            return Err(format!("first line {:?}, expected {:?}", lines.first(), head));
        }
        if lines.last().copied() != Some("}") {
            return Err("missing closing brace".into());
        }
        let sep = if undirected { " -- " } else { " -> " };
        for l in &lines[1..lines.len() - 1] {
            let (a, b) = l.trim().split_once(sep).ok_or_else(|| format!("bad edge line {:?}", l))?;
            edges.push((a.to_string(), b.to_string()));
        }
    } else {
        // (records end with \n; a \r is part of the vertex name it sticks to)
        for l in text.split('\n').filter(|l| !l.is_empty()) {
            let (a, b) = l.split_once(',').ok_or_else(|| format!("bad edge line {:?}", l))?;
            if b.contains(',') {
                return Err(format!("bad edge line {:?}", l));
            }
            edges.push((a.to_string(), b.to_string()));
        }
    }
    Ok(edges)
}

#[derive(Debug, Clone)]
struct Req {
    v: Option<usize>,
    e: Option<usize>,
    undirected: bool,
    complete: bool,
    dot: bool,
    to_file: bool,
}

fn req_json(r: &Req) -> Value {
    json!({"kind": "generate", "v": r.v, "e": r.e, "undirected": r.undirected, "complete": r.complete, "dot": r.dot, "to_file": r.to_file})
}

fn run_req(ctx: &Ctx, r: &Req, tag: &str) -> (cli::RunOut, String) {
    let dir = ctx.fresh_dir(&format!("c18-{}", tag));
    let _ = std::fs::create_dir_all(&dir);
    let mut args: Vec<String> = Vec::new();
    if let Some(v) = r.v {
        args.push(v.to_string());
    }
    if let Some(e) = r.e {
        args.push(e.to_string());
    }
    if r.undirected {
        args.push("-u".into());
    }
    if r.complete {
        args.push("--complete".into());
    }
    if r.dot {
        args.push("--dot".into());
    }
    let f = super::common::spelled_output(&dir, r.v.unwrap_or(0) * 3 + r.e.unwrap_or(0), &super::common::hostile_file_name(r.v.unwrap_or(0) + r.e.unwrap_or(0), "out.txt"));
    if r.to_file {
        // the output file already exists and is longer than what will be written (feasible requests only:
        // an infeasible request must not write anything, which is checked on a fresh path)
        let feasible = match (r.v, r.e, r.complete) {
            (Some(_), _, true) => true,
            (Some(v), Some(e), false) => e <= if r.undirected { v * v.saturating_sub(1) / 2 } else { v * v.saturating_sub(1) },
            _ => false,
        };
        if feasible && (r.v.unwrap_or(0) + r.e.unwrap_or(0)) % 2 == 0 {
            let _ = std::fs::write(&f, super::common::stale_content());
        } else if feasible {
            // ... or is what an EARLIER run of the tool wrote there for a larger request
            let first = vec![(r.v.unwrap_or(0) + 3).to_string(), "--complete".to_string(), "-o".to_string(), f.display().to_string()];
            let _ = cli::run(&ctx.bin("random_graph_gen"), &first, None, Some(&dir), None, Duration::from_secs(60));
        }
        args.push("-o".into());
        args.push(f.display().to_string());
    } else if (r.v.unwrap_or(0) + r.e.unwrap_or(0)) % 3 == 1 {
        // -o may also name the process's own standard output
        args.push("-o".into());
        args.push("/dev/stdout".into());
    }
    let feed = cli::Feed { stdout_tty: !r.to_file && (r.v.unwrap_or(0) + r.e.unwrap_or(0)) % 3 == 2, ..Default::default() };
    let out = cli::run_fed(&ctx.bin("random_graph_gen"), &args, None, &feed, Some(&dir), None, Duration::from_secs(60));
    let text = if r.to_file { std::fs::read_to_string(&f).unwrap_or_default() } else { out.stdout_str() };
    let _ = std::fs::remove_dir_all(&dir);
    (out, text)
}

fn check_req(ctx: &Ctx, st: &mut Stats, r: &Req, tag: &str, seen_outputs: &mut HashSet<u64>) {
    st.evals += 1;
    let (out, full_text) = run_req(ctx, r, tag);
    // (messages quote at most the first 4 KiB of an output)
    let text: String = if full_text.len() > 4096 { format!("{} ... [{} bytes]", full_text.chars().take(4096).collect::<String>(), full_text.len()) } else { full_text.clone() };
    let case = || req_json(r);
    let desc = format!("random_graph_gen {:?}", r);
    if out.timed_out {
        st.bump("watchdog(inconclusive case)");
        return;
    }
    if out.crashed() {
        st.violate("c18.run", format!("C18:crash:{}", out.panic_site()), format!("{}: {}\n{}", desc, out.status_string(), out.stderr_str()), case());
        return;
    }
    let feasible = match (r.v, r.e, r.complete) {
        (Some(v), _, true) => Some((v, if r.undirected { v * v.saturating_sub(1) / 2 } else { v * v.saturating_sub(1) })),
        (Some(v), Some(e), false) => {
            let max = if r.undirected { v * v.saturating_sub(1) / 2 } else { v * v.saturating_sub(1) };
            if e <= max {
                Some((v, e))
            } else {
                None
            }
        }
        _ => None,
    };
    match feasible {
        None => {
            st.bump("infeasible_or_incomplete_requests");
            if out.ok() {
                st.violate("c18.refuse", "C18:infeasible-request-answered".into(), format!("{}: exit 0 with output {:?}", desc, text), case());
            } else if !text.trim().is_empty() {
                st.violate("c18.refuse", "C18:infeasible-request-partial-output".into(), format!("{}: refused ({}) but wrote {:?}", desc, out.status_string(), text), case());
            }
        }
        Some((v, e)) => {
            if !out.ok() {
                st.violate("c18.run", "C18:feasible-request-refused".into(), format!("{}: {} {}", desc, out.status_string(), out.stderr_str()), case());
                return;
            }
            let edges = match parse_output(&full_text, r.dot, r.undirected) {
                Ok(e) => e,
                Err(m) => {
                    st.violate("c18.format", "C18:unparsable-output".into(), format!("{}: {}\n{}", desc, m, text), case());
                    return;
                }
            };
            if edges.len() != e {
                st.violate("c18.count", "C18:wrong-number-of-edges".into(), format!("{}: {} edges, asked for {}\n{}", desc, edges.len(), e, text), case());
                return;
            }
            let known = |s: &String| s.strip_prefix('v').and_then(|d| d.parse::<usize>().ok()).map_or(false, |i| i < v && format!("v{}", i) == *s);
            let mut set: BTreeSet<(String, String)> = BTreeSet::new();
            for (a, b) in &edges {
                if !known(a) || !known(b) {
                    st.violate("c18.vertices", "C18:unknown-vertex".into(), format!("{}: edge {},{} uses a vertex outside v0..v{}", desc, a, b, v.saturating_sub(1)), case());
                    return;
                }
                if a == b {
                    st.violate("c18.vertices", "C18:self-loop".into(), format!("{}: self-loop {},{}", desc, a, b), case());
                    return;
                }
                let key = if r.undirected && a > b { (b.clone(), a.clone()) } else { (a.clone(), b.clone()) };
                if !set.insert(key) {
                    st.violate("c18.distinct", "C18:duplicate-edge".into(), format!("{}: edge {},{} occurs twice{}\n{}", desc, a, b, if r.undirected { " (counting both orientations)" } else { "" }, text), case());
                    return;
                }
            }
            let max = if r.undirected { v * v.saturating_sub(1) / 2 } else { v * v.saturating_sub(1) };
            let h = mix(util::hash_str(&format!("{:?}", (r.v, r.e, r.undirected, r.complete, r.dot))), util::hash_str(&full_text));
            if seen_outputs.insert(h) {
                st.bump("distinct_outputs");
                if e > 0 && e < max {
                    st.nt.insert(h);
                }
            }
            st.bump("feasible_requests_checked");
            if r.complete {
                st.bump("complete_requests");
            }
            if st.want_sample() && e >= 2 && e < max && st.evals % 41 == 3 {
                st.sample(json!({"request": format!("{:?}", r), "output": text}));
            }
        }
    }
}

fn gen_job(ctx: &Ctx, job: usize, jobs: usize, reps: usize) -> Stats {
    let mut st = Stats::new();
    let mut seen = HashSet::new();
    let mut k = 0usize;
    for v in 0..=6usize {
        for undirected in [false, true] {
            let max = if undirected { v * v.saturating_sub(1) / 2 } else { v * v.saturating_sub(1) };
            for e in 0..=(max + 2) {
                for dot in [false, true] {
                    for to_file in [false, true] {
                        k += 1;
                        if k % jobs != job {
                            continue;
                        }
                        let r = Req { v: Some(v), e: Some(e), undirected, complete: false, dot, to_file };
                        let n = if e <= max { reps } else { 1 };
                        for rep in 0..n {
                            check_req(ctx, &mut st, &r, &format!("{}-{}-{}", job, k, rep), &mut seen);
                        }
                    }
                }
            }
            for dot in [false, true] {
                k += 1;
                if k % jobs != job {
                    continue;
                }
                for e in [None, Some(0), Some(1000)] {
                    let r = Req { v: Some(v), e, undirected, complete: true, dot, to_file: false };
                    check_req(ctx, &mut st, &r, &format!("{}-{}-c", job, k), &mut seen);
                }
            }
        }
    }
    // larger vertex counts (two-digit vertex names): boundary edge counts only
    for v in [11usize, 17, 40] {
        for undirected in [false, true] {
            let max = if undirected { v * (v - 1) / 2 } else { v * (v - 1) };
            for e in [0usize, 1, v, max / 2, max - 1, max, max + 1] {
                k += 1;
                if k % jobs != job {
                    continue;
                }
                let r = Req { v: Some(v), e: Some(e), undirected, complete: false, dot: k % 2 == 0, to_file: k % 3 == 0 };
                check_req(ctx, &mut st, &r, &format!("{}-big-{}", job, k), &mut seen);
                st.bump("larger_vertex_count_requests");
            }
        }
    }
    // LARGE requests (hundreds to thousands of vertices; sparse, dense and complete): the same
    // judgement — exactly E distinct edges over v0..v(V-1), no loop, one orientation under -u
    let large: Vec<(usize, Option<usize>, bool, bool)> = if reps >= 60 {
        vec![(600, Some(11_000), true, false), (363, Some(3_000), true, false), (400, Some(5_000), false, false), (1000, Some(20_000), true, false), (700, None, true, true), (2000, Some(100_000), true, false), (1500, Some(100_000), false, false), (2000, Some(1_999_000), true, false), (1200, Some(3), true, false), (365, Some(66_430), true, false), (300, None, false, true), (5000, Some(40_000), true, false)]
    } else {
        vec![(600, Some(11_000), true, false), (363, Some(3_000), true, false), (400, Some(5_000), false, false), (1000, Some(20_000), true, false), (500, None, true, true), (257, Some(65_792), false, false)]
    };
    for (li, (v, e, undirected, complete)) in large.iter().enumerate() {
        k += 1;
        if k % jobs != job {
            continue;
        }
        let r = Req { v: Some(*v), e: *e, undirected: *undirected, complete: *complete, dot: li % 4 == 3, to_file: li % 2 == 1 };
        check_req(ctx, &mut st, &r, &format!("{}-large-{}", job, li), &mut seen);
        st.bump("large_requests");
    }
    if job == 0 {
        // missing arguments
        for (v, e, c) in [(None, None, false), (Some(3), None, false), (None, None, true)] {
            let r = Req { v, e, undirected: false, complete: c, dot: false, to_file: false };
            check_req(ctx, &mut st, &r, "missing", &mut seen);
            st.bump("missing_argument_requests");
        }
    }
    st
}

// ------------------------------------------------------------------------- --convert / --colors

fn convert_case(ctx: &Ctx, st: &mut Stats, edges: &[(String, String)], undirected: bool, dot: bool, colors: Option<usize>, tag: &str) {
    st.evals += 1;
    let dir = ctx.fresh_dir(&format!("c18c-{}", tag));
    let _ = std::fs::create_dir_all(&dir);
    // (a third of the inputs with Windows line endings)
    let eol = if (edges.len() + dot as usize + colors.unwrap_or(0)) % 3 == 1 { "\r\n" } else { "\n" };
    let csv: String = edges.iter().map(|(a, b)| format!("{},{}{}", a, b, eol)).collect();
    if eol.len() == 2 && !edges.is_empty() {
        st.bump("convert_inputs_with_crlf");
    }
    // the file to convert is a regular file, a named pipe or /dev/stdin (chosen by the content)
    let mode = [0u8, 0, 3, 4, 6][(csv.len() + undirected as usize + 2 * dot as usize) % 5]; // (--convert takes a file argument: no stdin mode)
    let plan = super::common::plan_input(mode, &dir, "in.csv", csv.as_bytes());
    st.bump(&format!("convert_input_channel_{}", mode));
    let mut args = vec!["--convert".to_string(), plan.path_arg.clone().unwrap_or_default()];
    // every other conversion also states the sizes VERTICES [EDGES] of a generation request (they
    // have no meaning for a conversion; sizes that differ from the list's must not cut it short)
    let positionals: Vec<String> = match (csv.len() * 7 + edges.len() + undirected as usize + colors.unwrap_or(0)) % 6 {
        0 | 1 | 2 => vec![],
        3 => vec![(edges.len() + 1).to_string()],
        4 => vec![(edges.len() + 2).to_string(), (edges.len() / 2).to_string()],
        _ => vec![(edges.len() + 2).to_string(), (edges.len() + 1 + csv.len() % 3).to_string()],
    };
    if !positionals.is_empty() {
        st.bump("convert_with_generation_sizes");
        if csv.len() % 2 == 0 {
            args.extend(positionals.iter().cloned());
        } else {
            let mut a2 = positionals.clone();
            a2.extend(args);
            args = a2;
        }
    }
    if undirected {
        args.push("-u".into());
    }
    if dot {
        args.push("-d".into());
    }
    if let Some(k) = colors {
        args.push("--colors".into());
        args.push(k.to_string());
    }
    // output: stdout, another file (through a symbolic link every other time), or — "convert in
    // place" — the very file that is being converted
    let out_mode = if mode == 0 { (csv.len() / 4 + colors.unwrap_or(0)) % 4 } else { 0 };
    let in_path = plan.path_arg.clone().unwrap_or_default();
    let out_path = match out_mode {
        1 => Some(dir.join("converted.out").display().to_string()),
        2 => Some(in_path.clone()),
        3 => {
            let link = dir.join("link to the input");
            let _ = std::os::unix::fs::symlink(&in_path, &link);
            Some(link.display().to_string())
        }
        _ => None,
    };
    if let Some(p) = &out_path {
        args.push("-o".into());
        args.push(p.clone());
    }
    st.bump(&format!("convert_output_mode_{}", out_mode));
    let mut out = cli::run_fed(&ctx.bin("random_graph_gen"), &args, plan.stdin.as_deref(), &plan.feed, Some(&dir), None, Duration::from_secs(60));
    if let Some(p) = &out_path {
        if out.ok() {
            out.stdout = std::fs::read(p).unwrap_or_default();
        }
    }
    let _ = std::fs::remove_dir_all(&dir);
    let case = || json!({"kind": "convert", "csv": csv, "undirected": undirected, "dot": dot, "colors": colors});
    let desc = format!("random_graph_gen --convert <{:?}>{}{}{}{}", csv.replace('\n', ";"), if undirected { " -u" } else { "" }, if dot { " -d" } else { "" }, colors.map(|k| format!(" --colors {}", k)).unwrap_or_default(), if positionals.is_empty() { String::new() } else { format!(" with sizes {}", positionals.join(" ")) });
    if out.timed_out {
        st.bump("watchdog(inconclusive case)");
        return;
    }
    if !out.ok() && !positionals.is_empty() && out.code == Some(1) && !out.stderr_str().contains("panicked") && !out.stderr_str().trim().is_empty() {
        // a REFUSAL of sizes next to --convert (message, non-zero exit) is not judged: the
        // statement does not say that the combination must be accepted
        st.bump("convert_with_generation_sizes_refused(not judged)");
        return;
    }
    if !out.ok() {
        st.violate("c18.convert", format!("C18:convert-failed:{}", out.panic_site()), format!("{}: {} {}", desc, out.status_string(), out.stderr_str()), case());
        return;
    }
    let got = match parse_output(&out.stdout_str(), dot, undirected) {
        Ok(e) => e,
        Err(m) => {
            st.violate("c18.convert", "C18:convert-unparsable".into(), format!("{}: {}\n{}", desc, m, out.stdout_str()), case());
            return;
        }
    };
    // the list after merging reversed duplicates
    let mut kept: Vec<(String, String)> = Vec::new();
    for (a, b) in edges {
        if undirected && kept.contains(&(b.clone(), a.clone())) {
            continue;
        }
        kept.push((a.clone(), b.clone()));
    }
    match colors {
        None => {
            st.bump("convert_checked");
            if got != kept {
                st.violate("c18.convert", "C18:convert-differs".into(), format!("{}: output {:?}, expected {:?}", desc, got, kept), case());
            } else if !edges.is_empty() {
                st.nt.insert(mix(util::hash_str(&csv), (undirected as u64) * 2 + dot as u64));
            }
        }
        Some(k) => {
            st.bump("colors_checked");
            // input vertices
            let mut verts: Vec<String> = Vec::new();
            for (a, b) in &kept {
                for v in [a, b] {
                    if !verts.contains(v) {
                        verts.push(v.clone());
                    }
                }
            }
            let idx = |s: &String| verts.iter().position(|x| x == s).unwrap();
            let in_edges: Vec<(usize, usize)> = kept.iter().map(|(a, b)| (idx(a), idx(b))).collect();
            let colourable = puzzles::colourable(verts.len(), &in_edges, k);
            // does the output graph have a clique with one copy of every input vertex?
            let adj = |a: &str, b: &str| got.iter().any(|(x, y)| (x == a && y == b) || (x == b && y == a));
            let mut found = false;
            let total = (k as u64).checked_pow(verts.len() as u32).unwrap_or(0);
            if verts.is_empty() {
                found = true;
            }
            'search: for code in 0..total {
                let mut c = code;
                let mut pick: Vec<String> = Vec::new();
                for v in &verts {
                    pick.push(format!("{}_c{}", v, c % k as u64));
                    c /= k as u64;
                }
                for i in 0..pick.len() {
                    for j in (i + 1)..pick.len() {
                        if !adj(&pick[i], &pick[j]) {
                            continue 'search;
                        }
                    }
                }
                found = true;
                break;
            }
            if found != colourable {
                st.violate(
                    "c18.colors",
                    if colourable { "C18:colors:colourable-but-no-covering-clique".to_string() } else { "C18:colors:covering-clique-but-not-colourable".to_string() },
                    format!("{}: the input graph is {}{}-colourable but the output graph {} a clique covering every input vertex\n{:?}", desc, if colourable { "" } else { "not " }, k, if found { "has" } else { "lacks" }, got),
                    case(),
                );
            } else {
                if colourable {
                    st.bump("colourable_inputs");
                } else {
                    st.bump("non_colourable_inputs");
                }
                if !kept.is_empty() {
                    st.nt.insert(mix(util::hash_str(&csv), 100 + k as u64));
                }
            }
        }
    }
}

/// --convert on a LARGE edge list: more than 65 536 distinct vertex names, tens of thousands of
/// records, no record a reversal or a repetition of another. The output must list exactly the
/// input's edges, in the input's order, with and without -u.
fn large_convert_case(ctx: &Ctx, st: &mut Stats, vertices: usize, undirected: bool, tag: &str) {
    let mut rng = Rng::stream(ctx.seed, "C18.largeconvert", vertices as u64 + undirected as u64);
    let name = |i: usize| format!("n{}", i);
    let mut edges: Vec<(usize, usize)> = Vec::new();
    let mut seen: HashSet<(usize, usize)> = HashSet::new();
    let mut push = |edges: &mut Vec<(usize, usize)>, a: usize, b: usize| {
        if a != b && !seen.contains(&(a, b)) && !seen.contains(&(b, a)) {
            seen.insert((a, b));
            edges.push((a, b));
        }
    };
    // a matching that introduces every vertex, then edges between early and late vertices in both
    // "directions of appearance", then random ones
    for i in (0..vertices - 1).step_by(2) {
        push(&mut edges, i, i + 1);
    }
    for k in 0..3000usize {
        let (lo, hi) = (rng.usize(70), vertices - 1 - rng.usize(vertices / 8));
        if k % 2 == 0 { push(&mut edges, lo, hi) } else { push(&mut edges, hi, lo) }
        push(&mut edges, rng.usize(vertices), rng.usize(vertices));
        // later records whose end points are what (lo, hi) looks like when the position of a vertex
        // in order of appearance is narrowed to 16 or 8 bits and packed with the other one
        if k % 3 == 0 {
            push(&mut edges, hi & 0xffff, lo | (hi >> 16));
            push(&mut edges, lo | (hi >> 16), hi & 0xffff);
            push(&mut edges, hi & 0xff, lo | (hi >> 8));
        }
    }
    let csv: String = edges.iter().map(|(a, b)| format!("{},{}\n", name(*a), name(*b))).collect();
    let dir = ctx.fresh_dir(&format!("c18-largeconvert-{}", tag));
    let _ = std::fs::create_dir_all(&dir);
    let _ = std::fs::write(dir.join("big.csv"), &csv);
    let mut args = vec!["--convert".to_string(), "big.csv".to_string()];
    if undirected {
        args.push("-u".into());
    }
    st.evals += 1;
    let out = cli::run(&ctx.bin("random_graph_gen"), &args, None, Some(&dir), None, Duration::from_secs(300));
    let _ = std::fs::remove_dir_all(&dir);
    let case = || json!({"kind": "large-convert", "vertices": vertices, "undirected": undirected, "seed": ctx.seed});
    let desc = format!("random_graph_gen --convert{} on {} records over {} vertices (no reversed or repeated record)", if undirected { " -u" } else { "" }, edges.len(), vertices);
    if out.timed_out {
        st.bump("watchdog(inconclusive case)");
        return;
    }
    if !out.ok() {
        st.violate("c18.convert", format!("C18:convert-failed:{}", out.panic_site()), format!("{}: {}", desc, out.status_string()), case());
        return;
    }
    let got = match parse_output(&out.stdout_str(), false, undirected) {
        Ok(e) => e,
        Err(m) => {
            st.violate("c18.convert", "C18:convert-unparsable".into(), format!("{}: {}", desc, m), case());
            return;
        }
    };
    let first_diff = got.iter().zip(edges.iter()).position(|((ga, gb), (a, b))| *ga != name(*a) || *gb != name(*b));
    if got.len() != edges.len() || first_diff.is_some() {
        let at = first_diff.unwrap_or(got.len().min(edges.len()));
        st.violate("c18.convert", "C18:convert-differs".into(), format!("{}: the output has {} edges, the input {}; first difference at record {}: input {:?}, output {:?}", desc, got.len(), edges.len(), at + 1, edges.get(at).map(|(a, b)| (name(*a), name(*b))), got.get(at)), case());
        return;
    }
    st.bump("large_conversions");
    st.max("max_vertices_converted", vertices as u64);
    st.nt.insert(mix(0x18_c0, vertices as u64 * 2 + undirected as u64));
}

fn convert_job(ctx: &Ctx, job: usize, jobs: usize, thorough: bool) -> Stats {
    let mut st = Stats::new();
    let mut rng = Rng::stream(ctx.seed, "C18.convert", job as u64);
    // name families: plain; one name a prefix of another followed by a character below '_' (digit,
    // upper case, '-'); names containing the colour suffix pattern
    let name_sets: [[&str; 5]; 8] = [
        ["a", "b", "c", "d", "e"],
        // names a CSV reader may take for a comment or a header
        ["#1", "#a", "a#", "source", "c#d"],
        ["v1", "v10", "v1X", "v", "v100"],
        ["1", "10", "100", "2", "20"],
        ["a_c0", "a", "a_c1", "a_c", "c0"],
        // names that collide under joining with a separator character
        ["a-b", "c", "b-c", "a", "a-b-c"],
        ["x_y", "z", "y_z", "x", "x_y_z"],
        ["p.q", "r", "q.r", "p", "p q"],
    ];
    let mut k = 0usize;
    // all digraphs on <= 3 vertices as edge lists, with presentation quirks
    for nv in 0..=3usize {
        let pairs: Vec<(usize, usize)> = (0..nv).flat_map(|a| (0..nv).filter(move |b| *b != a).map(move |b| (a, b))).collect();
        for m in 0..(1u64 << pairs.len()) {
            k += 1;
            if k % jobs != job {
                continue;
            }
            let names = &name_sets[(k / jobs) % name_sets.len()];
            let mut edges: Vec<(String, String)> = pairs.iter().enumerate().filter(|(i, _)| (m >> i) & 1 == 1).map(|(_, (a, b))| (names[*a].to_string(), names[*b].to_string())).collect();
            rng.shuffle(&mut edges);
            for undirected in [false, true] {
                let mut es = edges.clone();
                if !undirected && !es.is_empty() && rng.chance(1, 3) {
                    // exact duplicates and self-loops must be reproduced verbatim
                    let d = es[rng.usize(es.len())].clone();
                    es.push(d);
                    es.push((names[0].to_string(), names[0].to_string()));
                }
                convert_case(ctx, &mut st, &es, undirected, k % 2 == 0, None, &format!("{}-{}-{}", job, k, undirected as u8));
            }
        }
    }
    // random edge lists over 4-5 vertices for every name family (under -u without exact duplicates / self-loops)
    for fam in 0..name_sets.len() {
        for rep in 0..(if thorough { 120 } else { 12 }) {
            k += 1;
            if k % jobs != job {
                continue;
            }
            let names = &name_sets[fam];
            let nv = 4 + rng.usize(2);
            let undirected = rep % 2 == 0;
            let mut es: Vec<(String, String)> = Vec::new();
            for _ in 0..(2 + rng.usize(8)) {
                let (a, b) = (rng.usize(nv), rng.usize(nv));
                let e = (names[a].to_string(), names[b].to_string());
                if undirected && (a == b || es.contains(&e)) {
                    continue;
                }
                es.push(e);
            }
            convert_case(ctx, &mut st, &es, undirected, rep % 3 == 0, None, &format!("{}-rc{}", job, k));
            st.bump("random_convert_cases");
        }
    }
    // every ordered pair of distinct loop-free edges over the five names of every family, under -u:
    // the second edge may be dropped only if it is the reverse of the first
    for fam in 0..name_sets.len() {
        let names = &name_sets[fam];
        let pairs: Vec<(usize, usize)> = (0..5).flat_map(|a| (0..5).filter(move |b| *b != a).map(move |b| (a, b))).collect();
        for (i, e1) in pairs.iter().enumerate() {
            for (j, e2) in pairs.iter().enumerate() {
                if i == j {
                    continue;
                }
                k += 1;
                if k % jobs != job || (!thorough && (i * 31 + j * 17 + fam) % 3 != 0) {
                    continue;
                }
                let es = vec![(names[e1.0].to_string(), names[e1.1].to_string()), (names[e2.0].to_string(), names[e2.1].to_string())];
                convert_case(ctx, &mut st, &es, true, false, None, &format!("{}-pp{}", job, k));
                st.bump("edge_pair_convert_cases");
            }
        }
    }
    // colours: all loop-free undirected graphs on <= 4 vertices x k in 0..3
    let maxv = if thorough { 5 } else { 4 };
    for nv in 2..=maxv {
        let pairs: Vec<(usize, usize)> = (0..nv).flat_map(|a| ((a + 1)..nv).map(move |b| (a, b))).collect();
        for m in 1..(1u64 << pairs.len()) {
            k += 1;
            if k % jobs != job {
                continue;
            }
            if nv == 5 && m % 7 != 3 {
                continue;
            }
            let names = &name_sets[(k / jobs) % name_sets.len()];
            let mut edges: Vec<(String, String)> = pairs.iter().enumerate().filter(|(i, _)| (m >> i) & 1 == 1).map(|(_, (a, b))| if rng.chance(1, 2) { (names[*a].to_string(), names[*b].to_string()) } else { (names[*b].to_string(), names[*a].to_string()) }).collect();
            // a third of the inputs state one or two edges twice (same line again, or reversed): the same graph
            if rng.chance(1, 3) {
                for _ in 0..(1 + rng.usize(2)) {
                    let e = edges[rng.usize(edges.len())].clone();
                    edges.push(if rng.chance(1, 2) { e } else { (e.1, e.0) });
                }
                st.bump("colour_inputs_with_repeated_edges");
            }
            for colors in 0..=3usize {
                convert_case(ctx, &mut st, &edges, rng.chance(1, 2), false, Some(colors), &format!("{}-{}-k{}", job, k, colors));
            }
        }
    }
    if job == 0 {
        // --colors on GENERATED graphs whose vertex names have prefix relations (v1 / v10 / v11): a complete
        // graph on V vertices is k-colourable iff k >= V
        for (v, kcol) in [(11usize, 1usize), (12, 2), (3, 3), (3, 2)] {
            st.evals += 1;
            st.bump("generated_complete_with_colors");
            let args: Vec<String> = vec![v.to_string(), "--complete".into(), "-u".into(), "--colors".into(), kcol.to_string()];
            let out = cli::run(&ctx.bin("random_graph_gen"), &args, None, None, None, Duration::from_secs(120));
            if out.timed_out {
                continue;
            }
            let case = json!({"kind": "complete-colors", "v": v, "k": kcol});
            if !out.ok() {
                st.violate("c18.colors", format!("C18:colors:generated-failed:{}", out.panic_site()), format!("random_graph_gen {:?}: {}", args, out.status_string()), case);
                continue;
            }
            match parse_output(&out.stdout_str(), false, true) {
                Err(m) => st.violate("c18.colors", "C18:colors:unparsable".into(), m, case),
                Ok(edges) => {
                    // copies of distinct vertices with the same colour must never be adjacent in K_V's reduction
                    let bad = edges.iter().find(|(a, b)| {
                        let (va, ca) = a.rsplit_once("_c").unwrap_or((a, ""));
                        let (vb, cb) = b.rsplit_once("_c").unwrap_or((b, ""));
                        va != vb && ca == cb
                    });
                    if let Some((a, b)) = bad {
                        st.violate("c18.colors", "C18:colors:same-colour-edge-between-adjacent-vertices".into(), format!("random_graph_gen {:?}: output edge {},{} joins same-colour copies of adjacent vertices (K_{} would become {}-colourable)", args, a, b, v, kcol), case);
                    }
                }
            }
        }
        // an edge list larger than any I/O buffer must be reproduced completely
        let big: Vec<(String, String)> = (0..3_000).map(|i| (format!("n{}", i % 50), format!("m{}", i % 37))).collect();
        convert_case(ctx, &mut st, &big, false, false, None, "large");
        convert_case(ctx, &mut st, &big, false, true, None, "large-dot");
        st.bump("large_inputs");
        convert_case(ctx, &mut st, &[], false, false, None, "empty");
        convert_case(ctx, &mut st, &[], true, true, Some(2), "empty-col");
        convert_case(ctx, &mut st, &[], false, false, Some(0), "empty-col0");
    }
    st
}

pub fn run(ctx: &Ctx) -> (Stats, Spec) {
    let thorough = ctx.tier == crate::report::Tier::Thorough;
    let reps = ctx.tier.pick(10usize, 60usize);
    let jobs = 32;
    let parts = util::par_jobs(jobs, |j| {
        let mut s = gen_job(ctx, j, jobs, reps);
        s.merge(convert_job(ctx, j, jobs, thorough));
        s
    });
    let mut st = crate::report::merge_all(parts);
    st.exhaustive.push("every request (V <= 6, E <= max+2, -u, --dot, stdout / -o) and --complete for V <= 6; --convert on all digraphs with <= 3 vertices; --colors k (k = 0..3) on all loop-free graphs with 2..4 vertices".into());
    if std::path::Path::new("/dev/full").exists() {
        for (args, to_stdout) in [(vec!["5", "6"], true), (vec!["5", "6", "-o", "/dev/full"], false), (vec!["--complete", "4", "-d"], true)] {
            st.evals += 1;
            match super::common::fails_on_full_device(ctx, "random_graph_gen", &args, None, to_stdout) {
                Some(true) => st.bump("full_device_reported"),
                Some(false) => st.violate("c18.run", "C18:success-although-nothing-could-be-written".into(), format!("random_graph_gen {:?} with the output on a full device exits 0", args), json!({"kind": "full-device"})),
                None => st.bump("watchdog(inconclusive case)"),
            }
        }
    }
    // file names that are not valid UTF-8: --convert IN -o OUT reproduces the list
    {
        let csv = "a,b\nb,c\nc,a\n";
        let (out, written) = super::common::run_with_non_utf8_paths(ctx, "random_graph_gen", &["--convert"], Some(csv.as_bytes()), &["-o"], true, "c18");
        st.evals += 1;
        if !out.timed_out {
            if !out.ok() || written.as_deref() != Some(csv) || !out.stdout_str().trim().is_empty() {
                st.violate("c18.convert", "C18:non-utf8-file-names".into(), format!("random_graph_gen --convert IN -o OUT with file names that are not valid UTF-8: {}; OUT holds {:?}, stdout {:?}", out.status_string(), written, out.stdout_str()), json!({"kind": "non-utf8-names"}));
            } else {
                st.bump("file_names_not_valid_utf8");
            }
        }
    }
    for (k, (v, u)) in ctx.tier.pick(vec![(66_000usize, true), (70_000, false)], vec![(66_000, true), (70_000, false), (140_000, true), (65_537, true)]).into_iter().enumerate() {
        large_convert_case(ctx, &mut st, v, u, &format!("{}", k));
    }
    let spec = Spec {
        rule: "all (V in 0..6, E in 0..max+2, -u, --dot, stdout or -o) requests and boundary edge counts for V in {11, 17, 40}, LARGE requests (V = 257 .. 1000 [quick] / .. 5000 [thorough]; sparse, dense, complete; -u and directed), feasible ones repeated 10 [quick] / 60 [thorough] times (every run is a fresh random sample; the number of distinct outputs seen is reported), --complete with and without an edge count, missing arguments; --convert (every other time with the VERTICES [EDGES] sizes of a generation request next to it — smaller and larger than the list; file to convert: a regular file — also one named `-` —, a named pipe or /dev/stdin; output to stdout, to another file, or IN PLACE onto the file being converted, directly or through a symbolic link) on every digraph with <= 3 vertices, random edge lists over 4-5 vertices, and (under -u) ordered pairs of distinct edges over five names of every family (a third of them [quick] / all [thorough]) (shuffled rows; exact duplicates and self-loops without -u; reversed pairs under -u), --colors 0..3 on every loop-free graph with 2..4 (thorough: sampled 5) vertices, with seven vertex-name families (names that collide under joining with '-', '_' or '.'; plain; one name a prefix of another: v1 / v10 / v1X, 1 / 10 / 100; names containing the colour suffix pattern), --colors on generated complete graphs with 11-12 vertices, and --convert (with and without -u) on edge lists with 66 000 - 140 000 distinct vertex names. distinct = (request, output); non-trivial = 0 < E < max resp. non-empty input.".into(),
        assumptions: vec![
            "uniformity of the random sample is not claimed by the property and not tested".into(),
            "self-loops are not given to --convert -u / --colors, exact duplicates not to --convert -u (their treatment is a convention the statement does not fix); --colors inputs may state an edge twice (the same graph)".into(),
        ],
        floors: vec![
            ("feasible_requests_checked".into(), 1_000, "too few feasible requests".into()),
            ("infeasible_or_incomplete_requests".into(), 50, "infeasible requests hardly exercised".into()),
            ("complete_requests".into(), 20, "--complete hardly exercised".into()),
            ("convert_checked".into(), 100, "--convert hardly exercised".into()),
            ("convert_with_generation_sizes".into(), 50, "--convert next to VERTICES / EDGES never exercised".into()),
            ("colourable_inputs".into(), 50, "--colors hardly exercised".into()),
            ("non_colourable_inputs".into(), 50, "--colors hardly exercised on non-colourable inputs".into()),
            ("distinct_outputs".into(), 500, "too few distinct outputs".into()),
            ("large_requests".into(), 5, "large requests not exercised".into()),
            ("large_conversions".into(), 2, "large edge lists not converted".into()),
        ],
    };
    (st, spec)
}

pub fn replay(ctx: &Ctx, _monitor: &str, case: &Value, st: &mut Stats) {
    if case.get("kind").and_then(|k| k.as_str()) == Some("large-convert") {
        let mut c2 = ctx.clone();
        c2.seed = case.get("seed").and_then(|j| j.as_u64()).unwrap_or(ctx.seed);
        large_convert_case(&c2, st, case.get("vertices").and_then(|j| j.as_u64()).unwrap_or(66_000) as usize, case.get("undirected").and_then(|b| b.as_bool()).unwrap_or(true), "replay");
        return;
    }
    if case.get("kind").and_then(|k| k.as_str()) == Some("convert") {
        let csv = case.get("csv").and_then(|c| c.as_str()).unwrap_or("");
        let edges: Vec<(String, String)> = csv.lines().filter_map(|l| l.split_once(',').map(|(a, b)| (a.to_string(), b.to_string()))).collect();
        convert_case(
            ctx,
            st,
            &edges,
            case.get("undirected").and_then(|b| b.as_bool()).unwrap_or(false),
            case.get("dot").and_then(|b| b.as_bool()).unwrap_or(false),
            case.get("colors").and_then(|c| c.as_u64()).map(|c| c as usize),
            "replay",
        );
        return;
    }
    let r = Req {
        v: case.get("v").and_then(|x| x.as_u64()).map(|x| x as usize),
        e: case.get("e").and_then(|x| x.as_u64()).map(|x| x as usize),
        undirected: case.get("undirected").and_then(|b| b.as_bool()).unwrap_or(false),
        complete: case.get("complete").and_then(|b| b.as_bool()).unwrap_or(false),
        dot: case.get("dot").and_then(|b| b.as_bool()).unwrap_or(false),
        to_file: case.get("to_file").and_then(|b| b.as_bool()).unwrap_or(false),
    };
    // a random generator: repeat to give a randomised violation a chance to show again
    let mut seen = HashSet::new();
    for i in 0..200 {
        check_req(ctx, st, &r, &format!("replay-{}", i), &mut seen);
        if !st.violations.is_empty() {
            break;
        }
    }
}
