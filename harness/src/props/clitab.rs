//! Shared by C10 / C11: run the real `rsbdd` binary, parse its stdout (exported ordering, truth
//! table, -v lines) and judge it against the reference model.

use crate::cli::{self, Cell, RunOut, Table};
use crate::refsem::Sem;
use crate::refsyn::{self, Ast, Tok};
use crate::report::Ctx;
use crate::tt::Tt;
use serde_json::{json, Value};
use std::time::Duration;

#[derive(Debug, Clone, Default)]
pub struct Inv {
    pub text: String,
    /// 0 = --evaluate, 1 = file, 2 = stdin, 3 = named pipe as the file (ordering too), 4 = /dev/stdin as
    /// the file, 5 = stdin in small pieces (ordering through a named pipe)
    pub channel: u8,
    /// content of the ordering file, if any
    pub ordering: Option<String>,
    pub filter: Option<String>,
    pub t: bool,
    pub v: bool,
    pub m: bool,
    pub b: Option<u32>,
    pub r: bool,
}

impl Inv {
    pub fn to_json(&self) -> Value {
        json!({"text": self.text, "channel": self.channel, "ordering": self.ordering, "filter": self.filter, "t": self.t, "v": self.v, "m": self.m, "b": self.b, "r": self.r})
    }
    pub fn from_json(v: &Value) -> Inv {
        Inv {
            text: v.get("text").and_then(|x| x.as_str()).unwrap_or("").to_string(),
            channel: v.get("channel").and_then(|x| x.as_u64()).unwrap_or(0) as u8,
            ordering: v.get("ordering").and_then(|x| x.as_str()).map(|s| s.to_string()),
            filter: v.get("filter").and_then(|x| x.as_str()).map(|s| s.to_string()),
            t: v.get("t").and_then(|x| x.as_bool()).unwrap_or(false),
            v: v.get("v").and_then(|x| x.as_bool()).unwrap_or(false),
            m: v.get("m").and_then(|x| x.as_bool()).unwrap_or(false),
            b: v.get("b").and_then(|x| x.as_u64()).map(|x| x as u32),
            r: v.get("r").and_then(|x| x.as_bool()).unwrap_or(false),
        }
    }
    pub fn describe(&self) -> String {
        let mut s = format!("rsbdd <{}> `{}`", ["--evaluate", "file", "stdin", "named pipe", "/dev/stdin", "stdin in pieces", "file named -", "stdin = a regular file read from an offset", "stdin = a terminal"][self.channel as usize % 9], self.text);
        if let Some(o) = &self.ordering {
            s.push_str(&format!(" -o <{:?}>", o));
        }
        if let Some(f) = &self.filter {
            s.push_str(&format!(" -f {}", f));
        }
        for (on, flag) in [(self.t, "-t"), (self.v, "-v"), (self.m, "-m"), (self.r, "-r")] {
            if on {
                s.push(' ');
                s.push_str(flag);
            }
        }
        if let Some(b) = self.b {
            s.push_str(&format!(" -b {}", b));
        }
        s
    }
}

pub fn invoke(ctx: &Ctx, inv: &Inv, tag: &str) -> RunOut {
    let dir = ctx.fresh_dir(&format!("inv-{}", tag));
    let _ = std::fs::create_dir_all(&dir);
    let mut args: Vec<String> = Vec::new();
    let mut stdin: Option<Vec<u8>> = None;
    let mut feed = cli::Feed::default();
    match inv.channel % 9 {
        0 => args.push(format!("--evaluate={}", inv.text)),
        c => {
            // 1 regular file, 2 stdin, 3 named pipe, 4 /dev/stdin, 5 stdin in small pieces, 6 a file named `-`, 7 stdin is a regular file positioned after a consumed line, 8 stdin is a terminal
            let mode = [0u8, 0, 1, 3, 4, 5, 6, 7, 8][c as usize];
            let plan = super::common::plan_input(mode, &dir, "formula.txt", inv.text.as_bytes());
            if let Some(p) = plan.path_arg {
                args.push(p);
            }
            stdin = plan.stdin;
            feed = plan.feed;
        }
    }
    if let Some(o) = &inv.ordering {
        let p = dir.join(super::common::hostile_file_name(o.len(), "ordering.txt"));
        if inv.channel % 9 == 3 || inv.channel % 9 == 5 {
            // the ordering through a named pipe as well
            feed.fifos.push((p.clone(), o.as_bytes().to_vec(), [1usize, 5, 100][o.len() % 3]));
        } else {
            let _ = std::fs::write(&p, o.as_bytes());
        }
        args.push("-o".into());
        args.push(p.display().to_string());
    }
    if let Some(f) = &inv.filter {
        args.push("-f".into());
        args.push(f.clone());
    }
    for (on, flag) in [(inv.t, "-t"), (inv.v, "-v"), (inv.m, "-m"), (inv.r, "-r")] {
        if on {
            args.push(flag.into());
        }
    }
    if let Some(b) = inv.b {
        args.push("-b".into());
        args.push(b.to_string());
    }
    // every fourth invocation (by its text and options) prints to a TERMINAL instead of a pipe
    if (crate::util::hash_str(&inv.text) ^ inv.channel as u64 ^ (inv.t as u64) << 3 ^ (inv.v as u64) << 4) % 4 == 1 {
        feed.stdout_tty = true;
    }
    let out = cli::run_fed(&ctx.bin("rsbdd"), &args, stdin.as_deref(), &feed, Some(&dir), Some((20_000_000, 100_000)), Duration::from_secs(60));
    let _ = std::fs::remove_dir_all(&dir);
    out
}

#[derive(Debug, Clone)]
pub struct Parsed {
    pub exported: Vec<String>,
    pub table: Option<Table>,
    /// each -v line: (name, is_any)
    pub vlines: Vec<Vec<(String, bool)>>,
}

/// stdout layout: [-r: one name per line] [-t: table] [-v: lines ending in `;`]
pub fn parse_stdout(s: &str, inv: &Inv) -> Result<Parsed, String> {
    // Lines are classified one by one — a table line starts with '|', a -v line ends with ';',
    // anything else is a line of the exported ordering — so the ORDER in which the sections are
    // printed is not judged (the statement does not fix it); a torn or merged line is.
    let mut exported = Vec::new();
    let mut table_lines: Vec<&str> = Vec::new();
    let mut vlines = Vec::new();
    for line in s.lines() {
        let l = line.trim_end();
        if line.starts_with('|') {
            if !inv.t {
                return Err(format!("table line without -t: {:?}", line));
            }
            table_lines.push(line);
        } else if let Some(body) = l.strip_suffix(';') {
            if !inv.v {
                return Err(format!("-v line without -v: {:?}", line));
            }
            let mut items = Vec::new();
            for part in body.split(", ") {
                if part.is_empty() {
                    continue;
                }
                if part.contains('|') {
                    return Err(format!("table fragment inside a -v line: {:?}", line));
                }
                match part.strip_suffix('*') {
                    Some(n) => items.push((n.to_string(), true)),
                    None => items.push((part.to_string(), false)),
                }
            }
            vlines.push(items);
        } else if inv.r {
            exported.push(line.to_string());
        } else {
            return Err(format!("unexpected output line {:?}", line));
        }
    }
    let mut table = None;
    if inv.t {
        let (t, used) = cli::parse_table(&table_lines)?;
        if used != table_lines.len() {
            return Err(format!("unexpected table line {:?}", table_lines[used]));
        }
        table = Some(t);
    }
    Ok(Parsed { exported, table, vlines })
}

/// names of an ordering file in order of first appearance (the tokenizer's variables); None if the
/// file does not tokenize (the binary must then fail)
pub fn ordering_names(content: &str) -> Option<Vec<String>> {
    let toks = refsyn::tokenize(content).ok()?;
    let mut out: Vec<String> = Vec::new();
    for t in toks {
        if let Tok::Var(v) = t {
            if !out.contains(&v) {
                out.push(v);
            }
        }
    }
    Some(out)
}

/// every name token of an ordering file, repeats included, in file order
pub fn ordering_tokens(content: &str) -> Option<Vec<String>> {
    let toks = refsyn::tokenize(content).ok()?;
    Some(toks.into_iter().filter_map(|t| if let Tok::Var(v) = t { Some(v) } else { None }).collect())
}

/// "Variables listed in the file are ordered as in the file": the listed names among `seq` come in
/// an order the file shows. A name the file lists TWICE may count at either place (the statement
/// does not say which occurrence decides), so the test is: one occurrence per name can be picked,
/// left to right, in the order of `seq`.
pub fn respects_some_reading(seq: &[String], file_tokens: &[String]) -> bool {
    let mut from = 0usize;
    for name in seq.iter().filter(|n| file_tokens.contains(n)) {
        match file_tokens[from..].iter().position(|t| t == name) {
            Some(p) => from += p + 1,
            None => return false,
        }
    }
    true
}

/// expected variable order: names of the ordering file first, then the formula's other names in text order
pub fn expected_order(ast: &Ast, ordering: &Option<Vec<String>>) -> Vec<String> {
    let text_order = ast.names_in_text_order();
    match ordering {
        None => text_order,
        Some(o) => {
            let mut v: Vec<String> = o.iter().filter(|n| text_order.contains(n)).cloned().collect();
            for n in text_order {
                if !v.contains(&n) {
                    v.push(n);
                }
            }
            v
        }
    }
}

pub struct Reference {
    pub ast: Ast,
    /// free variables in expected variable order
    pub free: Vec<String>,
    /// all variables in expected variable order
    pub all: Vec<String>,
    /// the formula's value as a table over `free`
    pub table: Tt,
}

/// None: the formula is outside what may be evaluated (not a sentence, references, non-convergent, too big)
pub fn reference_for(inv: &Inv) -> Option<Reference> {
    let ast = refsyn::parse_text(&inv.text).ok()?;
    if ast.has_kind(&|a| matches!(a, Ast::Ref(_))) {
        return None;
    }
    let ord = match &inv.ordering {
        None => None,
        Some(c) => Some(ordering_names(c)?),
    };
    let all = expected_order(&ast, &ord);
    if all.len() > 10 {
        return None;
    }
    let free_set = ast.free_names();
    let free: Vec<String> = all.iter().filter(|n| free_set.contains(n)).cloned().collect();
    // evaluate over the universe `all`, then project onto the free variables
    let big = Sem::new(&all).eval(&ast).ok()?;
    let n = free.len() as u32;
    let mut small = Tt::constant(n, false);
    for a in 0..(1u64 << n) {
        let mut full = 0u64;
        for (i, name) in free.iter().enumerate() {
            if (a >> i) & 1 == 1 {
                full |= 1 << all.iter().position(|x| x == name).unwrap();
            }
        }
        small.set(a, big.get(full));
    }
    Some(Reference { ast, free, all, table: small })
}

/// set of total assignments (over `header`) covered by a row
pub fn row_cover(cells: &[Cell]) -> Tt {
    let n = cells.len() as u32;
    let mut c = Tt::constant(n, true);
    for (i, cell) in cells.iter().enumerate() {
        match cell {
            Cell::True => c = c.and(&Tt::var(n, i as u32)),
            Cell::False => c = c.and(&Tt::var(n, i as u32).not()),
            Cell::Any => {}
        }
    }
    c
}

pub fn filter_kind(f: &Option<String>) -> Option<&'static str> {
    match f.as_deref() {
        None => Some("any"),
        Some("true" | "True" | "t" | "T" | "1") => Some("true"),
        Some("false" | "False" | "f" | "F" | "0") => Some("false"),
        Some("any" | "Any" | "a" | "A" | "*") => Some("any"),
        _ => None,
    }
}

/// Judge a table against the reference. Returns Err((signature-suffix, message)).
/// With `model_mode` (-m) the printed diagram is a model of the formula: rows must still partition,
/// true rows must satisfy the formula, and nothing else is demanded here (C07 counts them).
pub fn judge_table(table: &Table, rf0: &Reference, filter: &str, model_mode: bool) -> Result<(), (String, String)> {
    // the header must list exactly the free variables, each once; the column order is whatever the
    // tool chose (order constraints are checked by the callers) and the semantics is judged BY NAME
    let mut sorted_h = table.header.clone();
    sorted_h.sort();
    let mut sorted_f = rf0.free.clone();
    sorted_f.sort();
    if sorted_h != sorted_f {
        return Err(("header".into(), format!("header {:?} but the free variables are {:?}", table.header, rf0.free)));
    }
    let n = rf0.free.len() as u32;
    let pos: Vec<usize> = table.header.iter().map(|h| rf0.free.iter().position(|x| x == h).unwrap()).collect();
    let mut want = Tt::constant(n, false);
    for a in 0..(1u64 << n) {
        let mut b = 0u64;
        for (i, p) in pos.iter().enumerate() {
            if (a >> i) & 1 == 1 {
                b |= 1 << p;
            }
        }
        want.set(a, rf0.table.get(b));
    }
    let rf = Reference { ast: rf0.ast.clone(), free: table.header.clone(), all: rf0.all.clone(), table: want };
    let rf = &rf;
    let mut seen = Tt::constant(n, false);
    for (k, (cells, res)) in table.rows.iter().enumerate() {
        let cover = row_cover(cells);
        if !cover.and(&seen).is_false() {
            return Err(("rows-overlap".into(), format!("row {} overlaps an earlier row", k + 1)));
        }
        seen = seen.or(&cover);
        let agrees = if *res { cover.leq(&rf.table) } else { model_mode || cover.leq(&rf.table.not()) };
        if !agrees {
            let bad = if *res { cover.and(&rf.table.not()) } else { cover.and(&rf.table) };
            let a = bad.first_one().unwrap_or(0);
            let asg: Vec<String> = rf.free.iter().enumerate().map(|(i, nm)| format!("{}={}", nm, (a >> i) & 1)).collect();
            return Err(("row-value".into(), format!("row {} says {} but under {} the formula is {}", k + 1, res, asg.join(" "), rf.table.get(a))));
        }
        match filter {
            "true" if !*res => return Err(("filter".into(), format!("filter True but row {} is a False row", k + 1))),
            "false" if *res => return Err(("filter".into(), format!("filter False but row {} is a True row", k + 1))),
            _ => {}
        }
    }
    if !model_mode {
        let want_cover = match filter {
            "true" => rf.table.clone(),
            "false" => rf.table.not(),
            _ => Tt::constant(n, true),
        };
        if seen != want_cover {
            let missing = want_cover.and(&seen.not());
            let a = missing.first_one().unwrap_or(0);
            let asg: Vec<String> = rf.free.iter().enumerate().map(|(i, nm)| format!("{}={}", nm, (a >> i) & 1)).collect();
            return Err(("coverage".into(), format!("the assignment {} is covered by no row (filter {})", asg.join(" "), filter)));
        }
    } else if filter == "any" && !seen.is_true() {
        return Err(("coverage".into(), "rows of the model table do not cover every assignment".into()));
    }
    Ok(())
}

/// the table of the reference re-indexed to the column order the tool printed
pub fn table_in_order(rf: &Reference, header: &[String]) -> Option<Tt> {
    let n = rf.free.len() as u32;
    if header.len() != rf.free.len() {
        return None;
    }
    let pos: Option<Vec<usize>> = header.iter().map(|h| rf.free.iter().position(|x| x == h)).collect();
    let pos = pos?;
    let mut want = Tt::constant(n, false);
    for a in 0..(1u64 << n) {
        let mut b = 0u64;
        for (i, p) in pos.iter().enumerate() {
            if (a >> i) & 1 == 1 {
                b |= 1 << p;
            }
        }
        want.set(a, rf.table.get(b));
    }
    Some(want)
}

/// `sub` (restricted to names in `of`) appears in `seq` in the same relative order
pub fn respects_order(seq: &[String], listed: &[String]) -> bool {
    let mut last = None;
    for l in listed {
        if let Some(p) = seq.iter().position(|x| x == l) {
            if let Some(q) = last {
                if p < q {
                    return false;
                }
            }
            last = Some(p);
        }
    }
    true
}
