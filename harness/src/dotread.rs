//! Reader for the DOT dialect the `dot` crate emits (ids, `label="…"` with escape_default undone,
//! `->` edges), the decision-graph evaluator and the parse-tree term rebuilder.

use crate::refsyn::{Ast, Cmp, Op};
use crate::tt::Tt;
use std::collections::{HashMap, HashSet};

#[derive(Debug, Clone)]
pub struct Dot {
    pub name: String,
    /// declaration order
    pub nodes: Vec<(String, String)>,
    pub edges: Vec<(String, String, String)>, // (src, label, dst)
}

fn unescape(s: &str) -> Result<String, String> {
    let mut out = String::new();
    let mut it = s.chars().peekable();
    while let Some(c) = it.next() {
        if c != '\\' {
            out.push(c);
            continue;
        }
        match it.next() {
            Some('n') => out.push('\n'),
            Some('t') => out.push('\t'),
            Some('r') => out.push('\r'),
            Some('\\') => out.push('\\'),
            Some('\'') => out.push('\''),
            Some('"') => out.push('"'),
            Some('0') => out.push('\0'),
            Some('u') => {
                if it.next() != Some('{') {
                    return Err("bad \\u escape".into());
                }
                let mut hex = String::new();
                loop {
                    match it.next() {
                        Some('}') => break,
                        Some(h) => hex.push(h),
                        None => return Err("unterminated \\u escape".into()),
                    }
                }
                let v = u32::from_str_radix(&hex, 16).map_err(|_| "bad \\u digits".to_string())?;
                out.push(char::from_u32(v).ok_or("bad code point")?);
            }
            other => return Err(format!("unknown escape \\{:?}", other)),
        }
    }
    Ok(out)
}

/// split `…[label="…"];` into (head, label)
fn split_label(line: &str) -> Result<(String, String), String> {
    let key = "[label=\"";
    let p = line.find(key).ok_or_else(|| format!("no label in {:?}", line))?;
    let head = line[..p].trim().to_string();
    let rest = &line[p + key.len()..];
    // closing quote: first unescaped `"`
    let mut esc = false;
    let mut end = None;
    for (i, c) in rest.char_indices() {
        if esc {
            esc = false;
            continue;
        }
        if c == '\\' {
            esc = true;
        } else if c == '"' {
            end = Some(i);
            break;
        }
    }
    let end = end.ok_or_else(|| format!("unterminated label in {:?}", line))?;
    if rest[end + 1..].trim() != "];" {
        return Err(format!("garbage after label in {:?}", line));
    }
    Ok((head, unescape(&rest[..end])?))
}

pub fn parse(text: &str) -> Result<Dot, String> {
    // labels may contain escaped newlines only (real newlines are escaped by the emitter)
    let mut lines = text.lines();
    let first = lines.next().ok_or("empty DOT")?;
    let name = first.strip_prefix("digraph ").and_then(|r| r.strip_suffix(" {")).ok_or_else(|| format!("bad first line {:?}", first))?.to_string();
    let mut nodes = Vec::new();
    let mut edges = Vec::new();
    let mut closed = false;
    for l in lines {
        if closed {
            if !l.trim().is_empty() {
                return Err(format!("text after closing brace: {:?}", l));
            }
            continue;
        }
        if l.trim() == "}" {
            closed = true;
            continue;
        }
        let (head, label) = split_label(l)?;
        if let Some((a, b)) = head.split_once(" -> ") {
            edges.push((a.trim().to_string(), label, b.trim().to_string()));
        } else {
            if head.contains(' ') {
                return Err(format!("bad node id {:?}", head));
            }
            nodes.push((head, label));
        }
    }
    if !closed {
        return Err("missing closing brace".into());
    }
    Ok(Dot { name, nodes, edges })
}

/// Structural checks + evaluation of a BDD export. `filter`: "any" | "true" | "false".
/// Returns (function over `names`, number of internal nodes declared).
pub fn eval_bdd_dot(dot: &Dot, names: &[String], filter: &str) -> Result<(Tt, usize), String> {
    let n = names.len() as u32;
    let mut decl: HashMap<&str, &str> = HashMap::new();
    for (id, label) in &dot.nodes {
        if decl.insert(id.as_str(), label.as_str()).is_some() {
            return Err(format!("node {} declared twice", id));
        }
    }
    // leaves are recognised by their LABEL (`true` / `false` are keywords, never variable names),
    // not by a particular id scheme
    let mut has_outgoing: HashSet<&str> = HashSet::new();
    for (a, _, _) in &dot.edges {
        has_outgoing.insert(a.as_str());
    }
    let is_leaf = |id: &str| -> Option<bool> {
        if names.iter().any(|nm| nm == decl[id]) {
            return None; // a variable that happens to be called true/false (only possible for API symbols)
        }
        match decl[id] {
            "true" => Some(true),
            "false" => Some(false),
            _ => None,
        }
    };
    let mut true_leaves = 0;
    let mut false_leaves = 0;
    for (id, _) in &dot.nodes {
        match is_leaf(id) {
            Some(true) => true_leaves += 1,
            Some(false) => false_leaves += 1,
            None => {}
        }
        if is_leaf(id).is_some() && has_outgoing.contains(id.as_str()) {
            return Err("edge leaving a leaf".into());
        }
    }
    if true_leaves > 1 || false_leaves > 1 {
        return Err("a leaf is declared more than once".into());
    }
    if filter == "false" && true_leaves > 0 {
        return Err(format!("the true leaf must be omitted under filter {}", filter));
    }
    if filter == "true" && false_leaves > 0 {
        return Err(format!("the false leaf must be omitted under filter {}", filter));
    }
    let mut t_edge: HashMap<&str, &str> = HashMap::new();
    let mut f_edge: HashMap<&str, &str> = HashMap::new();
    let mut has_incoming: HashSet<&str> = HashSet::new();
    for (a, l, b) in &dot.edges {
        if !decl.contains_key(a.as_str()) {
            return Err(format!("edge from undeclared node {}", a));
        }
        if !decl.contains_key(b.as_str()) {
            return Err(format!("edge to undeclared node {}", b));
        }
        let m = match l.as_str() {
            "T" => &mut t_edge,
            "F" => &mut f_edge,
            other => return Err(format!("edge label {:?}", other)),
        };
        if m.insert(a.as_str(), b.as_str()).is_some() {
            return Err(format!("node {} has two {} edges", a, l));
        }
        has_incoming.insert(b.as_str());
    }
    let internal: Vec<&str> = dot.nodes.iter().map(|x| x.0.as_str()).filter(|id| is_leaf(id).is_none()).collect();
    for id in &internal {
        let (t, f) = (t_edge.contains_key(id), f_edge.contains_key(id));
        match filter {
            "any" if !(t && f) => return Err(format!("node {} lacks a T or F edge", id)),
            // under a True / False filter an absent edge leads to the omitted leaf; a node of a
            // diagram that is not reduced may have lost both (whether the function is right is
            // decided by evaluating the graph)
            _ => {}
        }
    }
    // root
    let roots: Vec<&str> = internal.iter().filter(|id| !has_incoming.contains(**id)).cloned().collect();
    let omitted = match filter {
        "true" => Some(false),
        "false" => Some(true),
        _ => None,
    };
    #[allow(clippy::too_many_arguments)]
    fn go<'a>(
        id: &'a str,
        decl: &HashMap<&'a str, &'a str>,
        leaf: &dyn Fn(&str) -> Option<bool>,
        t_edge: &HashMap<&'a str, &'a str>,
        f_edge: &HashMap<&'a str, &'a str>,
        names: &[String],
        n: u32,
        omitted: Option<bool>,
        memo: &mut HashMap<&'a str, Tt>,
        path: &mut Vec<&'a str>,
        visited: &mut HashSet<&'a str>,
    ) -> Result<Tt, String> {
        if let Some(b) = leaf(id) {
            return Ok(Tt::constant(n, b));
        }
        if let Some(t) = memo.get(id) {
            return Ok(t.clone());
        }
        if path.contains(&id) {
            return Err("cycle in the graph".into());
        }
        visited.insert(id);
        path.push(id);
        let label = decl[id];
        let i = names.iter().position(|x| x == label).ok_or_else(|| format!("test node labelled {:?}, not a variable of the diagram", label))? as u32;
        let mut branch = |m: &HashMap<&'a str, &'a str>, memo: &mut HashMap<&'a str, Tt>, path: &mut Vec<&'a str>, visited: &mut HashSet<&'a str>| -> Result<Tt, String> {
            match m.get(id) {
                Some(next) => go(next, decl, leaf, t_edge, f_edge, names, n, omitted, memo, path, visited),
                None => match omitted {
                    Some(b) => Ok(Tt::constant(n, b)),
                    None => Err(format!("node {} lacks an edge", id)),
                },
            }
        };
        let hi = branch(t_edge, memo, path, visited)?;
        let lo = branch(f_edge, memo, path, visited)?;
        path.pop();
        let r = Tt::var(n, i).ite(&hi, &lo);
        memo.insert(id, r.clone());
        Ok(r)
    }
    let mut visited = HashSet::new();
    let table = if internal.is_empty() {
        // a constant: exactly the kept leaf may be declared
        match (true_leaves, false_leaves, omitted) {
            (0, 0, Some(b)) => Tt::constant(n, b),
            (1, 0, _) => Tt::constant(n, true),
            (0, 1, _) => Tt::constant(n, false),
            _ => return Err(format!("constant diagram declares {:?}", dot.nodes.iter().map(|x| x.0.as_str()).collect::<Vec<_>>())),
        }
    } else {
        if roots.len() != 1 {
            return Err(format!("{} root nodes (nodes without incoming edge)", roots.len()));
        }
        go(roots[0], &decl, &is_leaf, &t_edge, &f_edge, names, n, omitted, &mut HashMap::new(), &mut Vec::new(), &mut visited)?
    };
    if visited.len() != internal.len() {
        return Err("declared node not reachable from the root".into());
    }
    // a declared leaf must be the target of some edge (unless the diagram is that leaf)
    if !internal.is_empty() {
        for (id, _) in &dot.nodes {
            if is_leaf(id).is_some() && !has_incoming.contains(id.as_str()) {
                return Err(format!("leaf {} declared but never referenced", id));
            }
        }
    }
    Ok((table, internal.len()))
}

fn parse_cmp(s: &str) -> Option<Cmp> {
    Some(match s {
        "AtMost" => Cmp::AtMost,
        "LessThan" => Cmp::LessThan,
        "AtLeast" => Cmp::AtLeast,
        "MoreThan" => Cmp::MoreThan,
        "Exactly" => Cmp::Exactly,
        _ => return None,
    })
}

fn parse_op(s: &str) -> Option<Op> {
    Some(match s {
        "And" => Op::And,
        "Or" => Op::Or,
        "Xor" => Op::Xor,
        "Nor" => Op::Nor,
        "Nand" => Op::Nand,
        "Implies" => Op::Implies,
        "ImpliesInv" => Op::ImpliesInv,
        "Iff" => Op::Iff,
        _ => return None,
    })
}

/// Rebuild the term a parse-tree export denotes (shared identical sub-terms are one node).
pub fn term_of_parse_tree(dot: &Dot) -> Result<Ast, String> {
    let mut decl: HashMap<&str, &str> = HashMap::new();
    for (id, label) in &dot.nodes {
        if decl.insert(id.as_str(), label.as_str()).is_some() {
            return Err(format!("node {} declared twice", id));
        }
    }
    let mut out: HashMap<&str, Vec<(&str, &str)>> = HashMap::new();
    let mut has_incoming: HashSet<&str> = HashSet::new();
    for (a, l, b) in &dot.edges {
        if !decl.contains_key(a.as_str()) || !decl.contains_key(b.as_str()) {
            return Err(format!("edge {} -> {} references an undeclared node", a, b));
        }
        out.entry(a.as_str()).or_default().push((l.as_str(), b.as_str()));
        has_incoming.insert(b.as_str());
    }
    let roots: Vec<&str> = dot.nodes.iter().map(|x| x.0.as_str()).filter(|id| !has_incoming.contains(id)).collect();
    if roots.len() != 1 {
        return Err(format!("{} roots in the parse tree", roots.len()));
    }
    fn child<'a>(out: &HashMap<&'a str, Vec<(&'a str, &'a str)>>, id: &str, label: &str) -> Result<&'a str, String> {
        let es: Vec<&(&str, &str)> = out.get(id).map(|v| v.iter().filter(|e| e.0 == label).collect()).unwrap_or_default();
        if es.len() != 1 {
            return Err(format!("node {} has {} edges labelled {:?}", id, es.len(), label));
        }
        Ok(es[0].1)
    }
    fn list<'a>(out: &HashMap<&'a str, Vec<(&'a str, &'a str)>>, id: &str, prefix: &str) -> Result<Vec<&'a str>, String> {
        let mut items: Vec<(usize, &str)> = Vec::new();
        for (l, t) in out.get(id).map(|v| v.as_slice()).unwrap_or(&[]) {
            if let Some(rest) = l.strip_prefix(prefix) {
                if let Some(num) = rest.strip_prefix('{').and_then(|r| r.strip_suffix('}')) {
                    if let Ok(j) = num.parse::<usize>() {
                        items.push((j, *t));
                        continue;
                    }
                }
                if prefix.is_empty() {
                    return Err(format!("unexpected edge label {:?}", l));
                }
            } else if prefix.is_empty() {
                return Err(format!("unexpected edge label {:?}", l));
            }
        }
        items.sort();
        for (k, (j, _)) in items.iter().enumerate() {
            if *j != k {
                return Err(format!("list positions of node {} are not 0..n", id));
            }
        }
        Ok(items.into_iter().map(|x| x.1).collect())
    }
    fn arity_ok(out: &HashMap<&str, Vec<(&str, &str)>>, id: &str, k: usize) -> Result<(), String> {
        let have = out.get(id).map(|v| v.len()).unwrap_or(0);
        if have != k {
            return Err(format!("node {} has {} outgoing edges, expected {}", id, have, k));
        }
        Ok(())
    }
    fn go<'a>(id: &'a str, decl: &HashMap<&'a str, &'a str>, out: &HashMap<&'a str, Vec<(&'a str, &'a str)>>, depth: usize) -> Result<Ast, String> {
        if depth > 5000 {
            return Err("parse tree too deep or cyclic".into());
        }
        let label = decl[id];
        let rec = |c: &'a str| go(c, decl, out, depth + 1);
        if let Some(op) = parse_op(label) {
            arity_ok(out, id, 2)?;
            return Ok(Ast::Bin(op, Box::new(rec(child(out, id, "L")?)?), Box::new(rec(child(out, id, "R")?)?)));
        }
        match label {
            "Not" => {
                arity_ok(out, id, 1)?;
                return Ok(Ast::Not(Box::new(rec(child(out, id, "")?)?)));
            }
            "Ite" => {
                arity_ok(out, id, 3)?;
                return Ok(Ast::Ite(Box::new(rec(child(out, id, "If")?)?), Box::new(rec(child(out, id, "Then")?)?), Box::new(rec(child(out, id, "Else")?)?)));
            }
            "False" => {
                arity_ok(out, id, 0)?;
                return Ok(Ast::False);
            }
            "True" => {
                arity_ok(out, id, 0)?;
                return Ok(Ast::True);
            }
            _ => {}
        }
        if let Some(v) = label.strip_prefix("Var ") {
            arity_ok(out, id, 0)?;
            return Ok(Ast::Var(v.to_string()));
        }
        if let Some(r) = label.strip_prefix("Ref ") {
            arity_ok(out, id, 0)?;
            return Ok(Ast::Ref(r.to_string()));
        }
        for (prefix, gfp) in [("GFP ", true), ("LFP ", false)] {
            if let Some(v) = label.strip_prefix(prefix) {
                arity_ok(out, id, 1)?;
                return Ok(Ast::Fix(v.to_string(), gfp, Box::new(rec(child(out, id, "")?)?)));
            }
        }
        for (prefix, forall) in [("Exists [", false), ("Forall [", true)] {
            if let Some(rest) = label.strip_prefix(prefix) {
                let inner = rest.strip_suffix(']').ok_or("bad quantifier label")?;
                let vs: Vec<String> = if inner.is_empty() { vec![] } else { inner.split(", ").map(|s| s.to_string()).collect() };
                arity_ok(out, id, 1)?;
                return Ok(Ast::Quant(forall, vs, Box::new(rec(child(out, id, "")?)?)));
            }
        }
        // counting: "<Cmp> <n>" or "<Cmp>"
        if let Some((c, num)) = label.split_once(' ') {
            if let (Some(cmp), Ok(nv)) = (parse_cmp(c), num.parse::<u64>()) {
                let items = list(out, id, "")?;
                arity_ok(out, id, items.len())?;
                let mut xs = Vec::new();
                for i in items {
                    xs.push(rec(i)?);
                }
                return Ok(Ast::CountConst(cmp, xs, nv));
            }
        }
        if let Some(cmp) = parse_cmp(label) {
            let ls = list(out, id, "L")?;
            let rs = list(out, id, "R")?;
            arity_ok(out, id, ls.len() + rs.len())?;
            let mut xs = Vec::new();
            for i in ls {
                xs.push(rec(i)?);
            }
            let mut ys = Vec::new();
            for i in rs {
                ys.push(rec(i)?);
            }
            return Ok(Ast::CountList(cmp, xs, ys));
        }
        Err(format!("unknown node label {:?}", label))
    }
    go(roots[0], &decl, &out, 0)
}
