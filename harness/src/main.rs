//! vh — runtime monitors for the rsbdd properties C01..C20.
//!
//!   vh <Cxx> quick|thorough          run the property's workload under its monitors
//!   vh <Cxx> --replay <file>         re-run one recorded case
//!
//! exit 0 = held on everything observed, 1 = violated (VIOLATION line), 3 = inconclusive.

mod cli;
mod conv;
mod dotread;
mod gen;
mod props;
mod puzzles;
mod refsem;
mod refsyn;
mod report;
mod shrink;
mod solve3;
mod tt;
mod util;

use report::{Ctx, Known, Stats, Tier};
use serde_json::Value;
use std::path::PathBuf;
use std::time::Instant;

fn usage() -> ! {
    eprintln!("usage: vh <C01..C20> quick|thorough | vh <Cxx> --replay <file>");
    std::process::exit(3);
}

fn main() {
    let args: Vec<String> = std::env::args().collect();
    if args.len() >= 2 && args[1] == "__wide_heap_export" {
        // helper mode of C14 (see props/c14.rs::wide_heap_child): runs on the main thread of a fresh process
        std::process::exit(props::c14::wide_heap_child(args.get(2).and_then(|s| s.parse().ok()).unwrap_or(1)));
    }
    if args.len() < 3 {
        usage();
    }
    let prop = args[1].to_uppercase();
    let verif_dir = PathBuf::from(std::env::var("VERIF_DIR").unwrap_or_else(|_| "/verif".to_string()));
    let bin_dir = PathBuf::from(std::env::var("VERIF_BIN_DIR").unwrap_or_else(|_| "/verif/.build/repo-target/release".to_string()));
    let repo_dir = PathBuf::from(std::env::var("VERIF_REPO").unwrap_or_else(|_| "/repo".to_string()));
    let seed = std::env::var("VERIF_SEED").ok().and_then(|s| s.trim().parse::<u64>().ok()).unwrap_or(1);
    let scratch = PathBuf::from(std::env::var("VERIF_SCRATCH").unwrap_or_else(|_| format!("/verif/.build/scratch/{}-{}", prop, std::process::id())));

    let (tier, replay_file) = if args[2] == "--replay" {
        if args.len() < 4 {
            usage();
        }
        (Tier::Quick, Some(PathBuf::from(&args[3])))
    } else {
        match args[2].as_str() {
            "quick" => (Tier::Quick, None),
            "thorough" => (Tier::Thorough, None),
            _ => usage(),
        }
    };

    let ctx = Ctx { prop: prop.clone(), tier, seed, verif_dir, bin_dir, repo_dir, scratch: scratch.clone(), start: Instant::now(), replaying: replay_file.is_some() };
    util::install_panic_hook();
    let _ = std::fs::create_dir_all(&scratch);
    std::env::set_var("VERIF_STUB_DIR", scratch.join("stubs"));

    let Some(p) = props::lookup(&prop) else {
        eprintln!("unknown property {}", prop);
        let _ = std::fs::remove_dir_all(&scratch);
        std::process::exit(3);
    };

    let code = if let Some(file) = replay_file {
        std::env::set_var("VERIF_REPLAY_SOURCE", file.display().to_string());
        let text = std::fs::read_to_string(&file).unwrap_or_else(|e| {
            eprintln!("cannot read replay file {}: {}", file.display(), e);
            std::process::exit(3);
        });
        let v: Value = serde_json::from_str(&text).unwrap_or_else(|e| {
            eprintln!("replay file is not JSON: {}", e);
            std::process::exit(3);
        });
        let case = v.get("case").cloned().unwrap_or(Value::Null);
        let monitor = v.get("monitor").and_then(|m| m.as_str()).unwrap_or("").to_string();
        let mut st = Stats::new();
        let ctx2 = ctx.clone();
        let st2 = util::on_big_stack(move || {
            let mut st = Stats::new();
            (p.replay)(&ctx2, &monitor, &case, &mut st);
            st
        });
        st.merge(st2);
        st.evals = st.evals.max(1);
        let spec = report::Spec { rule: "replay of one recorded case".into(), assumptions: vec![], floors: vec![] };
        if st.violations.is_empty() {
            println!("REPLAY property={} file={} : no violation reproduced", prop, file.display());
        }
        report::finish(&ctx, st, spec, &[])
    } else {
        // listed findings are replayed first, against the current tree
        let known = report::load_known(&ctx);
        let mut replayed: Vec<(Known, bool)> = Vec::new();
        for k in known {
            let still = if let Some(case) = &k.case {
                let ctx2 = ctx.clone();
                let case2 = case.clone();
                let st = util::on_big_stack(move || {
                    let mut st = Stats::new();
                    (p.replay)(&ctx2, "", &case2, &mut st);
                    st
                });
                st.viol_counts.contains_key(&k.signature)
            } else {
                false
            };
            replayed.push((k, still));
        }
        // early verdict: a recorded violation is reported even if the workload never finishes
        {
            let ctx_w = ctx.clone();
            let known_sigs: Vec<String> = replayed.iter().map(|(k, _)| k.signature.clone()).collect();
            let grace = if ctx.tier == report::Tier::Quick { 240.0 } else { 1200.0 };
            std::thread::spawn(move || loop {
                std::thread::sleep(std::time::Duration::from_secs(2));
                let (viol, since) = report::early_state();
                let unlisted: Vec<report::Violation> = viol.into_iter().filter(|v| !known_sigs.contains(&v.signature)).collect();
                let harness_failed = report::HARNESS_FAILED.load(std::sync::atomic::Ordering::SeqCst);
                if !unlisted.is_empty() && (since > grace || harness_failed) {
                    let mut st = Stats::new();
                    st.evals = 1;
                    for v in unlisted {
                        st.viol_counts.insert(v.signature.clone(), 1);
                        st.violations.push(v);
                    }
                    let spec = report::Spec { rule: format!("STOPPED EARLY: a violation had been observed and the remaining workload {} (a broken engine can make later cases arbitrarily slow, or break what the harness expects of its own operands); counts below cover only the recorded violations", if harness_failed { "ended with a panic of the harness itself".to_string() } else { format!("did not finish within {} s of it", grace) }), assumptions: vec![], floors: vec![] };
                    let code = report::finish(&ctx_w, st, spec, &[]);
                    std::process::exit(code);
                }
            });
        }
        let ctx2 = ctx.clone();
        let (mut st, spec) = util::on_big_stack(move || (p.run)(&ctx2));
        // shorten the witnesses of (a few) text-based violations; the verdict is already decided
        if std::env::var("VERIF_NO_SHRINK").is_err() {
            let known_sigs: Vec<String> = replayed.iter().map(|(k, _)| k.signature.clone()).collect();
            let todo: Vec<usize> = (0..st.violations.len()).filter(|i| !known_sigs.contains(&st.violations[*i].signature)).take(4).collect();
            for i in todo {
                let v = st.violations[i].clone();
                let ctx3 = ctx.clone();
                if let Some(smaller) = util::on_big_stack(move || shrink::shrink_violation(&ctx3, &p, &v, 150)) {
                    st.violations[i] = smaller;
                }
            }
        }
        report::finish(&ctx, st, spec, &replayed)
    };
    let _ = std::fs::remove_dir_all(&scratch);
    std::process::exit(code);
}
