//! Witness shrinking: delta debugging (ddmin) on the `text` of a violating case, re-running the
//! real code through the property's own replay function at every step. Only the witness gets
//! shorter; the verdict was already decided on the original case.

use crate::props::PropDef;
use crate::report::{Ctx, Stats, Violation};
use serde_json::Value;

fn chunks_of(text: &str) -> Vec<String> {
    // maximal runs of word characters / quotes-as-identifier chars, maximal runs of whitespace,
    // multi-character operators kept together, every other character alone
    let cs: Vec<char> = text.chars().collect();
    let mut out: Vec<String> = Vec::new();
    let mut i = 0;
    let wordish = |c: char| c == '\'' || c == '_' || c.is_alphanumeric();
    while i < cs.len() {
        let c = cs[i];
        if wordish(c) {
            let mut j = i;
            while j < cs.len() && wordish(cs[j]) {
                j += 1;
            }
            out.push(cs[i..j].iter().collect());
            i = j;
        } else if c.is_whitespace() {
            let mut j = i;
            while j < cs.len() && cs[j].is_whitespace() {
                j += 1;
            }
            out.push(cs[i..j].iter().collect());
            i = j;
        } else if c == '"' {
            // a comment is one chunk
            let mut j = i + 1;
            while j < cs.len() && cs[j] != '"' {
                j += 1;
            }
            let end = (j + 1).min(cs.len());
            out.push(cs[i..end].iter().collect());
            i = end;
        } else {
            let rest: String = cs[i..cs.len().min(i + 3)].iter().collect();
            let sym = ["<=>", "<=", "=>", ">="].iter().find(|s| rest.starts_with(**s));
            match sym {
                Some(s) => {
                    out.push(s.to_string());
                    i += s.chars().count();
                }
                None => {
                    out.push(c.to_string());
                    i += 1;
                }
            }
        }
    }
    out
}

fn ddmin(mut chunks: Vec<String>, fails: &mut dyn FnMut(&str) -> bool, budget: &mut u32) -> Vec<String> {
    let mut n = 2usize;
    while chunks.len() >= 2 && *budget > 0 {
        let len = chunks.len();
        let size = (len + n - 1) / n;
        let mut reduced = false;
        let mut start = 0;
        while start < len && *budget > 0 {
            let end = (start + size).min(len);
            let cand: Vec<String> = chunks[..start].iter().chain(chunks[end..].iter()).cloned().collect();
            if !cand.is_empty() {
                *budget -= 1;
                if fails(&cand.concat()) {
                    chunks = cand;
                    n = n.saturating_sub(1).max(2);
                    reduced = true;
                    break;
                }
            }
            start = end;
        }
        if !reduced {
            if n >= len {
                break;
            }
            n = (n * 2).min(len);
        }
    }
    chunks
}

/// Try to shorten the `text` field of a violating case. Returns a smaller violation if one is found.
pub fn shrink_violation(ctx: &Ctx, p: &PropDef, v: &Violation, max_evals: u32) -> Option<Violation> {
    let text = v.case.get("text")?.as_str()?.to_string();
    if text.chars().count() < 12 {
        return None;
    }
    let mut best: Option<Violation> = None;
    let mut budget = max_evals;
    {
        let mut fails = |cand: &str| -> bool {
            let mut case: Value = v.case.clone();
            case["text"] = Value::String(cand.to_string());
            let mut st = Stats::new();
            (p.replay)(ctx, &v.monitor, &case, &mut st);
            if let Some(nv) = st.violations.iter().find(|x| x.signature == v.signature) {
                best = Some(nv.clone());
                true
            } else {
                false
            }
        };
        let chunks = chunks_of(&text);
        let _ = ddmin(chunks, &mut fails, &mut budget);
    }
    let b = best?;
    let new_len = b.case.get("text").and_then(|t| t.as_str()).map(|t| t.chars().count()).unwrap_or(usize::MAX);
    if new_len < text.chars().count() {
        let mut b = b;
        b.message = format!("{}\n (witness shrunk from {} to {} characters by delta debugging; original text: {:?})", b.message, text.chars().count(), new_len, if text.len() > 300 { format!("{}…", text.chars().take(300).collect::<String>()) } else { text.clone() });
        Some(b)
    } else {
        None
    }
}
