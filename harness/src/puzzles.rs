//! Brute-force references for the generator properties: n-queens, sudoku, cliques, k-colouring.
//! Independent of the generators' encodings.

/// all placements of n non-attacking queens; result[r] = column of the queen in row r
pub fn queens_all(n: usize) -> Vec<Vec<usize>> {
    fn go(n: usize, row: usize, cols: &mut Vec<usize>, out: &mut Vec<Vec<usize>>) {
        if row == n {
            out.push(cols.clone());
            return;
        }
        for c in 0..n {
            let ok = cols.iter().enumerate().all(|(r, cc)| *cc != c && (row - r) != (if c > *cc { c - cc } else { cc - c }));
            if ok {
                cols.push(c);
                go(n, row + 1, cols, out);
                cols.pop();
            }
        }
    }
    let mut out = Vec::new();
    go(n, 0, &mut Vec::new(), &mut out);
    out
}

pub fn attacks(n: usize, a: usize, b: usize) -> bool {
    let (ra, ca, rb, cb) = (a / n, a % n, b / n, b % n);
    a != b && (ra == rb || ca == cb || ra.abs_diff(rb) == ca.abs_diff(cb))
}

pub fn is_queens_solution(n: usize, cols: &[usize]) -> bool {
    if cols.len() != n {
        return false;
    }
    for r1 in 0..n {
        if cols[r1] >= n {
            return false;
        }
        for r2 in (r1 + 1)..n {
            if cols[r1] == cols[r2] || (r2 - r1) == cols[r1].abs_diff(cols[r2]) {
                return false;
            }
        }
    }
    true
}

/// explicit construction of one solution for n >= 4 (verified by the caller with is_queens_solution)
pub fn queens_construct(n: usize) -> Option<Vec<usize>> {
    if n == 1 {
        return Some(vec![0]);
    }
    if n < 4 {
        return None;
    }
    let mut evens: Vec<usize> = (1..=n).filter(|x| x % 2 == 0).collect();
    let mut odds: Vec<usize> = (1..=n).filter(|x| x % 2 == 1).collect();
    match n % 6 {
        2 => {
            // swap 1 and 3, move 5 to the end
            if let (Some(p1), Some(p3)) = (odds.iter().position(|x| *x == 1), odds.iter().position(|x| *x == 3)) {
                odds.swap(p1, p3);
            }
            if let Some(p5) = odds.iter().position(|x| *x == 5) {
                let v = odds.remove(p5);
                odds.push(v);
            }
        }
        3 => {
            if let Some(p2) = evens.iter().position(|x| *x == 2) {
                let v = evens.remove(p2);
                evens.push(v);
            }
            for k in [1usize, 3] {
                if let Some(p) = odds.iter().position(|x| *x == k) {
                    let v = odds.remove(p);
                    odds.push(v);
                }
            }
        }
        _ => {}
    }
    let cols: Vec<usize> = evens.into_iter().chain(odds).map(|c| c - 1).collect();
    if is_queens_solution(n, &cols) {
        Some(cols)
    } else {
        None
    }
}

// ------------------------------------------------------------------------------------- sudoku

/// all completions of an r^2 x r^2 grid (0 = blank), up to `limit` (returns None if more)
pub fn sudoku_all(root: usize, givens: &[usize], limit: usize) -> Option<Vec<Vec<usize>>> {
    let sq = root * root;
    let cells = sq * sq;
    let mut grid: Vec<usize> = (0..cells).map(|i| givens.get(i).copied().unwrap_or(0)).collect();
    // givens must be consistent themselves
    fn conflict(grid: &[usize], root: usize, i: usize, d: usize) -> bool {
        let sq = root * root;
        let (r, c) = (i / sq, i % sq);
        for k in 0..sq {
            if k != c && grid[r * sq + k] == d {
                return true;
            }
            if k != r && grid[k * sq + c] == d {
                return true;
            }
        }
        let (br, bc) = (r / root * root, c / root * root);
        for dr in 0..root {
            for dc in 0..root {
                let j = (br + dr) * sq + bc + dc;
                if j != i && grid[j] == d {
                    return true;
                }
            }
        }
        false
    }
    for i in 0..cells {
        if grid[i] != 0 && (grid[i] > sq || conflict(&grid, root, i, grid[i])) {
            return Some(vec![]);
        }
    }
    fn go(grid: &mut Vec<usize>, root: usize, out: &mut Vec<Vec<usize>>, limit: usize) -> bool {
        let sq = root * root;
        // most constrained blank cell
        let mut best: Option<(usize, Vec<usize>)> = None;
        for i in 0..grid.len() {
            if grid[i] == 0 {
                let cands: Vec<usize> = (1..=sq).filter(|d| !conflict(grid, root, i, *d)).collect();
                if cands.is_empty() {
                    return true;
                }
                if best.as_ref().map(|b| cands.len() < b.1.len()).unwrap_or(true) {
                    let single = cands.len() == 1;
                    best = Some((i, cands));
                    if single {
                        break;
                    }
                }
            }
        }
        match best {
            None => {
                if out.len() >= limit {
                    return false;
                }
                out.push(grid.clone());
                true
            }
            Some((i, cands)) => {
                for d in cands {
                    grid[i] = d;
                    if !go(grid, root, out, limit) {
                        grid[i] = 0;
                        return false;
                    }
                }
                grid[i] = 0;
                true
            }
        }
    }
    let mut out = Vec::new();
    if go(&mut grid, root, &mut out, limit) {
        Some(out)
    } else {
        None
    }
}

/// up to `k` completions (stops searching once k are found)
pub fn sudoku_some(root: usize, givens: &[usize], k: usize) -> Vec<Vec<usize>> {
    // inconsistent givens have no completion
    let sq = root * root;
    let grid: Vec<usize> = (0..sq * sq).map(|i| givens.get(i).copied().unwrap_or(0)).collect();
    for i in 0..grid.len() {
        let d = grid[i];
        if d == 0 {
            continue;
        }
        if d > sq {
            return vec![];
        }
        let (r, c) = (i / sq, i % sq);
        for j in 0..grid.len() {
            if j != i && grid[j] == d {
                let (r2, c2) = (j / sq, j % sq);
                if r2 == r || c2 == c || (r2 / root == r / root && c2 / root == c / root) {
                    return vec![];
                }
            }
        }
    }
    // bounded search (gives up silently on hard instances: the caller then has nothing to probe)
    sudoku_first_k(root, givens, k)
}

fn sudoku_first_k(root: usize, givens: &[usize], k: usize) -> Vec<Vec<usize>> {
    let mut budget: u64 = 200_000;
    let sq = root * root;
    let cells = sq * sq;
    let mut grid: Vec<usize> = (0..cells).map(|i| givens.get(i).copied().unwrap_or(0)).collect();
    fn ok(grid: &[usize], root: usize, i: usize, d: usize) -> bool {
        let sq = root * root;
        let (r, c) = (i / sq, i % sq);
        for j in 0..sq {
            if (j != c && grid[r * sq + j] == d) || (j != r && grid[j * sq + c] == d) {
                return false;
            }
        }
        let (br, bc) = (r / root * root, c / root * root);
        for dr in 0..root {
            for dc in 0..root {
                let j = (br + dr) * sq + bc + dc;
                if j != i && grid[j] == d {
                    return false;
                }
            }
        }
        true
    }
    fn go(grid: &mut Vec<usize>, root: usize, out: &mut Vec<Vec<usize>>, k: usize, budget: &mut u64) {
        if out.len() >= k || *budget == 0 {
            return;
        }
        *budget -= 1;
        let sq = root * root;
        let mut best: Option<(usize, Vec<usize>)> = None;
        for i in 0..grid.len() {
            if grid[i] == 0 {
                let cands: Vec<usize> = (1..=sq).filter(|d| ok(grid, root, i, *d)).collect();
                if cands.is_empty() {
                    return;
                }
                if best.as_ref().map(|b| cands.len() < b.1.len()).unwrap_or(true) {
                    let single = cands.len() == 1;
                    best = Some((i, cands));
                    if single {
                        break;
                    }
                }
            }
        }
        match best {
            None => out.push(grid.clone()),
            Some((i, cands)) => {
                for d in cands {
                    grid[i] = d;
                    go(grid, root, out, k, budget);
                    if out.len() >= k || *budget == 0 {
                        break;
                    }
                }
                grid[i] = 0;
            }
        }
    }
    let mut out = Vec::new();
    go(&mut grid, root, &mut out, k, &mut budget);
    out
}

// ------------------------------------------------------------------------------------- graphs

/// adjacency over vertex indices; cliques as bitmasks
pub fn all_cliques(nv: usize, adj: &dyn Fn(usize, usize) -> bool) -> Vec<u64> {
    let mut out = Vec::new();
    for s in 0..(1u64 << nv) {
        let mut ok = true;
        'outer: for a in 0..nv {
            if (s >> a) & 1 == 0 {
                continue;
            }
            for b in (a + 1)..nv {
                if (s >> b) & 1 == 1 && !adj(a, b) {
                    ok = false;
                    break 'outer;
                }
            }
        }
        if ok {
            out.push(s);
        }
    }
    out
}

pub fn max_cliques(nv: usize, adj: &dyn Fn(usize, usize) -> bool) -> Vec<u64> {
    let all = all_cliques(nv, adj);
    let best = all.iter().map(|s| s.count_ones()).max().unwrap_or(0);
    all.into_iter().filter(|s| s.count_ones() == best).collect()
}

/// is the graph on nv vertices (edges as index pairs) properly colourable with k colours?
pub fn colourable(nv: usize, edges: &[(usize, usize)], k: usize) -> bool {
    fn go(v: usize, nv: usize, edges: &[(usize, usize)], k: usize, col: &mut Vec<usize>) -> bool {
        if v == nv {
            return true;
        }
        for c in 0..k {
            let ok = edges.iter().all(|(a, b)| {
                let other = if *a == v && *b < v {
                    Some(*b)
                } else if *b == v && *a < v {
                    Some(*a)
                } else {
                    None
                };
                other.map(|o| col[o] != c).unwrap_or(true)
            });
            if ok {
                col.push(c);
                if go(v + 1, nv, edges, k, col) {
                    return true;
                }
                col.pop();
            }
        }
        false
    }
    go(0, nv, edges, k, &mut Vec::new())
}

#[cfg(test)]
mod tests {
    use super::*;

    #[test]
    fn queens_counts() {
        assert_eq!(queens_all(1).len(), 1);
        assert_eq!(queens_all(2).len(), 0);
        assert_eq!(queens_all(3).len(), 0);
        assert_eq!(queens_all(4).len(), 2);
        assert_eq!(queens_all(6).len(), 4);
        assert_eq!(queens_all(8).len(), 92);
        for n in 4..200 {
            assert!(queens_construct(n).is_some(), "construction failed for n = {}", n);
        }
    }

    #[test]
    fn sudoku_counts() {
        assert_eq!(sudoku_all(1, &[], 10).unwrap().len(), 1);
        assert_eq!(sudoku_all(2, &[], 1000).unwrap().len(), 288);
        assert_eq!(sudoku_all(2, &[1, 1], 1000).unwrap().len(), 0);
    }

    #[test]
    fn colouring() {
        assert!(colourable(3, &[(0, 1), (1, 2), (0, 2)], 3));
        assert!(!colourable(3, &[(0, 1), (1, 2), (0, 2)], 2));
        assert!(colourable(0, &[], 0));
        assert!(!colourable(1, &[], 0));
    }
}
