//! Subprocess driver for the real binaries + parser for the truth-table dialect `rsbdd -t` prints.

use std::io::{Read, Write};
use std::path::Path;
use std::process::{Command, Stdio};
use std::time::{Duration, Instant};

#[derive(Debug, Clone)]
pub struct RunOut {
    /// exit code if the process exited normally
    pub code: Option<i32>,
    /// terminating signal otherwise
    pub signal: Option<i32>,
    pub stdout: Vec<u8>,
    pub stderr: Vec<u8>,
    /// the per-process watchdog fired (=> inconclusive for that case, never a violation)
    pub timed_out: bool,
}

impl RunOut {
    pub fn stdout_str(&self) -> String {
        String::from_utf8_lossy(&self.stdout).to_string()
    }
    pub fn stderr_str(&self) -> String {
        String::from_utf8_lossy(&self.stderr).to_string()
    }
    /// Rust panic (exit status 101) or death by signal (abort, stack overflow => SIGABRT/SIGSEGV)
    pub fn crashed(&self) -> bool {
        !self.timed_out && (self.code == Some(101) || self.signal.is_some())
    }
    /// the H1 budget fired in the binary (deterministic; case is out of budget, not judged)
    pub fn budget_exceeded(&self) -> bool {
        self.code == Some(97) && self.stderr_str().contains("VERIF-BUDGET")
    }
    pub fn ok(&self) -> bool {
        self.code == Some(0)
    }
    pub fn status_string(&self) -> String {
        if self.timed_out {
            "watchdog".to_string()
        } else if let Some(c) = self.code {
            format!("exit {}", c)
        } else {
            format!("signal {}", self.signal.unwrap_or(0))
        }
    }
    /// first line of stderr that looks like a panic message, for signatures
    pub fn panic_site(&self) -> String {
        let e = self.stderr_str();
        for l in e.lines() {
            if let Some(p) = l.find("panicked at ") {
                let rest = &l[p + 12..];
                let loc = rest.trim_end_matches(':');
                let short = loc.rfind("/src/").map(|i| &loc[i + 1..]).unwrap_or(loc);
                // drop the column
                let mut parts: Vec<&str> = short.split(':').collect();
                if parts.len() >= 3 {
                    parts.truncate(2);
                }
                return parts.join(":");
            }
        }
        if e.contains("stack overflow") {
            return "stack-overflow".to_string();
        }
        self.status_string()
    }
}

/// How the bytes of an input reach the tool. Every variant is an ordinary way of using a
/// command-line tool: a regular file, a pipe on stdin (delivered at once or in pieces, as `cat`
/// of a slow producer would), a named pipe or `/dev/stdin` given as the file argument
/// (`tool <(producer)` in a shell). Non-regular files report length 0 and deliver short reads.
#[derive(Debug, Clone, Default)]
pub struct Feed {
    /// deliver stdin in pieces of this many bytes with a short pause between them (0 = at once)
    pub stdin_chunk: usize,
    /// named pipes to create (path, content, chunk size) and feed while the tool runs
    pub fifos: Vec<(std::path::PathBuf, Vec<u8>, usize)>,
    /// standard input is this REGULAR FILE, already read up to the given offset by "an earlier
    /// reader" (`{ read header; tool; } < file` in a shell): the tool's input starts at the offset
    pub stdin_file: Option<(std::path::PathBuf, u64)>,
    /// standard output is a TERMINAL (a pseudo-terminal in raw mode, so that the bytes arrive as
    /// written) instead of a pipe: what a tool prints must not depend on who reads it
    pub stdout_tty: bool,
    /// the `gnuplot` stub is on the PATH for this run whatever the arguments hash to
    pub gnuplot_stub: bool,
    /// standard input is a TERMINAL on which the input is "typed" (line mode, no echo, no signal or
    /// editing characters), ended by the end-of-file key. Only for inputs without the byte 0x04 whose
    /// lines are shorter than the terminal's line buffer (see `typeable`).
    pub stdin_tty: bool,
}

/// Can these bytes be typed on a terminal in line mode without loss? (no end-of-file byte, lines < 1000 bytes)
pub fn typeable(data: &[u8]) -> bool {
    !data.contains(&4) && data.split(|b| *b == b'\n').all(|l| l.len() < 1000)
}

/// A pseudo-terminal pair for INPUT: canonical mode (so that the end-of-file key works), no echo,
/// no signals, no input translation, every special character except end-of-file disabled.
fn open_input_pty() -> Option<(std::fs::File, std::fs::File)> {
    use std::os::unix::io::FromRawFd;
    let (mut m, mut s): (libc::c_int, libc::c_int) = (-1, -1);
    unsafe {
        if libc::openpty(&mut m, &mut s, std::ptr::null_mut(), std::ptr::null_mut(), std::ptr::null_mut()) != 0 {
            return None;
        }
        let mut t: libc::termios = std::mem::zeroed();
        if libc::tcgetattr(s, &mut t) == 0 {
            t.c_iflag = 0;
            t.c_oflag = 0;
            t.c_lflag = libc::ICANON;
            for c in t.c_cc.iter_mut() {
                *c = 0; // _POSIX_VDISABLE
            }
            t.c_cc[libc::VEOF] = 4;
            libc::tcsetattr(s, libc::TCSANOW, &t);
        }
        Some((std::fs::File::from_raw_fd(m), std::fs::File::from_raw_fd(s)))
    }
}

/// Open a pseudo-terminal pair in raw mode. (master, slave)
fn open_raw_pty() -> Option<(std::fs::File, std::fs::File)> {
    use std::os::unix::io::FromRawFd;
    let (mut m, mut s): (libc::c_int, libc::c_int) = (-1, -1);
    unsafe {
        if libc::openpty(&mut m, &mut s, std::ptr::null_mut(), std::ptr::null_mut(), std::ptr::null_mut()) != 0 {
            return None;
        }
        let mut t: libc::termios = std::mem::zeroed();
        if libc::tcgetattr(s, &mut t) == 0 {
            libc::cfmakeraw(&mut t);
            libc::tcsetattr(s, libc::TCSANOW, &t);
        }
        Some((std::fs::File::from_raw_fd(m), std::fs::File::from_raw_fd(s)))
    }
}

fn write_chunked(w: &mut dyn Write, data: &[u8], chunk: usize) {
    if chunk == 0 {
        let _ = w.write_all(data);
        return;
    }
    for (i, piece) in data.chunks(chunk).enumerate() {
        if w.write_all(piece).is_err() || w.flush().is_err() {
            return;
        }
        if i < 64 {
            std::thread::sleep(Duration::from_micros(150));
        }
    }
}

/// Create a named pipe at `path` (replacing whatever is there). false = could not be created.
pub fn make_fifo(path: &Path) -> bool {
    use std::os::unix::ffi::OsStrExt;
    let _ = std::fs::remove_file(path);
    let Ok(c) = std::ffi::CString::new(path.as_os_str().as_bytes()) else { return false };
    unsafe { libc::mkfifo(c.as_ptr(), 0o600) == 0 }
}

fn feed_fifo(path: std::path::PathBuf, data: Vec<u8>, chunk: usize, stop: std::sync::Arc<std::sync::atomic::AtomicBool>) {
    use std::os::unix::fs::OpenOptionsExt;
    use std::sync::atomic::Ordering;
    // wait for the reader without blocking for ever if the tool never opens the pipe
    let file = loop {
        if stop.load(Ordering::SeqCst) {
            return;
        }
        match std::fs::OpenOptions::new().write(true).custom_flags(libc::O_NONBLOCK).open(&path) {
            Ok(f) => break f,
            Err(_) => std::thread::sleep(Duration::from_micros(200)),
        }
    };
    // back to blocking writes: a reader that stops reading ends with the watchdog closing its end
    use std::os::unix::io::AsRawFd;
    unsafe {
        let fl = libc::fcntl(file.as_raw_fd(), libc::F_GETFL);
        libc::fcntl(file.as_raw_fd(), libc::F_SETFL, fl & !libc::O_NONBLOCK);
    }
    let mut file = file;
    write_chunked(&mut file, &data, chunk);
}

pub fn run<A: AsRef<std::ffi::OsStr>>(bin: &Path, args: &[A], stdin: Option<&[u8]>, cwd: Option<&Path>, budget: Option<(u64, u64)>, watchdog: Duration) -> RunOut {
    run_fed(bin, args, stdin, &Feed::default(), cwd, budget, watchdog)
}

/// Run a binary with a budget (RSBDD_VERIF_BUDGET) and a generous watchdog.
/// A directory holding an executable `gnuplot` stub (created on first use, under the build directory).
pub fn stub_dir() -> Option<std::path::PathBuf> {
    use std::os::unix::fs::PermissionsExt;
    static DIR: std::sync::OnceLock<Option<std::path::PathBuf>> = std::sync::OnceLock::new();
    DIR.get_or_init(|| {
        let base = std::env::var("VERIF_STUB_DIR").map(std::path::PathBuf::from).unwrap_or_else(|_| std::env::temp_dir().join(format!("vh-stubs-{}", std::process::id())));
        std::fs::create_dir_all(&base).ok()?;
        let g = base.join("gnuplot");
        std::fs::write(&g, "#!/bin/sh\ncat >/dev/null\nexit 0\n").ok()?;
        std::fs::set_permissions(&g, std::fs::Permissions::from_mode(0o755)).ok()?;
        Some(base)
    })
    .clone()
}

/// Variables named like the options of the five tools, with values the options would accept.
pub const HOSTILE_ENV: [(&str, &str); 40] = [
    ("FILTER", "false"), ("RETAIN_CHOICES", "true"), ("BENCHMARK", "0"), ("ORDERING", "/nonexistent/ordering.txt"), ("MODEL", "true"), ("TRUTHTABLE", "true"), ("VARS", "true"),
    ("EVALUATE", "zz_from_the_environment"), ("INPUT", "/nonexistent/input.txt"), ("OUTPUT", "/dev/null"), ("DOT", "/dev/null"), ("PARSETREE", "/dev/null"), ("PLOT", "false"), ("EXPORT_ORDERING", "true"),
    ("QUEENS", "3"), ("N", "3"), ("ROOT", "1"), ("R", "1"), ("UNDIRECTED", "true"), ("ALL", "true"), ("COLORS", "2"), ("CONVERT", "/nonexistent/graph.csv"), ("COMPLETE", "true"), ("VERTICES", "2"), ("EDGES", "1"),
    ("CLAP_ENV", "1"), ("ARGS", "-t"), ("RSBDD_ARGS", "-t -m"), ("RUST_LOG", "trace"), ("NO_COLOR", "1"),
    // settings of the terminal / locale / user that have no bearing on what the tools compute
    ("COLUMNS", "10"), ("LINES", "3"), ("TERM", "dumb"), ("LANG", "tr_TR.UTF-8"), ("LC_ALL", "C"), ("HOME", "/nonexistent"), ("TMPDIR", "/nonexistent/tmp"), ("USER", "nobody"), ("CLICOLOR_FORCE", "1"), ("SEED", "7"),
];

pub fn run_fed<A: AsRef<std::ffi::OsStr>>(bin: &Path, args: &[A], stdin: Option<&[u8]>, feed: &Feed, cwd: Option<&Path>, budget: Option<(u64, u64)>, watchdog: Duration) -> RunOut {
    let stop = std::sync::Arc::new(std::sync::atomic::AtomicBool::new(false));
    for (p, _, _) in &feed.fifos {
        if !make_fifo(p) {
            return RunOut { code: None, signal: None, stdout: vec![], stderr: format!("HARNESS: cannot create named pipe {}", p.display()).into_bytes(), timed_out: true };
        }
    }
    let mut cmd = Command::new(bin);
    let positioned = feed.stdin_file.as_ref().and_then(|(p, off)| {
        use std::io::Seek;
        let mut f = std::fs::File::open(p).ok()?;
        f.seek(std::io::SeekFrom::Start(*off)).ok()?;
        Some(f)
    });
    let in_pty = if feed.stdin_tty && stdin.map_or(false, typeable) && positioned.is_none() { open_input_pty() } else { None };
    let (in_master, in_slave) = match in_pty {
        Some((m, s)) => (Some(m), Some(s)),
        None => (None, None),
    };
    let stdin_piped = stdin.is_some() && positioned.is_none() && in_master.is_none();
    let pty = if feed.stdout_tty { open_raw_pty() } else { None };
    let (mut pty_master, pty_slave) = match pty {
        Some((m, s)) => (Some(m), Some(s)),
        None => (None, None),
    };
    cmd.args(args).stdin(match (positioned, in_slave) {
        (Some(f), _) => Stdio::from(f),
        (None, Some(s)) => Stdio::from(s),
        (None, None) if stdin.is_some() => Stdio::piped(),
        _ => Stdio::null(),
    }).stdout(match pty_slave {
        Some(s) => Stdio::from(s),
        None => Stdio::piped(),
    }).stderr(Stdio::piped());
    cmd.env("RUST_BACKTRACE", "0");
    cmd.env_remove("RSBDD_VERIF_BUDGET");
    // Every second run (chosen by the arguments, so a replay does the same) starts in an
    // environment that already exports variables named like the tools' options, as a Makefile or
    // a CI job may well do (BENCHMARK=0, FILTER=.., OUTPUT=..). The tools document no reading of
    // the environment: nothing may change.
    {
        use std::os::unix::ffi::OsStrExt;
        let mut h = 0xcbf29ce484222325u64;
        for a in args {
            for b in a.as_ref().as_bytes() {
                h = (h ^ *b as u64).wrapping_mul(0x100000001b3);
            }
        }
        if h % 2 == 0 {
            for (k, v) in HOSTILE_ENV {
                cmd.env(k, v);
                cmd.env(format!("RSBDD_{}", k), v);
            }
        }
        // ... and every third run finds the external program the tools may call (`gnuplot`, for
        // rsbdd -g) on the PATH: a stub that reads its script and exits 0. Without it -g can only fail.
        if h % 3 == 0 || feed.gnuplot_stub {
            if let Some(dir) = stub_dir() {
                let path = std::env::var("PATH").unwrap_or_default();
                cmd.env("PATH", format!("{}:{}", dir.display(), path));
            }
        }
    }
    if let Some((s, f)) = budget {
        cmd.env("RSBDD_VERIF_BUDGET", format!("{},{}", s, f));
    }
    if let Some(d) = cwd {
        cmd.current_dir(d);
    }
    let mut child = match cmd.spawn() {
        Ok(c) => c,
        Err(e) => {
            return RunOut { code: None, signal: None, stdout: vec![], stderr: format!("HARNESS: cannot spawn {}: {}", bin.display(), e).into_bytes(), timed_out: true };
        }
    };
    // (the Command still holds the slave end of the pseudo-terminal: drop it so that the master sees the end)
    drop(cmd);
    let so = child.stdout.take();
    let mut se = child.stderr.take().unwrap();
    let master = pty_master.take();
    let h_out = std::thread::spawn(move || {
        let mut b = Vec::new();
        if let Some(mut m) = master {
            // a read on the master fails with EIO once the last writer has gone
            let mut buf = [0u8; 65536];
            loop {
                match m.read(&mut buf) {
                    Ok(0) | Err(_) => break,
                    Ok(n) => b.extend_from_slice(&buf[..n]),
                }
            }
        } else if let Some(mut so) = so {
            let _ = so.read_to_end(&mut b);
        }
        b
    });
    let h_err = std::thread::spawn(move || {
        let mut b = Vec::new();
        let _ = se.read_to_end(&mut b);
        b
    });
    // typing on the terminal: the lines, then the end-of-file key (twice after an unfinished line);
    // the master end stays open until the tool has exited
    let mut keep_master = None;
    if let (Some(input), Some(mut m)) = (stdin, in_master) {
        let mut data = input.to_vec();
        if !data.is_empty() && !data.ends_with(b"\n") {
            data.push(4);
        }
        data.push(4);
        let mut writer = m.try_clone().ok();
        keep_master = Some(m);
        let stop2 = std::sync::Arc::clone(&stop);
        std::thread::spawn(move || {
            if let Some(w) = writer.as_mut() {
                for line in data.split_inclusive(|b| *b == b'\n') {
                    if w.write_all(line).is_err() {
                        return;
                    }
                }
                // end-of-file is not sticky on a terminal: a reader that asks again after the end
                // waits for the user, who presses the key again — so do we, until the tool is done
                for _ in 0..2000 {
                    std::thread::sleep(Duration::from_millis(15));
                    if stop2.load(std::sync::atomic::Ordering::SeqCst) || w.write_all(&[4]).is_err() {
                        return;
                    }
                }
            }
        });
    }
    if let (Some(input), true) = (stdin, stdin_piped) {
        if let Some(mut si) = child.stdin.take() {
            let data = input.to_vec();
            let chunk = feed.stdin_chunk;
            std::thread::spawn(move || {
                write_chunked(&mut si, &data, chunk);
            });
        }
    }
    for (p, data, chunk) in &feed.fifos {
        let (p, data, chunk, stop) = (p.clone(), data.clone(), *chunk, std::sync::Arc::clone(&stop));
        std::thread::spawn(move || feed_fifo(p, data, chunk, stop));
    }
    let start = Instant::now();
    let mut timed_out = false;
    let status = loop {
        match child.try_wait() {
            Ok(Some(s)) => break Some(s),
            Ok(None) => {
                if start.elapsed() > watchdog {
                    let _ = child.kill();
                    let _ = child.wait();
                    timed_out = true;
                    break None;
                }
                let el = start.elapsed();
                std::thread::sleep(if el < Duration::from_millis(20) { Duration::from_micros(300) } else { Duration::from_millis(5) });
            }
            Err(_) => {
                timed_out = true;
                break None;
            }
        }
    };
    stop.store(true, std::sync::atomic::Ordering::SeqCst);
    drop(keep_master);
    let stdout = h_out.join().unwrap_or_default();
    let stderr = h_err.join().unwrap_or_default();
    let (code, signal) = match status {
        Some(s) => {
            use std::os::unix::process::ExitStatusExt;
            (s.code(), s.signal())
        }
        None => (None, None),
    };
    RunOut { code, signal, stdout, stderr, timed_out }
}

pub fn sargs(a: &[&str]) -> Vec<String> {
    a.iter().map(|s| s.to_string()).collect()
}

// ------------------------------------------------------------------------- truth table dialect

#[derive(Debug, Clone, PartialEq, Eq)]
pub enum Cell {
    True,
    False,
    Any,
}

#[derive(Debug, Clone)]
pub struct Table {
    /// column names without the final `*`
    pub header: Vec<String>,
    pub rows: Vec<(Vec<Cell>, bool)>,
}

/// Parse the output of `rsbdd -t`: a header line `| a | b | * |`, a rule line `|---|`, rows.
/// Returns (table, remaining lines after the table).
pub fn parse_table(lines: &[&str]) -> Result<(Table, usize), String> {
    if lines.len() < 2 {
        return Err("no table header".to_string());
    }
    let split = |l: &str| -> Result<Vec<String>, String> {
        let l = l.trim_end();
        if !l.starts_with('|') || !l.ends_with('|') {
            return Err(format!("not a table line: {:?}", l));
        }
        Ok(l[1..l.len() - 1].split('|').map(|c| c.trim().to_string()).collect())
    };
    let mut header = split(lines[0])?;
    if header.last().map(|s| s.as_str()) != Some("*") {
        return Err(format!("header does not end with `*`: {:?}", lines[0]));
    }
    header.pop();
    let rule = lines[1].trim_end();
    if !rule.starts_with("|-") || !rule.chars().all(|c| c == '|' || c == '-') {
        return Err(format!("no rule line under the header: {:?}", rule));
    }
    if rule.matches('|').count() != header.len() + 2 {
        return Err(format!("rule line has {} columns, header {}", rule.matches('|').count() - 1, header.len() + 1));
    }
    let mut rows = Vec::new();
    let mut used = 2;
    for l in &lines[2..] {
        if !l.starts_with('|') {
            break;
        }
        let cells = split(l)?;
        if cells.len() != header.len() + 1 {
            return Err(format!("row with {} cells under a header of {}: {:?}", cells.len(), header.len() + 1, l));
        }
        let mut cs = Vec::new();
        for c in &cells[..cells.len() - 1] {
            cs.push(match c.as_str() {
                "True" => Cell::True,
                "False" => Cell::False,
                "Any" => Cell::Any,
                other => return Err(format!("unknown cell {:?} in row {:?}", other, l)),
            });
        }
        let res = match cells[cells.len() - 1].as_str() {
            "True" => true,
            "False" => false,
            other => return Err(format!("unknown result cell {:?}", other)),
        };
        rows.push((cs, res));
        used += 1;
    }
    Ok((Table { header, rows }, used))
}
