//! (under construction)
