//! Bridges between the engine's public types and the reference model, plus the independent
//! canonical-form builder (DESIGN.md 2.4) and the invariant walkers (`walk`).

use crate::refsyn::{Ast, Cmp, Op, Tok};
use crate::tt::Tt;
use rsbdd::bdd::{BDDEnv, BDD};
use rsbdd::parser::{BinaryOperator, CountableOperator, QuantifierType, SymbolicBDD, SymbolicBDDToken};
use rsbdd::{BDDSymbol, NamedSymbol};
use std::collections::{HashMap, HashSet};
use std::rc::Rc;

pub fn tok_of_engine(t: &SymbolicBDDToken) -> Tok {
    use SymbolicBDDToken as E;
    match t {
        E::Var(v) => Tok::Var(v.name.as_ref().clone()),
        E::Countable(n) => Tok::Num(*n as u64),
        E::Reference(r) => Tok::Ref(r.clone()),
        E::And => Tok::And,
        E::Or => Tok::Or,
        E::Not => Tok::Not,
        E::Xor => Tok::Xor,
        E::Nor => Tok::Nor,
        E::Nand => Tok::Nand,
        E::Implies => Tok::Implies,
        E::ImpliesInv => Tok::ImpliesInv,
        E::Iff => Tok::Iff,
        E::If => Tok::If,
        E::Then => Tok::Then,
        E::Else => Tok::Else,
        E::Exists => Tok::Exists,
        E::Forall => Tok::Forall,
        E::Eq => Tok::Eq,
        E::Geq => Tok::Geq,
        E::Gt => Tok::Gt,
        E::Lt => Tok::Lt,
        E::OpenParen => Tok::LParen,
        E::CloseParen => Tok::RParen,
        E::OpenSquare => Tok::LSq,
        E::CloseSquare => Tok::RSq,
        E::Comma => Tok::Comma,
        E::False => Tok::False,
        E::True => Tok::True,
        E::LFP => Tok::Lfp,
        E::GFP => Tok::Gfp,
        E::Hash => Tok::Hash,
        E::Eof => Tok::Eof,
    }
}

fn cmp_of(c: &CountableOperator) -> Cmp {
    match c {
        CountableOperator::AtMost => Cmp::AtMost,
        CountableOperator::LessThan => Cmp::LessThan,
        CountableOperator::AtLeast => Cmp::AtLeast,
        CountableOperator::MoreThan => Cmp::MoreThan,
        CountableOperator::Exactly => Cmp::Exactly,
    }
}

fn op_of(o: &BinaryOperator) -> Op {
    match o {
        BinaryOperator::And => Op::And,
        BinaryOperator::Or => Op::Or,
        BinaryOperator::Xor => Op::Xor,
        BinaryOperator::Nor => Op::Nor,
        BinaryOperator::Nand => Op::Nand,
        BinaryOperator::Implies => Op::Implies,
        BinaryOperator::ImpliesInv => Op::ImpliesInv,
        BinaryOperator::Iff => Op::Iff,
    }
}

/// The engine's syntax tree as a reference AST (variables by NAME). `Subtree` cannot come out of
/// the parser; it is mapped to a reference with an impossible name so that comparison fails loudly.
pub fn ast_of_engine(s: &SymbolicBDD) -> Ast {
    match s {
        SymbolicBDD::False => Ast::False,
        SymbolicBDD::True => Ast::True,
        SymbolicBDD::Var(v) => Ast::Var(v.name.as_ref().clone()),
        SymbolicBDD::Not(f) => Ast::Not(Box::new(ast_of_engine(f))),
        SymbolicBDD::Quantifier(q, vs, f) => Ast::Quant(
            matches!(q, QuantifierType::Forall),
            vs.iter().map(|v| v.name.as_ref().clone()).collect(),
            Box::new(ast_of_engine(f)),
        ),
        SymbolicBDD::CountableConst(c, xs, n) => Ast::CountConst(cmp_of(c), xs.iter().map(ast_of_engine).collect(), *n as u64),
        SymbolicBDD::CountableVariable(c, xs, ys) => {
            Ast::CountList(cmp_of(c), xs.iter().map(ast_of_engine).collect(), ys.iter().map(ast_of_engine).collect())
        }
        SymbolicBDD::FixedPoint(v, init, f) => Ast::Fix(v.name.as_ref().clone(), *init, Box::new(ast_of_engine(f))),
        SymbolicBDD::Ite(a, b, c) => Ast::Ite(Box::new(ast_of_engine(a)), Box::new(ast_of_engine(b)), Box::new(ast_of_engine(c))),
        SymbolicBDD::BinaryOp(o, a, b) => Ast::Bin(op_of(o), Box::new(ast_of_engine(a)), Box::new(ast_of_engine(b))),
        SymbolicBDD::Subtree(_) => Ast::Ref("<<subtree>>".to_string()),
        SymbolicBDD::Reference(r) => Ast::Ref(r.clone()),
    }
}

/// Value of a diagram under every assignment: follow T/F edges from the root. Computed bottom-up
/// (memoised per node pointer), which is pointwise identical to walking each assignment's path.
/// `idx` maps a node label to its variable index in the universe; a label outside the universe is
/// an error string (reported by the caller as "mentions a variable outside ...").
pub fn tt_of_bdd<S: BDDSymbol>(root: &Rc<BDD<S>>, n: u32, idx: &dyn Fn(&S) -> Option<u32>) -> Result<Tt, String> {
    fn go<S: BDDSymbol>(
        node: &Rc<BDD<S>>,
        n: u32,
        idx: &dyn Fn(&S) -> Option<u32>,
        memo: &mut HashMap<*const BDD<S>, Tt>,
    ) -> Result<Tt, String> {
        match node.as_ref() {
            BDD::False => Ok(Tt::constant(n, false)),
            BDD::True => Ok(Tt::constant(n, true)),
            BDD::Choice(t, s, f) => {
                let key = Rc::as_ptr(node);
                if let Some(v) = memo.get(&key) {
                    return Ok(v.clone());
                }
                let i = idx(s).ok_or_else(|| format!("node labelled with unknown variable {}", s))?;
                let tt = go(t, n, idx, memo)?;
                let tf = go(f, n, idx, memo)?;
                let r = Tt::var(n, i).ite(&tt, &tf);
                memo.insert(key, r.clone());
                Ok(r)
            }
        }
    }
    go(root, n, idx, &mut HashMap::new())
}

/// Table of a diagram over `BDDEnv<usize>` where label k is universe variable pos(k) in `labels`.
pub fn tt_of_usize(root: &Rc<BDD<usize>>, labels: &[usize]) -> Result<Tt, String> {
    tt_of_bdd(root, labels.len() as u32, &|s: &usize| labels.iter().position(|x| x == s).map(|p| p as u32))
}

/// Table of a `NamedSymbol` diagram over a universe of names (by NAME, never by id).
pub fn tt_of_named(root: &Rc<BDD<NamedSymbol>>, names: &[String]) -> Result<Tt, String> {
    tt_of_bdd(root, names.len() as u32, &|s: &NamedSymbol| names.iter().position(|x| x == s.name.as_ref()).map(|p| p as u32))
}

/// Labels of all nodes reachable from root.
pub fn labels_of<S: BDDSymbol>(root: &Rc<BDD<S>>) -> Vec<S> {
    fn go<S: BDDSymbol>(node: &Rc<BDD<S>>, seen: &mut HashSet<*const BDD<S>>, out: &mut Vec<S>) {
        if let BDD::Choice(t, s, f) = node.as_ref() {
            if !seen.insert(Rc::as_ptr(node)) {
                return;
            }
            if !out.contains(s) {
                out.push(s.clone());
            }
            go(t, seen, out);
            go(f, seen, out);
        }
    }
    let mut out = Vec::new();
    go(root, &mut HashSet::new(), &mut out);
    out
}

/// Independent canonical form: reduced ordered diagram of table `t`, built with plain `Rc::new`
/// values (no BDDEnv, no mk_choice). `vars` = (label, universe index), strictly ascending by label.
pub fn build_ref<S: BDDSymbol>(t: &Tt, vars: &[(S, u32)]) -> Rc<BDD<S>> {
    for w in vars.windows(2) {
        assert!(w[0].0 < w[1].0, "build_ref: labels must be strictly ascending");
    }
    fn go<S: BDDSymbol>(t: &Tt, vars: &[(S, u32)], k: usize, memo: &mut HashMap<(usize, Tt), Rc<BDD<S>>>) -> Rc<BDD<S>> {
        if t.is_true() {
            return Rc::new(BDD::True);
        }
        if t.is_false() {
            return Rc::new(BDD::False);
        }
        assert!(k < vars.len(), "build_ref: table depends on a variable outside the label list");
        if let Some(r) = memo.get(&(k, t.clone())) {
            return Rc::clone(r);
        }
        let (s, i) = &vars[k];
        let t0 = t.cofactor(*i, false);
        let t1 = t.cofactor(*i, true);
        let r = if t0 == t1 {
            go(&t0, vars, k + 1, memo)
        } else {
            let hi = go(&t1, vars, k + 1, memo);
            let lo = go(&t0, vars, k + 1, memo);
            Rc::new(BDD::Choice(hi, s.clone(), lo))
        };
        memo.insert((k, t.clone()), Rc::clone(&r));
        r
    }
    go(t, vars, 0, &mut HashMap::new())
}

/// Build a function inside an environment, bottom-up through `mk_choice` only (route "mk").
pub fn build_in_env<S: BDDSymbol>(env: &BDDEnv<S>, t: &Tt, vars: &[(S, u32)]) -> Rc<BDD<S>> {
    fn go<S: BDDSymbol>(env: &BDDEnv<S>, t: &Tt, vars: &[(S, u32)], k: usize) -> Rc<BDD<S>> {
        if t.is_true() {
            return env.mk_const(true);
        }
        if t.is_false() {
            return env.mk_const(false);
        }
        assert!(k < vars.len());
        let (s, i) = &vars[k];
        let t0 = t.cofactor(*i, false);
        let t1 = t.cofactor(*i, true);
        if t0 == t1 {
            go(env, &t0, vars, k + 1)
        } else {
            let hi = go(env, &t1, vars, k + 1);
            let lo = go(env, &t0, vars, k + 1);
            env.mk_choice(hi, s.clone(), lo)
        }
    }
    go(env, t, vars, 0)
}

// ------------------------------------------------------------------------------------- walkers

/// Ordered (labels strictly increase along every path) and reduced (no node with equal children).
/// Returns the number of distinct internal nodes (by pointer) visited.
pub fn check_ordered_reduced<S: BDDSymbol>(root: &Rc<BDD<S>>) -> Result<u64, String> {
    fn go<S: BDDSymbol>(node: &Rc<BDD<S>>, above: Option<&S>, seen: &mut HashSet<*const BDD<S>>) -> Result<(), String> {
        if let BDD::Choice(t, s, f) = node.as_ref() {
            if let Some(a) = above {
                if !(a < s) {
                    return Err(format!("not ordered: node {} below node {}", s, a));
                }
            }
            if !seen.insert(Rc::as_ptr(node)) {
                return Ok(());
            }
            if t.as_ref() == f.as_ref() {
                return Err(format!("not reduced: node {} has identical children", s));
            }
            go(t, Some(s), seen)?;
            go(f, Some(s), seen)?;
        }
        Ok(())
    }
    let mut seen = HashSet::new();
    go(root, None, &mut seen)?;
    Ok(seen.len() as u64)
}

/// Every node reachable from `root` is THE node the environment's unique table holds for that
/// structure (pointer identity), leaves included. Returns nodes visited.
pub fn check_interned<S: BDDSymbol>(env: &BDDEnv<S>, root: &Rc<BDD<S>>) -> Result<u64, String> {
    fn go<S: BDDSymbol>(env: &BDDEnv<S>, node: &Rc<BDD<S>>, seen: &mut HashSet<*const BDD<S>>) -> Result<(), String> {
        if !seen.insert(Rc::as_ptr(node)) {
            return Ok(());
        }
        {
            let tbl = env.nodes.borrow();
            match tbl.get(node.as_ref()) {
                None => return Err(format!("reachable node not in unique table: {}", short(node))),
                Some(entry) => {
                    if !Rc::ptr_eq(entry, node) {
                        return Err(format!("reachable node is a second copy of a table node: {}", short(node)));
                    }
                }
            }
        }
        if let BDD::Choice(t, _, f) = node.as_ref() {
            go(env, t, seen)?;
            go(env, f, seen)?;
        }
        Ok(())
    }
    let mut seen = HashSet::new();
    go(env, root, &mut seen)?;
    Ok(seen.len() as u64)
}

/// The unique table itself: both leaves present; key == value structure; children of every entry
/// are the table's own nodes; every entry ordered + reduced. Returns the number of entries.
pub fn check_table<S: BDDSymbol>(env: &BDDEnv<S>) -> Result<u64, String> {
    let tbl = env.nodes.borrow();
    if !tbl.contains_key(&BDD::True) || !tbl.contains_key(&BDD::False) {
        return Err("unique table lacks a leaf".to_string());
    }
    for (k, v) in tbl.iter() {
        if k != v.as_ref() {
            return Err(format!("table key differs from its value: {}", short(v)));
        }
        if let BDD::Choice(t, s, f) = v.as_ref() {
            for c in [t, f] {
                match tbl.get(c.as_ref()) {
                    None => return Err(format!("child of table node {} is not in the table", s)),
                    Some(e) => {
                        if !Rc::ptr_eq(e, c) {
                            return Err(format!("child of table node {} is a second copy", s));
                        }
                    }
                }
                if let BDD::Choice(_, cs, _) = c.as_ref() {
                    if !(s < cs) {
                        return Err(format!("table node {} has child {} (not ordered)", s, cs));
                    }
                }
            }
            if t.as_ref() == f.as_ref() {
                return Err(format!("table node {} has identical children (not reduced)", s));
            }
        }
    }
    Ok(tbl.len() as u64)
}

/// Plain deep copy sharing nothing with any environment (snapshot of an operand).
pub fn deep_copy<S: BDDSymbol>(node: &Rc<BDD<S>>) -> Rc<BDD<S>> {
    fn go<S: BDDSymbol>(node: &Rc<BDD<S>>, memo: &mut HashMap<*const BDD<S>, Rc<BDD<S>>>) -> Rc<BDD<S>> {
        match node.as_ref() {
            BDD::False => Rc::new(BDD::False),
            BDD::True => Rc::new(BDD::True),
            BDD::Choice(t, s, f) => {
                if let Some(r) = memo.get(&Rc::as_ptr(node)) {
                    return Rc::clone(r);
                }
                let r = Rc::new(BDD::Choice(go(t, memo), s.clone(), go(f, memo)));
                memo.insert(Rc::as_ptr(node), Rc::clone(&r));
                r
            }
        }
    }
    go(node, &mut HashMap::new())
}

pub fn count_nodes<S: BDDSymbol>(root: &Rc<BDD<S>>) -> u64 {
    fn go<S: BDDSymbol>(node: &Rc<BDD<S>>, seen: &mut HashSet<*const BDD<S>>) {
        if !seen.insert(Rc::as_ptr(node)) {
            return;
        }
        if let BDD::Choice(t, _, f) = node.as_ref() {
            go(t, seen);
            go(f, seen);
        }
    }
    let mut seen = HashSet::new();
    go(root, &mut seen);
    seen.len() as u64
}

/// Short printable form of a diagram (for messages / replay files).
pub fn short<S: BDDSymbol>(node: &Rc<BDD<S>>) -> String {
    fn go<S: BDDSymbol>(node: &Rc<BDD<S>>, out: &mut String, budget: &mut i32) {
        if *budget <= 0 {
            out.push('…');
            return;
        }
        *budget -= 1;
        match node.as_ref() {
            BDD::False => out.push('0'),
            BDD::True => out.push('1'),
            BDD::Choice(t, s, f) => {
                out.push_str(&format!("({}?", s));
                go(t, out, budget);
                out.push(':');
                go(f, out, budget);
                out.push(')');
            }
        }
    }
    let mut s = String::new();
    let mut b = 60;
    go(node, &mut s, &mut b);
    s
}


/// Number of nodes of a diagram (by address) that are structurally equal to another node of the
/// same diagram at a different address: 0 for a diagram that is reduced at node level.
pub fn structural_twins<S: BDDSymbol>(root: &Rc<BDD<S>>) -> u64 {
    fn go<'a, S: BDDSymbol>(node: &'a Rc<BDD<S>>, seen: &mut HashSet<*const BDD<S>>, by_structure: &mut std::collections::HashMap<&'a BDD<S>, *const BDD<S>>, twins: &mut u64) {
        if !seen.insert(Rc::as_ptr(node)) {
            return;
        }
        if let BDD::Choice(t, _, f) = node.as_ref() {
            match by_structure.get(node.as_ref()) {
                Some(p) if *p != Rc::as_ptr(node) => *twins += 1,
                Some(_) => {}
                None => {
                    by_structure.insert(node.as_ref(), Rc::as_ptr(node));
                }
            }
            go(t, seen, by_structure, twins);
            go(f, seen, by_structure, twins);
        }
    }
    let mut seen = HashSet::new();
    let mut by_structure = std::collections::HashMap::new();
    let mut twins = 0;
    go(root, &mut seen, &mut by_structure, &mut twins);
    twins
}
