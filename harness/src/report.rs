//! Run context, statistics, verdicts, evidence files, known findings, replay files.

use serde_json::{json, Map, Value};
use std::collections::{BTreeMap, HashSet};
use std::path::PathBuf;
use std::time::Instant;

#[derive(Debug, Clone, Copy, PartialEq, Eq)]
pub enum Tier {
    Quick,
    Thorough,
}

impl Tier {
    pub fn name(self) -> &'static str {
        match self {
            Tier::Quick => "quick",
            Tier::Thorough => "thorough",
        }
    }
    /// pick by tier
    pub fn pick<T>(self, q: T, t: T) -> T {
        match self {
            Tier::Quick => q,
            Tier::Thorough => t,
        }
    }
}

#[derive(Debug, Clone)]
pub struct Ctx {
    pub prop: String,
    pub tier: Tier,
    pub seed: u64,
    pub verif_dir: PathBuf,
    pub bin_dir: PathBuf,
    pub repo_dir: PathBuf,
    pub scratch: PathBuf,
    pub start: Instant,
    /// replay mode: no evidence file is written
    pub replaying: bool,
}

static DIR_COUNTER: std::sync::atomic::AtomicU64 = std::sync::atomic::AtomicU64::new(0);

impl Ctx {
    pub fn bin(&self, name: &str) -> PathBuf {
        self.bin_dir.join(name)
    }
    /// a scratch directory name that no other worker of this process uses (never shared, so
    /// concurrent cases cannot remove each other's files)
    pub fn fresh_dir(&self, prefix: &str) -> PathBuf {
        let k = DIR_COUNTER.fetch_add(1, std::sync::atomic::Ordering::SeqCst);
        self.scratch.join(format!("{}-u{}", prefix, k))
    }
}

#[derive(Debug, Clone)]
pub struct Violation {
    /// which monitor fired
    pub monitor: String,
    /// stable identification used for de-duplication and known-finding matching
    pub signature: String,
    /// human readable: expected vs observed
    pub message: String,
    /// self-contained input that `--replay` can re-run
    pub case: Value,
}

#[derive(Debug, Default)]
pub struct Stats {
    pub evals: u64,
    pub nt: HashSet<u64>,
    pub counters: BTreeMap<String, u64>,
    pub samples: Vec<Value>,
    pub violations: Vec<Violation>,
    pub viol_counts: BTreeMap<String, u64>,
    pub inconclusive: Vec<String>,
    pub exhaustive: Vec<String>,
}

const MAX_SAMPLES: usize = 8;
const MAX_VIOLATIONS_KEPT: usize = 40;

impl Stats {
    pub fn new() -> Stats {
        Stats::default()
    }
    pub fn bump(&mut self, k: &str) {
        *self.counters.entry(k.to_string()).or_insert(0) += 1;
    }
    pub fn add(&mut self, k: &str, n: u64) {
        *self.counters.entry(k.to_string()).or_insert(0) += n;
    }
    pub fn max(&mut self, k: &str, n: u64) {
        let e = self.counters.entry(k.to_string()).or_insert(0);
        if n > *e {
            *e = n;
        }
    }
    pub fn get(&self, k: &str) -> u64 {
        self.counters.get(k).copied().unwrap_or(0)
    }
    pub fn sample(&mut self, v: Value) {
        if self.samples.len() < MAX_SAMPLES {
            self.samples.push(v);
        }
    }
    pub fn want_sample(&self) -> bool {
        self.samples.len() < MAX_SAMPLES
    }
    pub fn violate(&mut self, monitor: &str, signature: String, message: String, case: Value) {
        // exceeding the logical STEP budget (H1) is never a verdict: the case is out of budget
        if signature.contains("budget:steps") {
            self.bump("step_budget_exceeded(inconclusive case)");
            return;
        }
        early_record(monitor, &signature, &message, &case);
        let c = self.viol_counts.entry(signature.clone()).or_insert(0);
        *c += 1;
        if *c == 1 && self.violations.len() < MAX_VIOLATIONS_KEPT {
            self.violations.push(Violation { monitor: monitor.to_string(), signature, message, case });
        }
    }
    pub fn inconclusive(&mut self, why: String) {
        if !self.inconclusive.contains(&why) && self.inconclusive.len() < 20 {
            self.inconclusive.push(why);
        }
    }
    pub fn merge(&mut self, o: Stats) {
        self.evals += o.evals;
        self.nt.extend(o.nt);
        for (k, v) in o.counters {
            if k.starts_with("max_") {
                let e = self.counters.entry(k).or_insert(0);
                if v > *e {
                    *e = v;
                }
            } else {
                *self.counters.entry(k).or_insert(0) += v;
            }
        }
        for s in o.samples {
            self.sample(s);
        }
        for v in o.violations {
            let already = self.violations.iter().any(|x| x.signature == v.signature);
            if !already && self.violations.len() < MAX_VIOLATIONS_KEPT {
                self.violations.push(v);
            }
        }
        for (k, v) in o.viol_counts {
            *self.viol_counts.entry(k).or_insert(0) += v;
        }
        for w in o.inconclusive {
            self.inconclusive(w);
        }
        for e in o.exhaustive {
            if !self.exhaustive.contains(&e) {
                self.exhaustive.push(e);
            }
        }
    }
}

pub fn merge_all(parts: Vec<Stats>) -> Stats {
    let mut s = Stats::new();
    for p in parts {
        s.merge(p);
    }
    s
}

// ------------------------------------------------------------------------------ known findings

#[derive(Debug, Clone)]
pub struct Known {
    pub property: String,
    pub signature: String,
    pub case: Option<Value>,
    pub what: String,
}

/// `known: property=C16 signature=<sig> [case=<json>] what=<text to end of line>`
/// `fixed: property=C12 <commit> <what failed>`   (suppresses nothing; ignored here)
pub fn load_known(ctx: &Ctx) -> Vec<Known> {
    let path = ctx.verif_dir.join("KNOWN_FINDINGS.txt");
    let text = std::fs::read_to_string(path).unwrap_or_default();
    let mut out = Vec::new();
    for line in text.lines() {
        let line = line.trim();
        let Some(rest) = line.strip_prefix("known:") else { continue };
        let rest = rest.trim();
        let field = |name: &str| -> Option<String> {
            let key = format!("{}=", name);
            let start = rest.find(&key)? + key.len();
            let tail = &rest[start..];
            Some(tail.to_string())
        };
        let property = field("property").map(|s| s.split_whitespace().next().unwrap_or("").to_string()).unwrap_or_default();
        let signature = field("signature").map(|s| s.split_whitespace().next().unwrap_or("").to_string()).unwrap_or_default();
        let what = field("what").unwrap_or_default();
        let case = field("case").and_then(|tail| {
            // JSON value runs up to " what="
            let end = tail.find(" what=").unwrap_or(tail.len());
            serde_json::from_str::<Value>(&tail[..end]).ok()
        });
        if !property.is_empty() && !signature.is_empty() {
            out.push(Known { property, signature, case, what });
        }
    }
    out.into_iter().filter(|k| k.property == ctx.prop).collect()
}

// ------------------------------------------------------------------------------------- verdict

pub struct Spec {
    /// how cases are generated and what makes one distinct & non-trivial
    pub rule: String,
    pub assumptions: Vec<String>,
    /// counters that must reach a minimum or the run is inconclusive: (counter, minimum, why)
    pub floors: Vec<(String, u64, String)>,
}

/// Write evidence, print verdict lines, return the exit code (0 held, 1 violated, 3 inconclusive).
// ------------------------------------------------------------------------- early verdict
// A violation that has been observed is a verdict even if the rest of the workload never ends (a
// broken engine can make later cases astronomically slow: structural hashing of a blown-up diagram
// has no step counter to stop it). Every recorded violation is therefore also kept process-wide;
// `main` watches this list and, when the run does not finish within a grace period after the first
// entry, reports what was observed and exits.
static EARLY: std::sync::Mutex<Vec<Violation>> = std::sync::Mutex::new(Vec::new());
static EARLY_FIRST: std::sync::OnceLock<std::time::Instant> = std::sync::OnceLock::new();

fn early_record(monitor: &str, signature: &str, message: &str, case: &Value) {
    if let Ok(mut g) = EARLY.lock() {
        if g.len() < 8 && !g.iter().any(|v| v.signature == signature) {
            g.push(Violation { monitor: monitor.to_string(), signature: signature.to_string(), message: message.to_string(), case: case.clone() });
            let _ = EARLY_FIRST.set(std::time::Instant::now());
        }
    }
}

/// (violations recorded so far, seconds since the first one)
/// Set when a thread of the harness itself has panicked (an expectation of the harness about its own
/// operands failed — a broken engine can do that). If violations had been recorded by then, they are
/// what was observed and are reported; otherwise the run is inconclusive.
pub static HARNESS_FAILED: std::sync::atomic::AtomicBool = std::sync::atomic::AtomicBool::new(false);

pub fn early_state() -> (Vec<Violation>, f64) {
    let v = EARLY.lock().map(|g| g.clone()).unwrap_or_default();
    let t = EARLY_FIRST.get().map(|i| i.elapsed().as_secs_f64()).unwrap_or(0.0);
    (v, t)
}

pub fn finish(ctx: &Ctx, mut st: Stats, spec: Spec, known_replayed: &[(Known, bool)]) -> i32 {
    let known = load_known(ctx);
    let wall = ctx.start.elapsed().as_secs_f64();

    // coverage floors
    for (k, min, why) in &spec.floors {
        let have = if k == "distinct_nontrivial" { st.nt.len() as u64 } else if k == "evaluations" { st.evals } else { st.get(k) };
        if have < *min {
            st.inconclusive(format!("coverage floor not met: {} = {} < {} ({})", k, have, min, why));
        }
    }

    let mut unlisted: Vec<&Violation> = Vec::new();
    let mut known_hit: BTreeMap<String, u64> = BTreeMap::new();
    for v in &st.violations {
        if known.iter().any(|k| k.signature == v.signature) {
            *known_hit.entry(v.signature.clone()).or_insert(0) += st.viol_counts.get(&v.signature).copied().unwrap_or(1);
        } else {
            unlisted.push(v);
        }
    }

    // KNOWN-FINDING lines: one per listed finding that still reproduces (replayed at start) or was hit
    let mut printed: HashSet<String> = HashSet::new();
    for (k, still_fails) in known_replayed {
        if *still_fails || known_hit.contains_key(&k.signature) {
            if printed.insert(k.signature.clone()) {
                println!("KNOWN-FINDING: property={} {} [signature={}]", ctx.prop, k.what, k.signature);
            }
        } else {
            println!("NOTE: listed finding no longer reproduces: property={} signature={}", ctx.prop, k.signature);
        }
    }
    for k in &known {
        if known_hit.contains_key(&k.signature) && printed.insert(k.signature.clone()) {
            println!("KNOWN-FINDING: property={} {} [signature={}]", ctx.prop, k.what, k.signature);
        }
    }

    // replay files + VIOLATION lines
    let mut replay_paths = Vec::new();
    if !unlisted.is_empty() {
        let dir = ctx.verif_dir.join("replays");
        let _ = std::fs::create_dir_all(&dir);
        for (i, v) in unlisted.iter().enumerate() {
            if ctx.replaying {
                // re-running a recorded case: point at the file being replayed, do not overwrite it
                let src = std::env::var("VERIF_REPLAY_SOURCE").unwrap_or_else(|_| "<replayed case>".to_string());
                println!("VIOLATION property={} replay={}", ctx.prop, src);
                println!("  monitor={} signature={}", v.monitor, v.signature);
                for l in v.message.lines().take(12) {
                    println!("  {}", l);
                }
                continue;
            }
            let path = dir.join(format!("{}-{}-seed{}-{}.json", ctx.prop, ctx.tier.name(), ctx.seed, i));
            let body = json!({
                "property": ctx.prop,
                "monitor": v.monitor,
                "signature": v.signature,
                "message": v.message,
                "seed": ctx.seed,
                "tier": ctx.tier.name(),
                "occurrences": st.viol_counts.get(&v.signature).copied().unwrap_or(1),
                "case": v.case,
            });
            let _ = std::fs::write(&path, serde_json::to_string_pretty(&body).unwrap_or_default());
            replay_paths.push(path.clone());
            println!("VIOLATION property={} replay={}", ctx.prop, path.display());
            println!("  monitor={} signature={}", v.monitor, v.signature);
            for l in v.message.lines().take(12) {
                println!("  {}", l);
            }
        }
    }

    let verdict = if !unlisted.is_empty() {
        "violated"
    } else if !st.inconclusive.is_empty() {
        "inconclusive"
    } else {
        "held"
    };

    if verdict == "inconclusive" {
        for w in &st.inconclusive {
            println!("INCONCLUSIVE property={} reason={}", ctx.prop, w);
        }
    }

    // evidence
    if !ctx.replaying {
        let mut observed = Map::new();
        for (k, v) in &st.counters {
            observed.insert(k.clone(), json!(v));
        }
        let mut coverage = Map::new();
        coverage.insert("evaluations".into(), json!(st.evals));
        coverage.insert("distinct_nontrivial".into(), json!(st.nt.len() as u64));
        coverage.insert("rule".into(), json!(spec.rule));
        coverage.insert("samples".into(), Value::Array(st.samples.clone()));
        coverage.insert("observed".into(), Value::Object(observed));
        coverage.insert("exhaustive".into(), json!(!st.exhaustive.is_empty()));
        coverage.insert("exhaustive_subspaces".into(), json!(st.exhaustive));
        coverage.insert("verdict".into(), json!(verdict));
        coverage.insert(
            "violation_signatures".into(),
            json!(st.viol_counts.iter().map(|(k, v)| json!({"signature": k, "occurrences": v, "listed_as_known": known.iter().any(|x| &x.signature == k)})).collect::<Vec<_>>()),
        );
        coverage.insert("inconclusive_reasons".into(), json!(st.inconclusive));
        coverage.insert("replay_files".into(), json!(replay_paths.iter().map(|p| p.display().to_string()).collect::<Vec<_>>()));
        let ev = json!({
            "property_id": ctx.prop,
            "tier": ctx.tier.name(),
            "seed": ctx.seed,
            "level": "exploration",
            "coverage": Value::Object(coverage),
            "assumptions": spec.assumptions,
            "wall_s": (wall * 1000.0).round() / 1000.0,
            "violations": unlisted.len(),
        });
        let dir = std::env::var("VERIF_EVIDENCE_DIR").map(PathBuf::from).unwrap_or_else(|_| ctx.verif_dir.join("evidence"));
        let _ = std::fs::create_dir_all(&dir);
        let path = dir.join(format!("{}.json", ctx.prop));
        if let Err(e) = std::fs::write(&path, serde_json::to_string_pretty(&ev).unwrap_or_default() + "\n") {
            eprintln!("HARNESS-ERROR cannot write evidence {}: {}", path.display(), e);
            return 3;
        }
    }

    println!(
        "{} property={} tier={} seed={} evaluations={} distinct_nontrivial={} violations={} known_hits={} wall_s={:.1}",
        verdict.to_uppercase(),
        ctx.prop,
        ctx.tier.name(),
        ctx.seed,
        st.evals,
        st.nt.len(),
        unlisted.len(),
        known_hit.values().sum::<u64>(),
        wall
    );

    match verdict {
        "violated" => 1,
        "inconclusive" => 3,
        _ => 0,
    }
}
