//! REFERENCE syntax of the rsbdd formula language: tokenizer, grammar, AST.
//!
//! Written from README + property statements (DESIGN.md section 2.1 / 2.2). Shares no code with
//! /repo; the `regex` crate is used only as the *definition* of the character classes `\w` / `\d`.

use regex::Regex;
use std::sync::OnceLock;

#[derive(Debug, Clone, PartialEq, Eq, Hash)]
pub enum Tok {
    Var(String),
    Num(u64),
    Ref(String),
    And,
    Or,
    Not,
    Xor,
    Nor,
    Nand,
    Implies,
    ImpliesInv, // `<=` : reverse implication or at-most
    Iff,
    If,
    Then,
    Else,
    Exists,
    Forall,
    Eq,
    Geq,
    Gt,
    Lt,
    LParen,
    RParen,
    LSq,
    RSq,
    Comma,
    False,
    True,
    Lfp,
    Gfp,
    Hash,
    Eof,
}

#[derive(Debug, Clone, PartialEq, Eq)]
pub enum LexError {
    /// a digit run that is not an ASCII decimal number fitting the machine integer
    BadNumber(String),
}

fn class_regexes() -> &'static (Regex, Regex) {
    static R: OnceLock<(Regex, Regex)> = OnceLock::new();
    R.get_or_init(|| (Regex::new(r"^\w$").unwrap(), Regex::new(r"^\d$").unwrap()))
}

pub fn is_word(c: char) -> bool {
    if c.is_ascii() {
        return c.is_ascii_alphanumeric() || c == '_';
    }
    let mut b = [0u8; 4];
    class_regexes().0.is_match(c.encode_utf8(&mut b))
}

pub fn is_digit(c: char) -> bool {
    if c.is_ascii() {
        return c.is_ascii_digit();
    }
    let mut b = [0u8; 4];
    class_regexes().1.is_match(c.encode_utf8(&mut b))
}

fn is_ident_char(c: char) -> bool {
    c == '\'' || is_word(c)
}

const SYMBOLS: [(&str, Tok); 20] = [
    ("<=>", Tok::Iff),
    ("<=", Tok::ImpliesInv),
    ("=>", Tok::Implies),
    (">=", Tok::Geq),
    ("!", Tok::Not),
    ("&", Tok::And),
    ("-", Tok::Not),
    ("|", Tok::Or),
    ("^", Tok::Xor),
    ("#", Tok::Hash),
    ("*", Tok::And),
    ("+", Tok::Or),
    ("=", Tok::Eq),
    (">", Tok::Gt),
    ("<", Tok::Lt),
    ("[", Tok::LSq),
    ("]", Tok::RSq),
    (",", Tok::Comma),
    ("(", Tok::LParen),
    (")", Tok::RParen),
];

pub fn keyword(word: &str) -> Option<Tok> {
    Some(match word {
        "false" => Tok::False,
        "true" => Tok::True,
        "not" => Tok::Not,
        "and" => Tok::And,
        "or" => Tok::Or,
        "xor" => Tok::Xor,
        "nor" => Tok::Nor,
        "nand" => Tok::Nand,
        "implies" | "in" => Tok::Implies,
        "iff" | "eq" => Tok::Iff,
        "exists" | "any" => Tok::Exists,
        "forall" | "all" => Tok::Forall,
        "if" => Tok::If,
        "then" => Tok::Then,
        "else" => Tok::Else,
        "gfp" | "nu" => Tok::Gfp,
        "lfp" | "mu" => Tok::Lfp,
        _ => return None,
    })
}

/// Tokenize by the rules of DESIGN.md 2.1. Always ends with exactly one `Eof`.
pub fn tokenize(src: &str) -> Result<Vec<Tok>, LexError> {
    let chars: Vec<char> = src.chars().collect();
    let n = chars.len();
    let mut out = Vec::new();
    let mut p = 0usize;
    'outer: while p < n {
        // 1. symbols, longest match (the table lists longer spellings first)
        for (s, t) in SYMBOLS.iter() {
            let sc: Vec<char> = s.chars().collect();
            if p + sc.len() <= n && chars[p..p + sc.len()] == sc[..] {
                out.push(t.clone());
                p += sc.len();
                continue 'outer;
            }
        }
        let c = chars[p];
        // 2. number: maximal run of digits
        if is_digit(c) {
            let mut q = p;
            while q < n && is_digit(chars[q]) {
                q += 1;
            }
            let text: String = chars[p..q].iter().collect();
            if !text.chars().all(|c| c.is_ascii_digit()) {
                return Err(LexError::BadNumber(text));
            }
            match text.parse::<u64>() {
                Ok(v) => out.push(Tok::Num(v)),
                Err(_) => return Err(LexError::BadNumber(text)),
            }
            p = q;
            continue;
        }
        // 3. reference: `{` word `}`
        if c == '{' {
            let mut q = p + 1;
            while q < n && is_ident_char(chars[q]) {
                q += 1;
            }
            if q > p + 1 && q < n && chars[q] == '}' {
                out.push(Tok::Ref(chars[p + 1..q].iter().collect()));
                p = q + 1;
                continue;
            }
            p += 1; // separator
            continue;
        }
        // 4. identifier / keyword
        if is_ident_char(c) {
            let mut q = p;
            while q < n && is_ident_char(chars[q]) {
                q += 1;
            }
            let word: String = chars[p..q].iter().collect();
            match keyword(&word) {
                Some(t) => out.push(t),
                None => out.push(Tok::Var(word)),
            }
            p = q;
            continue;
        }
        // 5. comment
        if c == '"' {
            if let Some(off) = chars[p + 1..].iter().position(|x| *x == '"') {
                p = p + 1 + off + 1;
                continue;
            }
            p += 1; // unmatched quote: separator
            continue;
        }
        // 6. separator
        p += 1;
    }
    out.push(Tok::Eof);
    Ok(out)
}

#[derive(Debug, Clone, Copy, PartialEq, Eq, Hash, PartialOrd, Ord)]
pub enum Op {
    And,
    Or,
    Xor,
    Nor,
    Nand,
    Implies,
    ImpliesInv,
    Iff,
}

pub const ALL_OPS: [Op; 8] = [Op::And, Op::Or, Op::Xor, Op::Nor, Op::Nand, Op::Implies, Op::ImpliesInv, Op::Iff];

#[derive(Debug, Clone, Copy, PartialEq, Eq, Hash, PartialOrd, Ord)]
pub enum Cmp {
    AtMost,   // <=
    LessThan, // <
    AtLeast,  // >=
    MoreThan, // >
    Exactly,  // =
}

pub const ALL_CMPS: [Cmp; 5] = [Cmp::AtMost, Cmp::LessThan, Cmp::AtLeast, Cmp::MoreThan, Cmp::Exactly];

#[derive(Debug, Clone, PartialEq, Eq, Hash)]
pub enum Ast {
    False,
    True,
    Var(String),
    Ref(String),
    Not(Box<Ast>),
    /// (is_forall, names, body)
    Quant(bool, Vec<String>, Box<Ast>),
    CountConst(Cmp, Vec<Ast>, u64),
    CountList(Cmp, Vec<Ast>, Vec<Ast>),
    /// (name, is_gfp, body)
    Fix(String, bool, Box<Ast>),
    Ite(Box<Ast>, Box<Ast>, Box<Ast>),
    Bin(Op, Box<Ast>, Box<Ast>),
}

#[derive(Debug, Clone, PartialEq, Eq)]
pub struct ParseError {
    /// number of tokens consumed before the error
    pub at: usize,
    pub msg: String,
}

struct P<'a> {
    t: &'a [Tok],
    p: usize,
}

impl<'a> P<'a> {
    fn peek(&self) -> &Tok {
        self.t.get(self.p).unwrap_or(&Tok::Eof)
    }
    fn next(&mut self) -> Tok {
        let t = self.peek().clone();
        if self.p < self.t.len() {
            self.p += 1;
        }
        t
    }
    fn err<T>(&self, msg: &str) -> Result<T, ParseError> {
        Err(ParseError { at: self.p, msg: format!("{} (next: {:?})", msg, self.peek()) })
    }
    fn expect(&mut self, t: Tok) -> Result<(), ParseError> {
        if *self.peek() == t {
            self.p += 1;
            Ok(())
        } else {
            self.err(&format!("expected {:?}", t))
        }
    }

    fn binop(&self) -> Option<Op> {
        Some(match self.peek() {
            Tok::And => Op::And,
            Tok::Or => Op::Or,
            Tok::Xor => Op::Xor,
            Tok::Nor => Op::Nor,
            Tok::Nand => Op::Nand,
            Tok::Implies => Op::Implies,
            Tok::ImpliesInv => Op::ImpliesInv,
            Tok::Iff => Op::Iff,
            _ => return None,
        })
    }

    fn sub(&mut self) -> Result<Ast, ParseError> {
        let left = self.simple()?;
        if let Some(op) = self.binop() {
            self.p += 1;
            let right = self.sub()?;
            Ok(Ast::Bin(op, Box::new(left), Box::new(right)))
        } else {
            Ok(left)
        }
    }

    fn varname(&mut self) -> Result<String, ParseError> {
        match self.peek().clone() {
            Tok::Var(v) => {
                self.p += 1;
                Ok(v)
            }
            _ => self.err("expected variable"),
        }
    }

    fn varlist(&mut self) -> Result<Vec<String>, ParseError> {
        let mut vs = Vec::new();
        while *self.peek() != Tok::Hash {
            vs.push(self.varname()?);
            if *self.peek() == Tok::Comma {
                self.p += 1;
            } else {
                break;
            }
        }
        Ok(vs)
    }

    fn list(&mut self) -> Result<Vec<Ast>, ParseError> {
        self.expect(Tok::LSq)?;
        let mut xs = Vec::new();
        while *self.peek() != Tok::RSq {
            xs.push(self.sub()?);
            if *self.peek() == Tok::Comma {
                self.p += 1;
            } else {
                break;
            }
        }
        self.expect(Tok::RSq)?;
        Ok(xs)
    }

    fn simple(&mut self) -> Result<Ast, ParseError> {
        match self.peek().clone() {
            Tok::LParen => {
                self.p += 1;
                let f = self.sub()?;
                self.expect(Tok::RParen)?;
                Ok(f)
            }
            Tok::LSq => {
                let left = self.list()?;
                let cmp = match self.peek() {
                    Tok::Eq => Cmp::Exactly,
                    Tok::ImpliesInv => Cmp::AtMost,
                    Tok::Geq => Cmp::AtLeast,
                    Tok::Lt => Cmp::LessThan,
                    Tok::Gt => Cmp::MoreThan,
                    _ => return self.err("expected counting comparison"),
                };
                self.p += 1;
                if *self.peek() == Tok::LSq {
                    let right = self.list()?;
                    Ok(Ast::CountList(cmp, left, right))
                } else {
                    match self.peek().clone() {
                        Tok::Num(n) => {
                            self.p += 1;
                            Ok(Ast::CountConst(cmp, left, n))
                        }
                        _ => self.err("expected number or list"),
                    }
                }
            }
            Tok::False => {
                self.p += 1;
                Ok(Ast::False)
            }
            Tok::True => {
                self.p += 1;
                Ok(Ast::True)
            }
            Tok::Ref(r) => {
                self.p += 1;
                Ok(Ast::Ref(r))
            }
            Tok::Var(v) => {
                self.p += 1;
                Ok(Ast::Var(v))
            }
            Tok::Not => {
                self.p += 1;
                let f = self.simple()?;
                Ok(Ast::Not(Box::new(f)))
            }
            Tok::Exists | Tok::Forall => {
                let forall = *self.peek() == Tok::Forall;
                self.p += 1;
                let vs = self.varlist()?;
                self.expect(Tok::Hash)?;
                let f = self.sub()?;
                Ok(Ast::Quant(forall, vs, Box::new(f)))
            }
            Tok::Lfp | Tok::Gfp => {
                let gfp = *self.peek() == Tok::Gfp;
                self.p += 1;
                let v = self.varname()?;
                self.expect(Tok::Hash)?;
                let f = self.sub()?;
                Ok(Ast::Fix(v, gfp, Box::new(f)))
            }
            Tok::If => {
                self.p += 1;
                let c = self.sub()?;
                self.expect(Tok::Then)?;
                let t = self.sub()?;
                self.expect(Tok::Else)?;
                let e = self.sub()?;
                Ok(Ast::Ite(Box::new(c), Box::new(t), Box::new(e)))
            }
            _ => self.err("expected a formula"),
        }
    }
}

/// Parse a token list (which must end in Eof) by the grammar of DESIGN.md 2.2.
pub fn parse_tokens(toks: &[Tok]) -> Result<Ast, ParseError> {
    let mut p = P { t: toks, p: 0 };
    let f = p.sub()?;
    if *p.peek() != Tok::Eof {
        return p.err("expected end of input");
    }
    if p.p + 1 != toks.len() {
        return p.err("tokens after Eof");
    }
    Ok(f)
}

#[derive(Debug, Clone, PartialEq, Eq)]
pub enum SynError {
    Lex(LexError),
    Parse(ParseError),
}

pub fn parse_text(src: &str) -> Result<Ast, SynError> {
    let toks = tokenize(src).map_err(SynError::Lex)?;
    parse_tokens(&toks).map_err(SynError::Parse)
}

impl Ast {
    /// All variable names in order of first appearance in the *text* (binder positions included).
    pub fn names_in_text_order(&self) -> Vec<String> {
        let mut out = Vec::new();
        self.collect_names(&mut out);
        out
    }

    fn collect_names(&self, out: &mut Vec<String>) {
        let mut push = |s: &String, out: &mut Vec<String>| {
            if !out.contains(s) {
                out.push(s.clone());
            }
        };
        match self {
            Ast::False | Ast::True | Ast::Ref(_) => {}
            Ast::Var(v) => push(v, out),
            Ast::Not(f) => f.collect_names(out),
            Ast::Quant(_, vs, f) => {
                for v in vs {
                    push(v, out);
                }
                f.collect_names(out);
            }
            Ast::CountConst(_, xs, _) => {
                for x in xs {
                    x.collect_names(out);
                }
            }
            Ast::CountList(_, xs, ys) => {
                for x in xs {
                    x.collect_names(out);
                }
                for y in ys {
                    y.collect_names(out);
                }
            }
            Ast::Fix(v, _, f) => {
                push(v, out);
                f.collect_names(out);
            }
            Ast::Ite(a, b, c) => {
                a.collect_names(out);
                b.collect_names(out);
                c.collect_names(out);
            }
            Ast::Bin(_, a, b) => {
                a.collect_names(out);
                b.collect_names(out);
            }
        }
    }

    /// Free variables (standard definition), in order of first free occurrence.
    pub fn free_names(&self) -> Vec<String> {
        let mut out = Vec::new();
        let mut bound: Vec<String> = Vec::new();
        self.collect_free(&mut bound, &mut out);
        out
    }

    fn collect_free(&self, bound: &mut Vec<String>, out: &mut Vec<String>) {
        match self {
            Ast::False | Ast::True | Ast::Ref(_) => {}
            Ast::Var(v) => {
                if !bound.contains(v) && !out.contains(v) {
                    out.push(v.clone());
                }
            }
            Ast::Not(f) => f.collect_free(bound, out),
            Ast::Quant(_, vs, f) => {
                let k = bound.len();
                bound.extend(vs.iter().cloned());
                f.collect_free(bound, out);
                bound.truncate(k);
            }
            Ast::CountConst(_, xs, _) => {
                for x in xs {
                    x.collect_free(bound, out);
                }
            }
            Ast::CountList(_, xs, ys) => {
                for x in xs.iter().chain(ys.iter()) {
                    x.collect_free(bound, out);
                }
            }
            Ast::Fix(v, _, f) => {
                bound.push(v.clone());
                f.collect_free(bound, out);
                bound.pop();
            }
            Ast::Ite(a, b, c) => {
                a.collect_free(bound, out);
                b.collect_free(bound, out);
                c.collect_free(bound, out);
            }
            Ast::Bin(_, a, b) => {
                a.collect_free(bound, out);
                b.collect_free(bound, out);
            }
        }
    }

    pub fn node_count(&self) -> usize {
        match self {
            Ast::False | Ast::True | Ast::Var(_) | Ast::Ref(_) => 1,
            Ast::Not(f) | Ast::Quant(_, _, f) | Ast::Fix(_, _, f) => 1 + f.node_count(),
            Ast::CountConst(_, xs, _) => 1 + xs.iter().map(|x| x.node_count()).sum::<usize>(),
            Ast::CountList(_, xs, ys) => 1 + xs.iter().chain(ys.iter()).map(|x| x.node_count()).sum::<usize>(),
            Ast::Ite(a, b, c) => 1 + a.node_count() + b.node_count() + c.node_count(),
            Ast::Bin(_, a, b) => 1 + a.node_count() + b.node_count(),
        }
    }

    /// Number of operator (non-leaf) nodes.
    pub fn op_count(&self) -> usize {
        match self {
            Ast::False | Ast::True | Ast::Var(_) | Ast::Ref(_) => 0,
            Ast::Not(f) | Ast::Quant(_, _, f) | Ast::Fix(_, _, f) => 1 + f.op_count(),
            Ast::CountConst(_, xs, _) => 1 + xs.iter().map(|x| x.op_count()).sum::<usize>(),
            Ast::CountList(_, xs, ys) => 1 + xs.iter().chain(ys.iter()).map(|x| x.op_count()).sum::<usize>(),
            Ast::Ite(a, b, c) => 1 + a.op_count() + b.op_count() + c.op_count(),
            Ast::Bin(_, a, b) => 1 + a.op_count() + b.op_count(),
        }
    }

    pub fn has_binder(&self) -> bool {
        match self {
            Ast::False | Ast::True | Ast::Var(_) | Ast::Ref(_) => false,
            Ast::Quant(..) | Ast::Fix(..) => true,
            Ast::Not(f) => f.has_binder(),
            Ast::CountConst(_, xs, _) => xs.iter().any(|x| x.has_binder()),
            Ast::CountList(_, xs, ys) => xs.iter().chain(ys.iter()).any(|x| x.has_binder()),
            Ast::Ite(a, b, c) => a.has_binder() || b.has_binder() || c.has_binder(),
            Ast::Bin(_, a, b) => a.has_binder() || b.has_binder(),
        }
    }

    pub fn has_kind(&self, pred: &dyn Fn(&Ast) -> bool) -> bool {
        if pred(self) {
            return true;
        }
        match self {
            Ast::False | Ast::True | Ast::Var(_) | Ast::Ref(_) => false,
            Ast::Not(f) | Ast::Quant(_, _, f) | Ast::Fix(_, _, f) => f.has_kind(pred),
            Ast::CountConst(_, xs, _) => xs.iter().any(|x| x.has_kind(pred)),
            Ast::CountList(_, xs, ys) => xs.iter().chain(ys.iter()).any(|x| x.has_kind(pred)),
            Ast::Ite(a, b, c) => a.has_kind(pred) || b.has_kind(pred) || c.has_kind(pred),
            Ast::Bin(_, a, b) => a.has_kind(pred) || b.has_kind(pred),
        }
    }

    pub fn visit(&self, f: &mut dyn FnMut(&Ast)) {
        f(self);
        match self {
            Ast::False | Ast::True | Ast::Var(_) | Ast::Ref(_) => {}
            Ast::Not(x) | Ast::Quant(_, _, x) | Ast::Fix(_, _, x) => x.visit(f),
            Ast::CountConst(_, xs, _) => xs.iter().for_each(|x| x.visit(f)),
            Ast::CountList(_, xs, ys) => xs.iter().chain(ys.iter()).for_each(|x| x.visit(f)),
            Ast::Ite(a, b, c) => {
                a.visit(f);
                b.visit(f);
                c.visit(f);
            }
            Ast::Bin(_, a, b) => {
                a.visit(f);
                b.visit(f);
            }
        }
    }

    pub fn kind_name(&self) -> &'static str {
        match self {
            Ast::False => "false",
            Ast::True => "true",
            Ast::Var(_) => "var",
            Ast::Ref(_) => "ref",
            Ast::Not(_) => "not",
            Ast::Quant(false, ..) => "exists",
            Ast::Quant(true, ..) => "forall",
            Ast::CountConst(Cmp::AtMost, ..) => "count<=n",
            Ast::CountConst(Cmp::LessThan, ..) => "count<n",
            Ast::CountConst(Cmp::AtLeast, ..) => "count>=n",
            Ast::CountConst(Cmp::MoreThan, ..) => "count>n",
            Ast::CountConst(Cmp::Exactly, ..) => "count=n",
            Ast::CountList(Cmp::AtMost, ..) => "count<=list",
            Ast::CountList(Cmp::LessThan, ..) => "count<list",
            Ast::CountList(Cmp::AtLeast, ..) => "count>=list",
            Ast::CountList(Cmp::MoreThan, ..) => "count>list",
            Ast::CountList(Cmp::Exactly, ..) => "count=list",
            Ast::Fix(_, false, _) => "lfp",
            Ast::Fix(_, true, _) => "gfp",
            Ast::Ite(..) => "ite",
            Ast::Bin(Op::And, ..) => "and",
            Ast::Bin(Op::Or, ..) => "or",
            Ast::Bin(Op::Xor, ..) => "xor",
            Ast::Bin(Op::Nor, ..) => "nor",
            Ast::Bin(Op::Nand, ..) => "nand",
            Ast::Bin(Op::Implies, ..) => "implies",
            Ast::Bin(Op::ImpliesInv, ..) => "impliesinv",
            Ast::Bin(Op::Iff, ..) => "iff",
        }
    }
}

#[cfg(test)]
mod tests {
    use super::*;

    #[test]
    fn tokens_basic() {
        assert_eq!(tokenize("a<=>b").unwrap(), vec![Tok::Var("a".into()), Tok::Iff, Tok::Var("b".into()), Tok::Eof]);
        assert_eq!(tokenize("12ab").unwrap(), vec![Tok::Num(12), Tok::Var("ab".into()), Tok::Eof]);
        assert_eq!(tokenize("a12").unwrap(), vec![Tok::Var("a12".into()), Tok::Eof]);
        assert_eq!(tokenize("{r} {x").unwrap(), vec![Tok::Ref("r".into()), Tok::Var("x".into()), Tok::Eof]);
        assert_eq!(tokenize("\"c\" a \"").unwrap(), vec![Tok::Var("a".into()), Tok::Eof]);
        assert_eq!(tokenize("").unwrap(), vec![Tok::Eof]);
        assert!(tokenize("99999999999999999999999").is_err());
        assert_eq!(tokenize("mand nu").unwrap(), vec![Tok::Var("mand".into()), Tok::Gfp, Tok::Eof]);
    }

    #[test]
    fn parse_shapes() {
        let v = |s: &str| Box::new(Ast::Var(s.into()));
        assert_eq!(parse_text("a & b | c").unwrap(), Ast::Bin(Op::And, v("a"), Box::new(Ast::Bin(Op::Or, v("b"), v("c")))));
        assert_eq!(parse_text("-a & b").unwrap(), Ast::Bin(Op::And, Box::new(Ast::Not(v("a"))), v("b")));
        assert_eq!(
            parse_text("exists a, # a | b").unwrap(),
            Ast::Quant(false, vec!["a".into()], Box::new(Ast::Bin(Op::Or, v("a"), v("b"))))
        );
        assert!(parse_text("-(a b c").is_err());
        assert!(parse_text("a b").is_err());
        assert_eq!(parse_text("[] = 0").unwrap(), Ast::CountConst(Cmp::Exactly, vec![], 0));
        assert_eq!(parse_text("forall # a").unwrap(), Ast::Quant(true, vec![], v("a")));
    }
}
