//! Workload generators: random formula trees (all constructs, polarity-tracked fixed points),
//! rendering to text with random spellings / whitespace / comments, token-level mutations.

use crate::refsyn::{Ast, Cmp, Op};
use crate::util::Rng;

#[derive(Clone, Debug)]
pub struct GenCfg {
    pub names: Vec<String>,
    pub max_depth: u32,
    pub allow_fix: bool,
    pub allow_quant: bool,
    pub allow_count: bool,
    pub allow_ref: bool,
    pub max_list: usize,
    /// weight (out of 100) of binder nodes among inner nodes
    pub binder_weight: u64,
    /// maximal nesting of fixed points
    pub max_fix_depth: u32,
}

impl GenCfg {
    pub fn simple(names: &[&str], depth: u32) -> GenCfg {
        GenCfg {
            names: names.iter().map(|s| s.to_string()).collect(),
            max_depth: depth,
            allow_fix: true,
            allow_quant: true,
            allow_count: true,
            allow_ref: false,
            max_list: 3,
            binder_weight: 18,
            max_fix_depth: 2,
        }
    }
}

#[derive(Clone, Copy, PartialEq, Eq, Debug)]
enum Pol {
    Pos,
    Neg,
    Mixed,
}

impl Pol {
    fn flip(self) -> Pol {
        match self {
            Pol::Pos => Pol::Neg,
            Pol::Neg => Pol::Pos,
            Pol::Mixed => Pol::Mixed,
        }
    }
}

#[derive(Clone)]
struct Scope {
    /// fixed-point names in scope with the polarity of the current position w.r.t. each
    fix: Vec<(String, Pol)>,
    fix_depth: u32,
}

impl Scope {
    fn map(&self, f: impl Fn(Pol) -> Pol) -> Scope {
        Scope { fix: self.fix.iter().map(|(n, p)| (n.clone(), f(*p))).collect(), fix_depth: self.fix_depth }
    }
    fn without(&self, names: &[String]) -> Scope {
        Scope { fix: self.fix.iter().filter(|(n, _)| !names.contains(n)).cloned().collect(), fix_depth: self.fix_depth }
    }
}

fn gen_leaf(rng: &mut Rng, cfg: &GenCfg, sc: &Scope) -> Ast {
    // prefer an in-scope fixed-point variable at a positive position
    let usable: Vec<&String> = sc.fix.iter().filter(|(_, p)| *p == Pol::Pos).map(|(n, _)| n).collect();
    if !usable.is_empty() && rng.chance(2, 5) {
        return Ast::Var((*rng.pick(&usable)).clone());
    }
    if cfg.allow_ref && rng.chance(1, 12) {
        return Ast::Ref(format!("r{}", rng.below(2)));
    }
    if rng.chance(1, 10) {
        return if rng.chance(1, 2) { Ast::True } else { Ast::False };
    }
    // a plain variable that is not a restricted fixed-point name
    for _ in 0..8 {
        let n = rng.pick(&cfg.names).clone();
        match sc.fix.iter().find(|(x, _)| *x == n) {
            None => return Ast::Var(n),
            Some((_, Pol::Pos)) => return Ast::Var(n),
            Some(_) => continue,
        }
    }
    Ast::True
}

fn gen_node(rng: &mut Rng, cfg: &GenCfg, depth: u32, sc: &Scope) -> Ast {
    if depth == 0 || rng.chance(1, 6) {
        return gen_leaf(rng, cfg, sc);
    }
    let d = depth - 1;
    let roll = rng.below(100);
    let binder = cfg.binder_weight;
    if roll < binder {
        // binder: quantifier or fixed point
        let want_fix = cfg.allow_fix && sc.fix_depth < cfg.max_fix_depth && rng.chance(2, 5);
        if want_fix {
            let x = rng.pick(&cfg.names).clone();
            let mut inner = sc.without(&[x.clone()]);
            inner.fix.push((x.clone(), Pol::Pos));
            inner.fix_depth += 1;
            let body = gen_node(rng, cfg, d, &inner);
            return Ast::Fix(x, rng.chance(1, 2), Box::new(body));
        }
        if cfg.allow_quant {
            let k = match rng.below(10) {
                0 => 0,
                1..=6 => 1,
                7..=8 => 2,
                _ => 3,
            };
            let mut vs = Vec::new();
            for _ in 0..k {
                vs.push(rng.pick(&cfg.names).clone());
            }
            let inner = sc.without(&vs);
            let body = gen_node(rng, cfg, d, &inner);
            return Ast::Quant(rng.chance(1, 2), vs, Box::new(body));
        }
    }
    if cfg.allow_count && roll < binder + 16 {
        let cmp = *rng.pick(&crate::refsyn::ALL_CMPS);
        let len = rng.usize(cfg.max_list + 1);
        let (pl, pr): (fn(Pol) -> Pol, fn(Pol) -> Pol) = match cmp {
            Cmp::AtLeast | Cmp::MoreThan => (|p| p, |p| p.flip()),
            Cmp::AtMost | Cmp::LessThan => (|p| p.flip(), |p| p),
            Cmp::Exactly => (|_p| Pol::Mixed, |_p| Pol::Mixed),
        };
        let lsc = sc.map(pl);
        let mut xs: Vec<Ast> = Vec::new();
        for _ in 0..len {
            // sometimes repeat an operand
            if !xs.is_empty() && rng.chance(1, 5) {
                let c: Ast = rng.pick(&xs).clone();
                xs.push(c);
            } else {
                xs.push(gen_node(rng, cfg, d.min(2), &lsc));
            }
        }
        if rng.chance(2, 5) {
            let rsc = sc.map(pr);
            let len2 = rng.usize(cfg.max_list + 1);
            let mut ys = Vec::new();
            for _ in 0..len2 {
                ys.push(gen_node(rng, cfg, d.min(1), &rsc));
            }
            return Ast::CountList(cmp, xs, ys);
        }
        let l = len as u64;
        let n = match rng.below(8) {
            0 => 0,
            1 => 1,
            2 => l,
            3 => l + 1,
            4 => l.saturating_sub(1),
            5 => 2,
            _ => rng.below(l + 2),
        };
        return Ast::CountConst(cmp, xs, n);
    }
    if roll < binder + 26 {
        return Ast::Not(Box::new(gen_node(rng, cfg, d, &sc.map(|p| p.flip()))));
    }
    if roll < binder + 36 {
        let c = gen_node(rng, cfg, d, &sc.map(|_| Pol::Mixed));
        let t = gen_node(rng, cfg, d, sc);
        let e = gen_node(rng, cfg, d, sc);
        return Ast::Ite(Box::new(c), Box::new(t), Box::new(e));
    }
    let op = *rng.pick(&crate::refsyn::ALL_OPS);
    let (pl, pr): (fn(Pol) -> Pol, fn(Pol) -> Pol) = match op {
        Op::And | Op::Or => (|p| p, |p| p),
        Op::Implies => (|p| p.flip(), |p| p),
        Op::ImpliesInv => (|p| p, |p| p.flip()),
        Op::Nor | Op::Nand => (|p| p.flip(), |p| p.flip()),
        Op::Xor | Op::Iff => (|_| Pol::Mixed, |_| Pol::Mixed),
    };
    let l = gen_node(rng, cfg, d, &sc.map(pl));
    let r = gen_node(rng, cfg, d, &sc.map(pr));
    Ast::Bin(op, Box::new(l), Box::new(r))
}

pub fn gen_ast(rng: &mut Rng, cfg: &GenCfg) -> Ast {
    let depth = 1 + rng.below(cfg.max_depth as u64) as u32;
    gen_node(rng, cfg, depth, &Scope { fix: vec![], fix_depth: 0 })
}

/// A body for `lfp/gfp x # body` that is monotone in x by construction (x only at positive positions).
pub fn gen_monotone_body(rng: &mut Rng, cfg: &GenCfg, x: &str) -> Ast {
    let depth = 1 + rng.below(cfg.max_depth as u64) as u32;
    gen_node(rng, cfg, depth, &Scope { fix: vec![(x.to_string(), Pol::Pos)], fix_depth: 1 })
}

// ------------------------------------------------------------------------------------ rendering

#[derive(Clone, Copy, Debug, PartialEq, Eq)]
pub enum Style {
    /// one canonical spelling, single spaces
    Plain,
    /// random alias spellings, random whitespace, comments, stray separators, redundant parentheses
    Fancy,
}

fn spell(rng: &mut Rng, style: Style, options: &[&str]) -> String {
    match style {
        Style::Plain => options[0].to_string(),
        Style::Fancy => rng.pick(options).to_string(),
    }
}

pub fn op_spellings(op: Op) -> &'static [&'static str] {
    match op {
        Op::And => &["&", "*", "and"],
        Op::Or => &["|", "+", "or"],
        Op::Xor => &["^", "xor"],
        Op::Nor => &["nor"],
        Op::Nand => &["nand"],
        Op::Implies => &["=>", "implies", "in"],
        Op::ImpliesInv => &["<="],
        Op::Iff => &["<=>", "iff", "eq"],
    }
}

pub fn cmp_spelling(c: Cmp) -> &'static str {
    match c {
        Cmp::AtMost => "<=",
        Cmp::LessThan => "<",
        Cmp::AtLeast => ">=",
        Cmp::MoreThan => ">",
        Cmp::Exactly => "=",
    }
}

/// A term after which a following binary operator cannot be captured by an open body.
fn closed(f: &Ast) -> bool {
    match f {
        Ast::False | Ast::True | Ast::Var(_) | Ast::Ref(_) | Ast::CountConst(..) | Ast::CountList(..) => true,
        Ast::Not(g) => closed(g),
        Ast::Quant(..) | Ast::Fix(..) | Ast::Ite(..) | Ast::Bin(..) => false,
    }
}

fn toks(f: &Ast, rng: &mut Rng, style: Style, out: &mut Vec<String>) {
    let redundant = style == Style::Fancy && rng.chance(1, 12);
    if redundant {
        out.push("(".into());
    }
    match f {
        Ast::False => out.push("false".into()),
        Ast::True => out.push("true".into()),
        Ast::Var(v) => out.push(v.clone()),
        Ast::Ref(r) => out.push(format!("{{{}}}", r)),
        Ast::Not(g) => {
            out.push(spell(rng, style, &["-", "!", "not"]));
            // negation applies to the next simple term only
            let simple = !matches!(g.as_ref(), Ast::Bin(..));
            if simple {
                toks(g, rng, style, out);
            } else {
                out.push("(".into());
                toks(g, rng, style, out);
                out.push(")".into());
            }
        }
        Ast::Quant(forall, vs, g) => {
            out.push(if *forall { spell(rng, style, &["forall", "all"]) } else { spell(rng, style, &["exists", "any"]) });
            for (i, v) in vs.iter().enumerate() {
                out.push(v.clone());
                if i + 1 < vs.len() || (style == Style::Fancy && rng.chance(1, 6)) {
                    out.push(",".into());
                }
            }
            out.push("#".into());
            toks(g, rng, style, out);
        }
        Ast::Fix(x, gfp, g) => {
            out.push(if *gfp { spell(rng, style, &["gfp", "nu"]) } else { spell(rng, style, &["lfp", "mu"]) });
            out.push(x.clone());
            out.push("#".into());
            toks(g, rng, style, out);
        }
        Ast::Ite(c, t, e) => {
            out.push("if".into());
            toks(c, rng, style, out);
            out.push("then".into());
            toks(t, rng, style, out);
            out.push("else".into());
            toks(e, rng, style, out);
        }
        Ast::CountConst(cmp, xs, n) => {
            list_toks(xs, rng, style, out);
            out.push(cmp_spelling(*cmp).into());
            // a constant may be written with leading zeros (also more than 20 digits of them)
            if style == Style::Fancy && rng.chance(1, 6) {
                out.push(format!("{}{}", "0".repeat(1 + rng.usize(28)), n));
            } else {
                out.push(n.to_string());
            }
        }
        Ast::CountList(cmp, xs, ys) => {
            list_toks(xs, rng, style, out);
            out.push(cmp_spelling(*cmp).into());
            list_toks(ys, rng, style, out);
        }
        Ast::Bin(op, l, r) => {
            if closed(l) {
                toks(l, rng, style, out);
            } else {
                out.push("(".into());
                toks(l, rng, style, out);
                out.push(")".into());
            }
            out.push(spell(rng, style, op_spellings(*op)));
            toks(r, rng, style, out);
        }
    }
    if redundant {
        out.push(")".into());
    }
}

fn list_toks(xs: &[Ast], rng: &mut Rng, style: Style, out: &mut Vec<String>) {
    out.push("[".into());
    for (i, x) in xs.iter().enumerate() {
        toks(x, rng, style, out);
        if i + 1 < xs.len() || (style == Style::Fancy && rng.chance(1, 6)) {
            out.push(",".into());
        }
    }
    out.push("]".into());
}

fn wordish(s: &str) -> bool {
    s.chars().next().map(|c| c == '\'' || crate::refsyn::is_word(c)).unwrap_or(false)
}

fn wordish_end(s: &str) -> bool {
    s.chars().last().map(|c| c == '\'' || crate::refsyn::is_word(c)).unwrap_or(false)
}

const SEPARATORS: [&str; 9] = [" ", "  ", "\n", "\t", " ; ", " . ", "\r\n", " ~ ", " ? "];
const COMMENTS: [&str; 5] = ["\"c\"", "\"a & b\"", "\"\"", "\"multi\nline [1] <=>\"", "\"é #\""];

pub fn join_tokens(tokens: &[String], rng: &mut Rng, style: Style) -> String {
    let mut s = String::new();
    for (i, t) in tokens.iter().enumerate() {
        if i > 0 {
            let need = wordish_end(&tokens[i - 1]) && wordish(t);
            match style {
                Style::Plain => s.push(' '),
                Style::Fancy => {
                    let r = rng.below(10);
                    if r < 3 && !need {
                        // nothing
                    } else if r < 8 {
                        s.push(' ');
                    } else if r == 8 {
                        s.push_str(*rng.pick(&SEPARATORS));
                    } else {
                        // a comment is a token of its own: it separates its neighbours with or
                        // without blanks around it (`not"c"a` is `not a`)
                        let glue = rng.below(4);
                        if glue & 1 == 0 {
                            s.push(' ');
                        }
                        s.push_str(*rng.pick(&COMMENTS));
                        if glue & 2 == 0 {
                            s.push(' ');
                        }
                    }
                }
            }
        }
        s.push_str(t);
    }
    if style == Style::Fancy && rng.chance(1, 8) {
        s.push_str(*rng.pick(&SEPARATORS));
    }
    if style == Style::Fancy && rng.chance(1, 10) {
        s = format!("{} {}", rng.pick(&COMMENTS), s);
    }
    s
}

pub fn render_tokens(f: &Ast, rng: &mut Rng, style: Style) -> Vec<String> {
    let mut out = Vec::new();
    toks(f, rng, style, &mut out);
    out
}

pub fn render(f: &Ast, rng: &mut Rng, style: Style) -> String {
    let t = render_tokens(f, rng, style);
    join_tokens(&t, rng, style)
}

/// Deterministic plain rendering (no randomness): canonical spellings, single spaces.
pub fn render_plain(f: &Ast) -> String {
    let mut rng = Rng::new(0);
    render(f, &mut rng, Style::Plain)
}

pub const PLAIN_NAMES: [&str; 6] = ["a", "b", "c", "d", "e", "f"];
/// Names made of word characters that are neither letters, ASCII digits nor `_`: combining marks
/// (NFD accents, Indic / Thai vowel signs), connector punctuation, zero-width joiners, letter
/// numbers. `\\w` covers all of them, so each is ONE identifier ("cafe" + U+0301 is not "cafe").
pub const MARK_NAMES: [&str; 12] = ["cafe\u{301}", "cafe", "हिंदी", "a\u{203f}b", "a\u{200d}b", "Ⅷ", "x\u{300}y", "กิ", "p'", "p''", "p'q", "''p"];
/// Long names that look alike: equal length and a common prefix of 24 .. 256 bytes (differing in
/// the last character), differing only in the FIRST character or only in the middle, and anagrams
/// of one another. Each is a different identifier.
pub const LOOKALIKE_NAMES: [&str; 12] = ["temperature_sensor_reading_1", "temperature_sensor_reading_2", "nnnnnnnnnnnnnnnnnnnnnnnnnnnnnnnnnnnnnnnnnnnnnnnnnnnnnnnnnnnnnnnna", "nnnnnnnnnnnnnnnnnnnnnnnnnnnnnnnnnnnnnnnnnnnnnnnnnnnnnnnnnnnnnnnnb", "xtemperature_sensor_reading_1", "ytemperature_sensor_reading_1", "prefix_qqqqqqqqqqqqqqqqqqqq_A_rrrrrrrrrrrrrrrrrrrr", "prefix_qqqqqqqqqqqqqqqqqqqq_B_rrrrrrrrrrrrrrrrrrrr", "listen_to_the_silent_night_0", "silent_to_the_listen_night_0", "mmmmmmmmmmmmmmmmmmmmmmmmmmmmmmmmmmmmmmmmmmmmmmmmmmmmmmmmmmmmmmmmmmmmmmmmmmmmmmmmmmmmmmmmmmmmmmmmmmmmmmmmmmmmmmmmmmmmmmmmmmmmmmmmmmmmmmmmmmmmmmmmmmmmmmmmmmmmmmmmmmmmmmmmmmmmmmmmmmmmmmmmmmmmmmmmmmmmmmmmmmmmmmmmmmmmmmmmmmmmmmmmmmmmmmmmmmmmmmmmmmmmmmmmmmmmmmmma", "mmmmmmmmmmmmmmmmmmmmmmmmmmmmmmmmmmmmmmmmmmmmmmmmmmmmmmmmmmmmmmmmmmmmmmmmmmmmmmmmmmmmmmmmmmmmmmmmmmmmmmmmmmmmmmmmmmmmmmmmmmmmmmmmmmmmmmmmmmmmmmmmmmmmmmmmmmmmmmmmmmmmmmmmmmmmmmmmmmmmmmmmmmmmmmmmmmmmmmmmmmmmmmmmmmmmmmmmmmmmmmmmmmmmmmmmmmmmmmmmmmmmmmmmmmmmmmmmb"];

/// the rarely used pools, alternating
pub fn rare_pool(k: u64) -> &'static [&'static str] {
    if k % 2 == 0 {
        &MARK_NAMES
    } else {
        &LOOKALIKE_NAMES
    }
}

pub const FANCY_NAMES: [&str; 12] = ["a", "b'", "_x", "x1", "hello_world", "é", "λx", "中", "X", "a1b2", "'q", "longer_name_9"];

/// Every spelling of every token kind (for soups / mutations).
pub const TOKEN_SPELLINGS: [&str; 70] = [
    "a", "b", "c", "x'", "_y", "0", "1", "2", "3", "17", "{r}", "&", "*", "and", "|", "+", "or", "^", "xor", "nor", "nand", "=>", "implies", "in", "<=", "<=>", "iff", "eq", "-",
    "!", "not", "exists", "any", "forall", "all", "if", "then", "else", "lfp", "mu", "gfp", "nu", "true", "false", "#", "=", "<", ">", ">=", "(", ")", "[", "]", ",", "\"c\"", ";", "{", "}",
    "\"", "'", "é", "٣", "\u{301}", "a\u{203f}b", "e\u{301}", "00", "000000000000000000001", "0000000000000000000000000000002", "\0", "$",
];

/// Token-level mutation of a valid token list: the interesting negatives are one edit from a sentence.
pub fn mutate_tokens(tokens: &[String], rng: &mut Rng) -> Vec<String> {
    let mut t = tokens.to_vec();
    let edits = 1 + rng.usize(2);
    for _ in 0..edits {
        if t.is_empty() {
            t.push(rng.pick(&TOKEN_SPELLINGS).to_string());
            continue;
        }
        let i = rng.usize(t.len());
        match rng.below(7) {
            0 => {
                t.remove(i);
            }
            1 => {
                let c = t[i].clone();
                t.insert(i, c);
            }
            2 => {
                let j = rng.usize(t.len());
                t.swap(i, j);
            }
            3 => t[i] = rng.pick(&TOKEN_SPELLINGS).to_string(),
            4 => t.insert(i, rng.pick(&TOKEN_SPELLINGS).to_string()),
            5 => {
                // drop a bracket somewhere
                if let Some(p) = t.iter().position(|x| x == "(" || x == ")" || x == "[" || x == "]") {
                    t.remove(p);
                }
            }
            _ => {
                // truncate
                t.truncate(i);
            }
        }
    }
    t
}

#[cfg(test)]
mod tests {
    use super::*;
    use crate::refsyn::parse_text;

    #[test]
    fn render_roundtrip() {
        // the renderer must produce texts whose reference parse is the intended tree
        let mut rng = Rng::new(42);
        let cfg = GenCfg::simple(&PLAIN_NAMES, 5);
        for _ in 0..20000 {
            let f = gen_ast(&mut rng, &cfg);
            for style in [Style::Plain, Style::Fancy] {
                let text = render(&f, &mut rng, style);
                let back = parse_text(&text).unwrap_or_else(|e| panic!("unparsable rendering {:?}: {:?}", text, e));
                assert_eq!(back, f, "text: {}", text);
            }
        }
    }
}
