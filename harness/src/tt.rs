//! Truth tables as bit-vectors: the value domain of the reference semantics.
//!
//! A table over `n` variables has 2^n bits; bit `a` is the value under the assignment in which
//! variable `i` has value `(a >> i) & 1`. Nothing here knows about BDDs.

use std::fmt;

#[derive(Clone, PartialEq, Eq, Hash, PartialOrd, Ord)]
pub struct Tt {
    pub n: u32,
    pub w: Vec<u64>,
}

const MASKS: [u64; 6] = [
    0xAAAA_AAAA_AAAA_AAAA,
    0xCCCC_CCCC_CCCC_CCCC,
    0xF0F0_F0F0_F0F0_F0F0,
    0xFF00_FF00_FF00_FF00,
    0xFFFF_0000_FFFF_0000,
    0xFFFF_FFFF_0000_0000,
];

fn words(n: u32) -> usize {
    if n <= 6 {
        1
    } else {
        1usize << (n - 6)
    }
}

fn live_mask(n: u32) -> u64 {
    if n >= 6 {
        u64::MAX
    } else {
        (1u64 << (1u32 << n)) - 1
    }
}

impl Tt {
    pub fn constant(n: u32, b: bool) -> Tt {
        assert!(n <= 24, "truth table too large");
        let v = if b { live_mask(n) } else { 0 };
        Tt { n, w: vec![v; words(n)] }
    }

    pub fn var(n: u32, i: u32) -> Tt {
        assert!(i < n);
        let mut t = Tt::constant(n, false);
        if i < 6 {
            let m = MASKS[i as usize] & live_mask(n);
            for x in t.w.iter_mut() {
                *x = m;
            }
        } else {
            let stride = 1usize << (i - 6);
            for (k, x) in t.w.iter_mut().enumerate() {
                if (k / stride) & 1 == 1 {
                    *x = u64::MAX;
                }
            }
        }
        t
    }

    /// Table over n ≤ 6 variables from the low 2^n bits of `bits`.
    pub fn from_u64(n: u32, bits: u64) -> Tt {
        assert!(n <= 6);
        Tt { n, w: vec![bits & live_mask(n)] }
    }

    pub fn low_u64(&self) -> u64 {
        self.w[0]
    }

    pub fn size(&self) -> u64 {
        1u64 << self.n
    }

    pub fn get(&self, a: u64) -> bool {
        debug_assert!(a < self.size());
        (self.w[(a >> 6) as usize] >> (a & 63)) & 1 == 1
    }

    pub fn set(&mut self, a: u64, b: bool) {
        let (k, s) = ((a >> 6) as usize, a & 63);
        if b {
            self.w[k] |= 1 << s;
        } else {
            self.w[k] &= !(1 << s);
        }
    }

    pub fn is_true(&self) -> bool {
        let m = live_mask(self.n);
        self.w.iter().all(|x| *x == m)
    }

    pub fn is_false(&self) -> bool {
        self.w.iter().all(|x| *x == 0)
    }

    pub fn is_const(&self) -> bool {
        self.is_true() || self.is_false()
    }

    pub fn count_ones(&self) -> u64 {
        self.w.iter().map(|x| x.count_ones() as u64).sum()
    }

    pub fn not(&self) -> Tt {
        let m = live_mask(self.n);
        Tt { n: self.n, w: self.w.iter().map(|x| !x & m).collect() }
    }

    fn zip(&self, o: &Tt, f: impl Fn(u64, u64) -> u64) -> Tt {
        assert_eq!(self.n, o.n, "truth tables over different universes");
        let m = live_mask(self.n);
        Tt { n: self.n, w: self.w.iter().zip(o.w.iter()).map(|(a, b)| f(*a, *b) & m).collect() }
    }

    pub fn and(&self, o: &Tt) -> Tt {
        self.zip(o, |a, b| a & b)
    }
    pub fn or(&self, o: &Tt) -> Tt {
        self.zip(o, |a, b| a | b)
    }
    pub fn xor(&self, o: &Tt) -> Tt {
        self.zip(o, |a, b| a ^ b)
    }
    pub fn nor(&self, o: &Tt) -> Tt {
        self.zip(o, |a, b| !(a | b))
    }
    pub fn nand(&self, o: &Tt) -> Tt {
        self.zip(o, |a, b| !(a & b))
    }
    /// self ⇒ o
    pub fn implies(&self, o: &Tt) -> Tt {
        self.zip(o, |a, b| !a | b)
    }
    pub fn iff(&self, o: &Tt) -> Tt {
        self.zip(o, |a, b| !(a ^ b))
    }
    pub fn ite(&self, t: &Tt, e: &Tt) -> Tt {
        assert_eq!(self.n, t.n);
        assert_eq!(self.n, e.n);
        let m = live_mask(self.n);
        Tt {
            n: self.n,
            w: (0..self.w.len()).map(|k| ((self.w[k] & t.w[k]) | (!self.w[k] & e.w[k])) & m).collect(),
        }
    }

    /// Pointwise order: self ≤ o  (self implies o everywhere).
    pub fn leq(&self, o: &Tt) -> bool {
        assert_eq!(self.n, o.n);
        self.w.iter().zip(o.w.iter()).all(|(a, b)| a & !b == 0)
    }

    /// Cofactor: the table (still over n variables, no longer depending on i) with variable i fixed.
    pub fn cofactor(&self, i: u32, val: bool) -> Tt {
        assert!(i < self.n);
        let mut r = self.clone();
        if i < 6 {
            let m = MASKS[i as usize];
            let s = 1u32 << i;
            for x in r.w.iter_mut() {
                if val {
                    let h = *x & m;
                    *x = h | (h >> s);
                } else {
                    let l = *x & !m;
                    *x = l | (l << s);
                }
            }
            let lm = live_mask(self.n);
            for x in r.w.iter_mut() {
                *x &= lm;
            }
        } else {
            let stride = 1usize << (i - 6);
            let len = r.w.len();
            let mut base = 0;
            while base < len {
                for k in 0..stride {
                    let (lo, hi) = (base + k, base + stride + k);
                    let v = if val { self.w[hi] } else { self.w[lo] };
                    r.w[lo] = v;
                    r.w[hi] = v;
                }
                base += 2 * stride;
            }
        }
        r
    }

    pub fn exists(&self, i: u32) -> Tt {
        self.cofactor(i, false).or(&self.cofactor(i, true))
    }

    pub fn forall(&self, i: u32) -> Tt {
        self.cofactor(i, false).and(&self.cofactor(i, true))
    }

    pub fn depends_on(&self, i: u32) -> bool {
        self.cofactor(i, false) != self.cofactor(i, true)
    }

    pub fn support(&self) -> Vec<u32> {
        (0..self.n).filter(|i| self.depends_on(*i)).collect()
    }

    /// First satisfying assignment, if any.
    pub fn first_one(&self) -> Option<u64> {
        for (k, x) in self.w.iter().enumerate() {
            if *x != 0 {
                return Some(((k as u64) << 6) + x.trailing_zeros() as u64);
            }
        }
        None
    }

    /// Re-express over a larger universe: variable i of self becomes variable map[i] of the result.
    pub fn embed(&self, n_new: u32, map: &[u32]) -> Tt {
        assert_eq!(map.len(), self.n as usize);
        let mut r = Tt::constant(n_new, false);
        for a in 0..(1u64 << n_new) {
            let mut small = 0u64;
            for (i, m) in map.iter().enumerate() {
                if (a >> m) & 1 == 1 {
                    small |= 1 << i;
                }
            }
            if self.get(small) {
                r.set(a, true);
            }
        }
        r
    }

    pub fn hex(&self) -> String {
        let mut s = String::new();
        for x in self.w.iter().rev() {
            if self.n >= 6 {
                s.push_str(&format!("{:016x}", x));
            } else {
                let digits = std::cmp::max(1, (1usize << self.n) / 4);
                s.push_str(&format!("{:0width$x}", x, width = digits));
            }
        }
        format!("{}:{}", self.n, s)
    }

    /// inverse of `hex`
    pub fn parse_hex(s: &str) -> Option<Tt> {
        let (n, hex) = s.split_once(':')?;
        let n: u32 = n.parse().ok()?;
        let mut t = Tt::constant(n, false);
        let digits: Vec<u32> = hex.chars().filter_map(|c| c.to_digit(16)).collect();
        let total = digits.len();
        for (pos, d) in digits.iter().enumerate() {
            let nib = total - 1 - pos;
            for b in 0..4u64 {
                let a = nib as u64 * 4 + b;
                if a < t.size() && (d >> b) & 1 == 1 {
                    t.set(a, true);
                }
            }
        }
        Some(t)
    }

    pub fn hash64(&self) -> u64 {
        let mut h: u64 = 0xcbf2_9ce4_8422_2325 ^ (self.n as u64);
        for x in &self.w {
            h = (h ^ x).wrapping_mul(0x1000_0000_01b3);
            h ^= h >> 29;
        }
        h
    }
}

impl fmt::Debug for Tt {
    fn fmt(&self, f: &mut fmt::Formatter<'_>) -> fmt::Result {
        write!(f, "Tt({})", self.hex())
    }
}

#[cfg(test)]
mod tests {
    use super::*;

    fn brute_cof(t: &Tt, i: u32, val: bool) -> Tt {
        let mut r = Tt::constant(t.n, false);
        for a in 0..t.size() {
            let b = if val { a | (1 << i) } else { a & !(1 << i) };
            r.set(a, t.get(b));
        }
        r
    }

    #[test]
    fn cofactors_match_bruteforce() {
        let mut seed = 12345u64;
        for n in 1..=9u32 {
            for _ in 0..20 {
                let mut t = Tt::constant(n, false);
                for a in 0..t.size() {
                    seed = seed.wrapping_mul(6364136223846793005).wrapping_add(1442695040888963407);
                    t.set(a, (seed >> 33) & 1 == 1);
                }
                for i in 0..n {
                    assert_eq!(t.cofactor(i, false), brute_cof(&t, i, false));
                    assert_eq!(t.cofactor(i, true), brute_cof(&t, i, true));
                }
            }
        }
    }

    #[test]
    fn var_tables() {
        for n in 1..=9u32 {
            for i in 0..n {
                let v = Tt::var(n, i);
                for a in 0..v.size() {
                    assert_eq!(v.get(a), (a >> i) & 1 == 1);
                }
            }
        }
        assert!(Tt::constant(3, true).is_true());
        assert!(Tt::constant(3, true).not().is_false());
        assert!(Tt::constant(8, true).not().is_false());
    }
}
