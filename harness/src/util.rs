//! PRNG, worker pool, panic capture.

use std::any::Any;
use std::cell::RefCell;
use std::panic::{self, AssertUnwindSafe};
use std::sync::atomic::{AtomicBool, AtomicUsize, Ordering};
use std::sync::Once;

// ------------------------------------------------------------------------------------------ PRNG

/// xoshiro256** seeded through SplitMix64.
#[derive(Clone, Debug)]
pub struct Rng {
    s: [u64; 4],
}

fn splitmix(x: &mut u64) -> u64 {
    *x = x.wrapping_add(0x9E37_79B9_7F4A_7C15);
    let mut z = *x;
    z = (z ^ (z >> 30)).wrapping_mul(0xBF58_476D_1CE4_E5B9);
    z = (z ^ (z >> 27)).wrapping_mul(0x94D0_49BB_1331_11EB);
    z ^ (z >> 31)
}

impl Rng {
    pub fn new(seed: u64) -> Rng {
        let mut x = seed;
        Rng { s: [splitmix(&mut x), splitmix(&mut x), splitmix(&mut x), splitmix(&mut x)] }
    }

    /// Independent stream for (seed, property tag, job index).
    pub fn stream(seed: u64, tag: &str, idx: u64) -> Rng {
        let mut h = seed ^ 0xA076_1D64_78BD_642F;
        for b in tag.bytes() {
            h = (h ^ b as u64).wrapping_mul(0x1000_0000_01b3);
        }
        h ^= idx.wrapping_mul(0xE703_7ED1_A0B4_28DB);
        Rng::new(h)
    }

    pub fn next(&mut self) -> u64 {
        let r = self.s[1].wrapping_mul(5).rotate_left(7).wrapping_mul(9);
        let t = self.s[1] << 17;
        self.s[2] ^= self.s[0];
        self.s[3] ^= self.s[1];
        self.s[1] ^= self.s[2];
        self.s[0] ^= self.s[3];
        self.s[2] ^= t;
        self.s[3] = self.s[3].rotate_left(45);
        r
    }

    /// uniform in 0..n (n > 0)
    pub fn below(&mut self, n: u64) -> u64 {
        debug_assert!(n > 0);
        ((self.next() as u128 * n as u128) >> 64) as u64
    }

    pub fn range(&mut self, lo: i64, hi_incl: i64) -> i64 {
        lo + self.below((hi_incl - lo + 1) as u64) as i64
    }

    pub fn usize(&mut self, n: usize) -> usize {
        self.below(n as u64) as usize
    }

    pub fn chance(&mut self, num: u64, den: u64) -> bool {
        self.below(den) < num
    }

    pub fn pick<'a, T>(&mut self, xs: &'a [T]) -> &'a T {
        &xs[self.usize(xs.len())]
    }

    pub fn pick_str(&mut self, xs: &[&'static str]) -> &'static str {
        xs[self.usize(xs.len())]
    }

    pub fn shuffle<T>(&mut self, xs: &mut [T]) {
        for i in (1..xs.len()).rev() {
            let j = self.usize(i + 1);
            xs.swap(i, j);
        }
    }
}

pub fn hash_str(s: &str) -> u64 {
    hash_bytes(s.as_bytes())
}

pub fn hash_bytes(b: &[u8]) -> u64 {
    let mut h: u64 = 0xcbf2_9ce4_8422_2325;
    for x in b {
        h = (h ^ *x as u64).wrapping_mul(0x1000_0000_01b3);
    }
    h ^ (h >> 32)
}

pub fn mix(a: u64, b: u64) -> u64 {
    let mut x = a ^ b.wrapping_mul(0x9E37_79B9_7F4A_7C15);
    splitmix(&mut x)
}

// ---------------------------------------------------------------------------------- worker pool

pub fn num_threads() -> usize {
    if let Ok(v) = std::env::var("VERIF_THREADS") {
        if let Ok(n) = v.parse::<usize>() {
            if n > 0 {
                return n;
            }
        }
    }
    std::thread::available_parallelism().map(|n| n.get()).unwrap_or(4).min(16)
}

pub static STOP: AtomicBool = AtomicBool::new(false);

/// Run `jobs` jobs on worker threads (1 GiB lazily-mapped stacks); results in job order.
/// Each worker calls `f(job_index)`. Library values are !Send, so everything is built inside `f`.
/// A thread of the harness itself panicked: give the early-verdict monitor (main.rs) a moment to
/// report violations that had already been recorded, then end as inconclusive.
pub fn harness_failed_exit() -> ! {
    crate::report::HARNESS_FAILED.store(true, Ordering::SeqCst);
    std::thread::sleep(std::time::Duration::from_secs(8));
    std::process::exit(3);
}

pub fn par_jobs<T: Send, F: Fn(usize) -> T + Sync>(jobs: usize, f: F) -> Vec<T> {
    let threads = num_threads().min(jobs.max(1));
    let next = AtomicUsize::new(0);
    let mut slots: Vec<Option<T>> = (0..jobs).map(|_| None).collect();
    let results = std::sync::Mutex::new(&mut slots);
    std::thread::scope(|s| {
        let mut handles = Vec::new();
        for _ in 0..threads {
            let h = std::thread::Builder::new()
                .stack_size(1usize << 30)
                .spawn_scoped(s, || loop {
                    let i = next.fetch_add(1, Ordering::SeqCst);
                    if i >= jobs {
                        break;
                    }
                    let r = f(i);
                    results.lock().unwrap()[i] = Some(r);
                })
                .expect("cannot spawn worker thread");
            handles.push(h);
        }
        for h in handles {
            if let Err(e) = h.join() {
                // a panic of the harness itself (not of the code under test, which is caught)
                eprintln!("HARNESS-ERROR worker thread panicked: {}", panic_message(&e));
                harness_failed_exit();
            }
        }
    });
    slots.into_iter().map(|x| x.expect("job did not run")).collect()
}

/// Run one closure on a big-stack thread and return its value.
pub fn on_big_stack<T: Send, F: FnOnce() -> T + Send>(f: F) -> T {
    std::thread::scope(|s| {
        std::thread::Builder::new()
            .stack_size(1usize << 30)
            .spawn_scoped(s, f)
            .expect("cannot spawn thread")
            .join()
            .unwrap_or_else(|e| {
                eprintln!("HARNESS-ERROR thread panicked: {}", panic_message(&e));
                harness_failed_exit();
                std::process::exit(3);
            })
    })
}

// -------------------------------------------------------------------------------- panic capture

#[derive(Debug, Clone, PartialEq, Eq)]
pub enum Caught {
    /// the H1 step / fixed-point budget was exceeded (deterministic, logical steps)
    Budget(&'static str),
    /// a genuine panic of the code under test
    Panic { loc: String, msg: String },
}

impl Caught {
    pub fn signature(&self) -> String {
        match self {
            Caught::Budget(w) => format!("budget:{}", w),
            Caught::Panic { loc, .. } => format!("panic@{}", loc),
        }
    }
}

thread_local! {
    static LAST_PANIC: RefCell<Option<(String, String)>> = const { RefCell::new(None) };
    static IN_GUARD: RefCell<u32> = const { RefCell::new(0) };
}

fn panic_message(p: &Box<dyn Any + Send>) -> String {
    if let Some(s) = p.downcast_ref::<&str>() {
        s.to_string()
    } else if let Some(s) = p.downcast_ref::<String>() {
        s.clone()
    } else if p.downcast_ref::<rsbdd::verif::VerifBudgetExceeded>().is_some() {
        "VerifBudgetExceeded".to_string()
    } else {
        "<non-string panic payload>".to_string()
    }
}

static HOOK: Once = Once::new();

pub fn install_panic_hook() {
    HOOK.call_once(|| {
        let default = panic::take_hook();
        panic::set_hook(Box::new(move |info| {
            let guarded = IN_GUARD.with(|g| *g.borrow() > 0);
            if guarded {
                let loc = info
                    .location()
                    .map(|l| {
                        let f = l.file();
                        // keep paths stable across scratch copies: strip everything before "src/"
                        let short = f.rfind("/src/").map(|i| &f[i + 1..]).unwrap_or(f);
                        format!("{}:{}", short, l.line())
                    })
                    .unwrap_or_else(|| "?".to_string());
                let msg = if let Some(s) = info.payload().downcast_ref::<&str>() {
                    s.to_string()
                } else if let Some(s) = info.payload().downcast_ref::<String>() {
                    s.clone()
                } else {
                    String::new()
                };
                LAST_PANIC.with(|p| *p.borrow_mut() = Some((loc, msg)));
            } else {
                default(info);
            }
        }));
    });
}

/// Run code under test; panics become values.
pub fn guarded<R>(f: impl FnOnce() -> R) -> Result<R, Caught> {
    install_panic_hook();
    IN_GUARD.with(|g| *g.borrow_mut() += 1);
    LAST_PANIC.with(|p| *p.borrow_mut() = None);
    let r = panic::catch_unwind(AssertUnwindSafe(f));
    IN_GUARD.with(|g| *g.borrow_mut() -= 1);
    match r {
        Ok(v) => Ok(v),
        Err(payload) => {
            if let Some(b) = payload.downcast_ref::<rsbdd::verif::VerifBudgetExceeded>() {
                return Err(Caught::Budget(b.0));
            }
            let (loc, msg) = LAST_PANIC.with(|p| p.borrow_mut().take()).unwrap_or_else(|| ("?".to_string(), panic_message(&payload)));
            let mut msg = msg;
            if msg.len() > 300 {
                let mut cut = 300;
                while !msg.is_char_boundary(cut) {
                    cut -= 1;
                }
                msg.truncate(cut);
                msg.push('…');
            }
            Err(Caught::Panic { loc, msg })
        }
    }
}

/// Reset the H1 counters and set budgets for the next guarded call.
pub fn budget(steps: u64, fp: u64) {
    rsbdd::verif::reset();
    rsbdd::verif::set_caps(steps, fp);
}
