//! REFERENCE semantics: AST -> truth table over the universe of all names of the text.
//! (DESIGN.md section 2.3.)  Shares no code with /repo.

use crate::refsyn::{Ast, Cmp, Op};
use crate::tt::Tt;

#[derive(Debug, Clone, PartialEq, Eq)]
pub enum EvalError {
    /// a fixed point whose Kleene iteration did not stabilise within the lattice height
    NonConvergent,
    UnknownName(String),
}

pub fn cmp_holds(cmp: Cmp, a: i128, b: i128) -> bool {
    match cmp {
        Cmp::AtMost => a <= b,
        Cmp::LessThan => a < b,
        Cmp::AtLeast => a >= b,
        Cmp::MoreThan => a > b,
        Cmp::Exactly => a == b,
    }
}

/// cnt[k] = set of assignments under which exactly k of the operands are true.
pub fn count_tables(n: u32, ops: &[Tt]) -> Vec<Tt> {
    let mut cnt = vec![Tt::constant(n, true)];
    for t in ops {
        let nt = t.not();
        let mut next = Vec::with_capacity(cnt.len() + 1);
        for k in 0..=cnt.len() {
            let stay = if k < cnt.len() { cnt[k].and(&nt) } else { Tt::constant(n, false) };
            let step = if k >= 1 { cnt[k - 1].and(t) } else { Tt::constant(n, false) };
            next.push(stay.or(&step));
        }
        cnt = next;
    }
    cnt
}

/// #true(ops) cmp bound, pointwise.
pub fn count_vs_const(n: u32, ops: &[Tt], cmp: Cmp, bound: i128) -> Tt {
    let cnt = count_tables(n, ops);
    let mut r = Tt::constant(n, false);
    for (k, t) in cnt.iter().enumerate() {
        if cmp_holds(cmp, k as i128, bound) {
            r = r.or(t);
        }
    }
    r
}

/// #true(a) cmp #true(b), pointwise.
pub fn count_vs_count(n: u32, a: &[Tt], b: &[Tt], cmp: Cmp) -> Tt {
    let ca = count_tables(n, a);
    let cb = count_tables(n, b);
    let mut r = Tt::constant(n, false);
    for (i, ta) in ca.iter().enumerate() {
        for (j, tb) in cb.iter().enumerate() {
            if cmp_holds(cmp, i as i128, j as i128) {
                r = r.or(&ta.and(tb));
            }
        }
    }
    r
}

pub fn apply_op(op: Op, a: &Tt, b: &Tt) -> Tt {
    match op {
        Op::And => a.and(b),
        Op::Or => a.or(b),
        Op::Xor => a.xor(b),
        Op::Nor => a.nor(b),
        Op::Nand => a.nand(b),
        Op::Implies => a.implies(b),
        Op::ImpliesInv => b.implies(a),
        Op::Iff => a.iff(b),
    }
}

pub struct Sem<'a> {
    pub names: &'a [String],
    pub n: u32,
    /// innermost binding last: Some(table) = fixed-point iterate, None = shadowed by a quantifier
    binds: Vec<(String, Option<Tt>)>,
    /// total number of fixed-point iterations performed (all nesting levels)
    pub fp_iters: u64,
    /// number of fixed points evaluated
    pub fp_evals: u64,
    /// deepest single chain observed
    pub fp_longest: u64,
}

impl<'a> Sem<'a> {
    pub fn new(names: &'a [String]) -> Self {
        Sem { names, n: names.len() as u32, binds: Vec::new(), fp_iters: 0, fp_evals: 0, fp_longest: 0 }
    }

    fn idx(&self, name: &str) -> Result<u32, EvalError> {
        self.names.iter().position(|x| x == name).map(|i| i as u32).ok_or_else(|| EvalError::UnknownName(name.to_string()))
    }

    pub fn eval(&mut self, f: &Ast) -> Result<Tt, EvalError> {
        let n = self.n;
        Ok(match f {
            Ast::False => Tt::constant(n, false),
            Ast::True => Tt::constant(n, true),
            Ast::Ref(_) => Tt::constant(n, false),
            Ast::Var(v) => {
                for (name, b) in self.binds.iter().rev() {
                    if name == v {
                        return match b {
                            Some(t) => Ok(t.clone()),
                            None => Ok(Tt::var(n, self.idx(v)?)),
                        };
                    }
                }
                Tt::var(n, self.idx(v)?)
            }
            Ast::Not(g) => self.eval(g)?.not(),
            Ast::Bin(op, a, b) => {
                let ta = self.eval(a)?;
                let tb = self.eval(b)?;
                apply_op(*op, &ta, &tb)
            }
            Ast::Ite(c, t, e) => {
                let tc = self.eval(c)?;
                let tt = self.eval(t)?;
                let te = self.eval(e)?;
                tc.ite(&tt, &te)
            }
            Ast::Quant(forall, vs, g) => {
                let k = self.binds.len();
                for v in vs {
                    self.binds.push((v.clone(), None));
                }
                let r = self.eval(g);
                self.binds.truncate(k);
                let mut t = r?;
                for v in vs {
                    let i = self.idx(v)?;
                    t = if *forall { t.forall(i) } else { t.exists(i) };
                }
                t
            }
            Ast::CountConst(cmp, xs, c) => {
                let mut ts = Vec::with_capacity(xs.len());
                for x in xs {
                    ts.push(self.eval(x)?);
                }
                count_vs_const(n, &ts, *cmp, *c as i128)
            }
            Ast::CountList(cmp, xs, ys) => {
                let mut ta = Vec::with_capacity(xs.len());
                for x in xs {
                    ta.push(self.eval(x)?);
                }
                let mut tb = Vec::with_capacity(ys.len());
                for y in ys {
                    tb.push(self.eval(y)?);
                }
                count_vs_count(n, &ta, &tb, *cmp)
            }
            Ast::Fix(x, gfp, body) => {
                self.fp_evals += 1;
                let mut cur = Tt::constant(n, *gfp);
                // a monotone chain over 2^n assignments stabilises within 2^n + 1 steps
                let cap: u64 = (1u64 << n.min(20)) + 2;
                let mut steps = 0u64;
                loop {
                    steps += 1;
                    self.fp_iters += 1;
                    self.binds.push((x.clone(), Some(cur.clone())));
                    let r = self.eval(body);
                    self.binds.pop();
                    let next = r?;
                    if next == cur {
                        break;
                    }
                    if steps > cap {
                        return Err(EvalError::NonConvergent);
                    }
                    cur = next;
                }
                self.fp_longest = self.fp_longest.max(steps);
                cur
            }
        })
    }

    /// Evaluate `body` with the fixed-point name `x` bound to the table `r` (for the definition check).
    pub fn eval_with(&mut self, body: &Ast, x: &str, r: &Tt) -> Result<Tt, EvalError> {
        self.binds.push((x.to_string(), Some(r.clone())));
        let out = self.eval(body);
        self.binds.pop();
        out
    }
}

/// Evaluate a formula over the universe of its own names (text order). Returns (names, table).
pub fn eval_formula(f: &Ast) -> Result<(Vec<String>, Tt), EvalError> {
    let names = f.names_in_text_order();
    let t = Sem::new(&names).eval(f)?;
    Ok((names, t))
}

#[cfg(test)]
mod tests {
    use super::*;
    use crate::refsyn::parse_text;

    fn tt_of(s: &str) -> (Vec<String>, Tt) {
        eval_formula(&parse_text(s).unwrap()).unwrap()
    }

    #[test]
    fn basics() {
        assert!(tt_of("a | -a").1.is_true());
        assert!(tt_of("a & -a").1.is_false());
        assert!(tt_of("gfp X # X").1.is_true());
        assert!(tt_of("lfp X # X").1.is_false());
        assert!(tt_of("(lfp X # a) <=> a").1.is_true());
        assert!(tt_of("[a,b,c] = 1 <=> ((a & -b & -c) | (-a & b & -c) | (-a & -b & c))").1.is_true());
        assert!(tt_of("[a,b] < [c] <=> (-a & -b & c)").1.is_true());
        assert!(tt_of("(exists a # a & b) <=> b").1.is_true());
        assert!(tt_of("(forall a # a | b) <=> b").1.is_true());
        assert!(tt_of("(a <= b) <=> (b => a)").1.is_true());
        assert!(tt_of("[] >= 0").1.is_true());
        assert!(tt_of("[a] > 18446744073709551615").1.is_false());
        // lfp reaching its value through the quantified iterate
        assert!(tt_of("(lfp X # a | exists b # (b & X)) <=> a").1.is_true());
    }
}
