//! Three-valued (Kleene) evaluation + propagation search: a model enumerator for formulas too
//! large for truth tables (DESIGN.md 2.5). Sound for arbitrary formulas of the supported fragment
//! (unknown never prunes); fast on conjunctions of cardinality constraints.

use crate::refsyn::{Ast, Cmp, Op};
use std::collections::HashMap;

#[derive(Debug, Clone)]
pub enum F {
    Const(bool),
    Var(usize),
    Not(Box<F>),
    Bin(Op, Box<F>, Box<F>),
    Ite(Box<F>, Box<F>, Box<F>),
    CountConst(Cmp, Vec<F>, i128),
    CountList(Cmp, Vec<F>, Vec<F>),
}

#[derive(Debug, Clone)]
pub struct Problem {
    pub names: Vec<String>,
    pub index: HashMap<String, usize>,
    /// the formula is the conjunction of these
    pub conjuncts: Vec<F>,
    /// variables of each conjunct
    pub vars_of: Vec<Vec<usize>>,
    /// conjuncts mentioning each variable
    pub conj_of: Vec<Vec<usize>>,
}

fn compile_f(a: &Ast, index: &mut HashMap<String, usize>, names: &mut Vec<String>) -> Result<F, String> {
    Ok(match a {
        Ast::False => F::Const(false),
        Ast::True => F::Const(true),
        Ast::Var(v) => {
            let i = *index.entry(v.clone()).or_insert_with(|| {
                names.push(v.clone());
                names.len() - 1
            });
            F::Var(i)
        }
        Ast::Not(f) => F::Not(Box::new(compile_f(f, index, names)?)),
        Ast::Bin(op, l, r) => F::Bin(*op, Box::new(compile_f(l, index, names)?), Box::new(compile_f(r, index, names)?)),
        Ast::Ite(c, t, e) => F::Ite(Box::new(compile_f(c, index, names)?), Box::new(compile_f(t, index, names)?), Box::new(compile_f(e, index, names)?)),
        Ast::CountConst(cmp, xs, n) => F::CountConst(*cmp, xs.iter().map(|x| compile_f(x, index, names)).collect::<Result<_, _>>()?, *n as i128),
        Ast::CountList(cmp, xs, ys) => F::CountList(*cmp, xs.iter().map(|x| compile_f(x, index, names)).collect::<Result<_, _>>()?, ys.iter().map(|x| compile_f(x, index, names)).collect::<Result<_, _>>()?),
        Ast::Ref(_) => F::Const(false),
        Ast::Quant(..) | Ast::Fix(..) => return Err("quantifiers / fixed points are outside the three-valued fragment".into()),
    })
}

fn collect_vars(f: &F, out: &mut Vec<usize>) {
    match f {
        F::Const(_) => {}
        F::Var(i) => {
            if !out.contains(i) {
                out.push(*i)
            }
        }
        F::Not(g) => collect_vars(g, out),
        F::Bin(_, a, b) => {
            collect_vars(a, out);
            collect_vars(b, out);
        }
        F::Ite(a, b, c) => {
            collect_vars(a, out);
            collect_vars(b, out);
            collect_vars(c, out);
        }
        F::CountConst(_, xs, _) => xs.iter().for_each(|x| collect_vars(x, out)),
        F::CountList(_, xs, ys) => xs.iter().chain(ys.iter()).for_each(|x| collect_vars(x, out)),
    }
}

/// Flatten the top-level `And` chain (right-nested by the grammar) into conjuncts.
pub fn compile(ast: &Ast) -> Result<Problem, String> {
    let mut parts: Vec<&Ast> = Vec::new();
    let mut cur = ast;
    loop {
        match cur {
            Ast::Bin(Op::And, l, r) => {
                // left side may itself be a conjunction in parentheses
                let mut stack = vec![l.as_ref()];
                while let Some(x) = stack.pop() {
                    if let Ast::Bin(Op::And, a, b) = x {
                        stack.push(b);
                        stack.push(a);
                    } else {
                        parts.push(x);
                    }
                }
                cur = r;
            }
            other => {
                parts.push(other);
                break;
            }
        }
    }
    let mut index = HashMap::new();
    let mut names = Vec::new();
    let mut conjuncts = Vec::new();
    for p in parts {
        conjuncts.push(compile_f(p, &mut index, &mut names)?);
    }
    let mut vars_of = Vec::new();
    let mut conj_of = vec![Vec::new(); names.len()];
    for (ci, c) in conjuncts.iter().enumerate() {
        let mut v = Vec::new();
        collect_vars(c, &mut v);
        for x in &v {
            conj_of[*x].push(ci);
        }
        vars_of.push(v);
    }
    Ok(Problem { names, index, conjuncts, vars_of, conj_of })
}

fn cmp_range(cmp: Cmp, lo_a: i128, hi_a: i128, lo_b: i128, hi_b: i128) -> Option<bool> {
    // a in [lo_a, hi_a], b in [lo_b, hi_b]
    match cmp {
        Cmp::AtMost => {
            if hi_a <= lo_b {
                Some(true)
            } else if lo_a > hi_b {
                Some(false)
            } else {
                None
            }
        }
        Cmp::LessThan => {
            if hi_a < lo_b {
                Some(true)
            } else if lo_a >= hi_b {
                Some(false)
            } else {
                None
            }
        }
        Cmp::AtLeast => cmp_range(Cmp::AtMost, lo_b, hi_b, lo_a, hi_a),
        Cmp::MoreThan => cmp_range(Cmp::LessThan, lo_b, hi_b, lo_a, hi_a),
        Cmp::Exactly => {
            if lo_a == hi_a && lo_b == hi_b && lo_a == lo_b {
                Some(true)
            } else if hi_a < lo_b || hi_b < lo_a {
                Some(false)
            } else {
                None
            }
        }
    }
}

pub fn eval3(f: &F, asg: &[Option<bool>]) -> Option<bool> {
    match f {
        F::Const(b) => Some(*b),
        F::Var(i) => asg[*i],
        F::Not(g) => eval3(g, asg).map(|b| !b),
        F::Bin(op, a, b) => {
            let (x, y) = (eval3(a, asg), eval3(b, asg));
            let and = |x: Option<bool>, y: Option<bool>| match (x, y) {
                (Some(false), _) | (_, Some(false)) => Some(false),
                (Some(true), Some(true)) => Some(true),
                _ => None,
            };
            let not = |x: Option<bool>| x.map(|b| !b);
            let or = |x: Option<bool>, y: Option<bool>| not(and(not(x), not(y)));
            match op {
                Op::And => and(x, y),
                Op::Or => or(x, y),
                Op::Nor => not(or(x, y)),
                Op::Nand => not(and(x, y)),
                Op::Implies => or(not(x), y),
                Op::ImpliesInv => or(not(y), x),
                Op::Xor => match (x, y) {
                    (Some(p), Some(q)) => Some(p != q),
                    _ => None,
                },
                Op::Iff => match (x, y) {
                    (Some(p), Some(q)) => Some(p == q),
                    _ => None,
                },
            }
        }
        F::Ite(c, t, e) => match eval3(c, asg) {
            Some(true) => eval3(t, asg),
            Some(false) => eval3(e, asg),
            None => match (eval3(t, asg), eval3(e, asg)) {
                (Some(p), Some(q)) if p == q => Some(p),
                _ => None,
            },
        },
        F::CountConst(cmp, xs, n) => {
            let (mut t, mut u) = (0i128, 0i128);
            for x in xs {
                match eval3(x, asg) {
                    Some(true) => t += 1,
                    None => u += 1,
                    Some(false) => {}
                }
            }
            cmp_range(*cmp, t, t + u, *n, *n)
        }
        F::CountList(cmp, xs, ys) => {
            let count = |zs: &Vec<F>| {
                let (mut t, mut u) = (0i128, 0i128);
                for z in zs {
                    match eval3(z, asg) {
                        Some(true) => t += 1,
                        None => u += 1,
                        Some(false) => {}
                    }
                }
                (t, t + u)
            };
            let (la, ha) = count(xs);
            let (lb, hb) = count(ys);
            cmp_range(*cmp, la, ha, lb, hb)
        }
    }
}

#[derive(Debug)]
pub enum GiveUp {
    NodeBudget,
    TooManyModels,
}

pub struct Search<'a> {
    p: &'a Problem,
    asg: Vec<Option<bool>>,
    trail: Vec<usize>,
    pub nodes: u64,
    max_nodes: u64,
    max_models: usize,
    pub models: Vec<Vec<Option<bool>>>,
}

impl<'a> Search<'a> {
    pub fn new(p: &'a Problem, max_models: usize, max_nodes: u64) -> Search<'a> {
        Search { p, asg: vec![None; p.names.len()], trail: Vec::new(), nodes: 0, max_nodes, max_models, models: Vec::new() }
    }

    fn assign(&mut self, v: usize, b: bool) {
        self.asg[v] = Some(b);
        self.trail.push(v);
    }

    fn undo_to(&mut self, mark: usize) {
        while self.trail.len() > mark {
            let v = self.trail.pop().unwrap();
            self.asg[v] = None;
        }
    }

    /// returns false on conflict
    fn propagate(&mut self, mut queue: Vec<usize>) -> bool {
        while let Some(ci) = queue.pop() {
            match eval3(&self.p.conjuncts[ci], &self.asg) {
                Some(false) => return false,
                Some(true) => continue,
                None => {}
            }
            let vars: Vec<usize> = self.p.vars_of[ci].iter().filter(|v| self.asg[**v].is_none()).cloned().collect();
            for v in vars {
                if self.asg[v].is_some() {
                    continue;
                }
                self.asg[v] = Some(false);
                let f_bad = eval3(&self.p.conjuncts[ci], &self.asg) == Some(false);
                self.asg[v] = Some(true);
                let t_bad = eval3(&self.p.conjuncts[ci], &self.asg) == Some(false);
                self.asg[v] = None;
                if f_bad && t_bad {
                    return false;
                }
                if f_bad || t_bad {
                    self.assign(v, f_bad);
                    for c2 in &self.p.conj_of[v] {
                        queue.push(*c2);
                    }
                }
            }
        }
        true
    }

    fn dfs(&mut self) -> Result<(), GiveUp> {
        self.nodes += 1;
        if self.nodes > self.max_nodes {
            return Err(GiveUp::NodeBudget);
        }
        // choose a variable from the undecided conjunct with the fewest unassigned variables
        let mut best: Option<(usize, usize)> = None;
        for (ci, c) in self.p.conjuncts.iter().enumerate() {
            match eval3(c, &self.asg) {
                Some(false) => return Ok(()),
                Some(true) => {}
                None => {
                    let free = self.p.vars_of[ci].iter().filter(|v| self.asg[**v].is_none()).count();
                    if free > 0 && best.map(|b| free < b.1).unwrap_or(true) {
                        best = Some((ci, free));
                    }
                }
            }
        }
        let Some((ci, _)) = best else {
            // every conjunct is definitely true: unassigned variables are free
            if self.models.len() >= self.max_models {
                return Err(GiveUp::TooManyModels);
            }
            self.models.push(self.asg.clone());
            return Ok(());
        };
        let v = *self.p.vars_of[ci].iter().find(|v| self.asg[**v].is_none()).unwrap();
        for b in [true, false] {
            let mark = self.trail.len();
            self.assign(v, b);
            if self.propagate(self.p.conj_of[v].clone()) {
                self.dfs()?;
            }
            self.undo_to(mark);
        }
        Ok(())
    }

    /// enumerate all models (partial assignments; None = free variable)
    pub fn run(mut self) -> Result<(Vec<Vec<Option<bool>>>, u64), GiveUp> {
        let all: Vec<usize> = (0..self.p.conjuncts.len()).collect();
        if self.propagate(all) {
            self.dfs()?;
        }
        Ok((self.models, self.nodes))
    }
}

/// Three-valued value of the whole conjunction under a partial assignment given by name;
/// only conjuncts touching an assigned variable are inspected unless `full` is set.
pub fn probe(p: &Problem, assigned: &[(usize, bool)], full: bool) -> Option<bool> {
    let mut asg = vec![None; p.names.len()];
    for (v, b) in assigned {
        asg[*v] = Some(*b);
    }
    let mut all_true = true;
    let conjs: Vec<usize> = if full {
        (0..p.conjuncts.len()).collect()
    } else {
        let mut c: Vec<usize> = assigned.iter().flat_map(|(v, _)| p.conj_of[*v].iter().cloned()).collect();
        c.sort();
        c.dedup();
        all_true = false; // untouched conjuncts are unknown
        c
    };
    for ci in conjs {
        match eval3(&p.conjuncts[ci], &asg) {
            Some(false) => return Some(false),
            Some(true) => {}
            None => all_true = false,
        }
    }
    if all_true {
        Some(true)
    } else {
        None
    }
}

/// Value under a TOTAL assignment (every variable known).
pub fn eval_total(p: &Problem, asg: &[bool]) -> bool {
    let a: Vec<Option<bool>> = asg.iter().map(|b| Some(*b)).collect();
    p.conjuncts.iter().all(|c| eval3(c, &a) == Some(true))
}
