#!/usr/bin/env python3
"""Regenerate /verif/MANIFEST.json from the table below (keeps the file consistent and schema-valid)."""
import json, os, subprocess, sys

HERE = os.path.dirname(os.path.abspath(__file__))
VERIF = os.path.dirname(HERE)

TRUSTED = ("trusted base: the harness's reference model (own tokenizer/parser/truth-table semantics/ROBDD builder, "
           "DESIGN.md section 2), the Rust toolchain, and for CLI checks the OS process interface; only executions "
           "actually produced are judged - bounds are stated in the evidence file")

# id -> (design section, technique, level text)
CHECKS = {
    "C01": ("4/C01", "reference-model monitor: differential evaluation of generated formula texts against independent truth-table semantics",
            "runtime monitoring of 10^5..10^7 generated formulas (every construct and spelling, exhaustive small trees): the engine's diagram is walked under every assignment and compared with an independent semantics; held-on-observed, not a proof"),
    "C02": ("4/C02", "invariant walker + independent canonical-form builder over many construction routes",
            "every function over 3-4 variables (exhaustive) and random larger ones is built by >= 8 independent routes; results must be pairwise ==, hash-equal, == an independently built ROBDD, ordered and reduced"),
    "C03": ("4/C03", "reference-model monitor: exhaustive operand pairs/triples vs bitwise truth-table operations, operand snapshots",
            "all ordered operand pairs over 3 variables x 8 connectives (all triples over 2 variables for ite) under 5 label configurations, plus random larger operands; each call observed through the result diagram"),
    "C04": ("4/C04", "reference-model monitor: quantifier results vs table quantification, support and permutation checks",
            "all functions over 3-4 variables x all short variable lists (incl. repeated, outside support, empty) plus random longer ones"),
    "C05": ("4/C05", "reference-model monitor: popcount arithmetic oracle over operand lists and integer bounds",
            "exhaustive short lists of all 2-variable functions x all relevant bounds (incl. negative, beyond length, near i64 limits) x all comparison kinds, API and language forms"),
    "C06": ("4/C06", "definition-checking monitor: brute-force comparison with every competing (pre/post-)fixed point; logical step counter for termination",
            "generated monotone bodies: the engine's answer must be a fixed point below/above every other (pre/post-)fixed point among all functions over the remaining variables; termination decided on the fixed-point iteration counter"),
    "C07": ("4/C07", "reference-model monitor + cube-shape walker; offline checker over rsbdd -m output",
            "all 65 536 functions over 4 variables plus random larger: model() false iff unsat, single cube, literals within support, implies f; infer() vs table implication; CLI rows counted"),
    "C08": ("4/C08", "differential monitor: engine tokenizer/parser vs independent grammar over exhaustive token sequences and mutated texts",
            "every token sequence up to a length bound over the full token alphabet, exhaustive short character strings, random and mutated texts: accept/reject and tree must agree with the reference grammar"),
    "C09": ("4/C09", "reference-model monitor: free-variable sets, variable lists and diagram labels vs independent binder analysis",
            "binder-heavy generated formulas and exhaustive small binder skeletons: free_vars/vars lists and the labels of the evaluated diagram are compared with the reference analysis"),
    "C10": ("4/C10", "offline checker over captured stdout of the real rsbdd binary (row partition vs reference table)",
            "thousands of real CLI invocations over formulas x filter spellings x channels x orderings x -t/-v/-m/-b: header, disjointness, coverage and row values checked against the reference table"),
    "C11": ("4/C11", "reference-model monitor over orderings (API and CLI), order walker, -r/-o round trip",
            "formulas x orderings (permutation/subset/superset/duplicates/sparse ids): same function by name, listed variables ordered as listed, exported order reproduces the identical table"),
    "C12": ("4/C12", "panic/abort monitor (catch_unwind with classified payloads in-process; exit status and signals for the binary) over hostile inputs and option sets",
            "10^5..10^7 hostile byte strings in-process and thousands of CLI invocations over the option matrix; a panic, abort or signal is a violation, budget/evaluation blow-ups are excluded by the logical step counter"),
    "C13": ("4/C13", "history monitor: fresh-environment replay of every operation, handle snapshots, unique-table walker after each step",
            "random operation histories on one long-lived environment: each result compared with a fresh-environment replay, all earlier handles re-inspected, unique table walked for pointer-sharing and leaf invariants"),
    "C14": ("4/C14", "offline checker: DOT read-back (decision graph / term) vs the diagram / syntax tree it was made from",
            "all functions over 3 variables x 3 filters plus random diagrams and parse trees, through the library and through rsbdd -d/-p: read back and compared"),
    "C15": ("4/C15", "offline checker over generator output: reference parse + independent model enumeration vs n-queens backtracking; probes for large n",
            "real n_queens_gen output for every n up to the enumerable bound is parsed by the reference grammar and its model set compared exactly with an independent n-queens enumerator; larger n by attack-pair / placement probes"),
    "C16": ("4/C16", "offline checker over generator output: reference truth table vs brute-force (maximum) cliques",
            "all digraphs on 3 (4) vertices and random ones on 5-6 x {-u} x {-a} with presentation quirks: models of the emitted formula vs brute-force cliques"),
    "C17": ("4/C17", "offline checker over generator output: independent model enumeration vs sudoku backtracking solver",
            "real sudoku_gen output for r=1,2 (exact, thousands of hint patterns) and r=3 (puzzles with small solution sets, structural probes): decoded model set vs independent solver"),
    "C18": ("4/C18", "offline checker over generator output for every small request, repeated to sample its randomness; brute-force colouring/clique oracle",
            "every (V<=6,E,flags) request repeated, infeasible requests, --convert and --colors on all small graphs: output parsed and compared with the request / brute-force oracle"),
    "C19": ("4/C19", "history monitor: exhaustive BFS over reference set states x next operation against a BTreeSet model",
            "every reachable pair of reference states of two b-bit sets x every next operation (incl. self-aliased operands), memberships re-read after each step; queries must not modify"),
    "C20": ("4/C20", "reference-model monitor: table implication in the filter's direction + order/reduction walker",
            "all functions over <= 4 variables x 3 filters plus random larger ones, API and rsbdd -c: result implied by / implies f, ordered, reduced, within support"),
}

def built():
    """properties whose module is registered in the harness"""
    src = open(os.path.join(VERIF, "harness/src/props/mod.rs")).read()
    return sorted(p for p in CHECKS if ('"%s" =>' % p) in src)

def main():
    have = built()
    hook_commits = []
    kf = os.path.join(VERIF, "HOOK_COMMITS.txt")
    if os.path.exists(kf):
        hook_commits = [l.split()[0] for l in open(kf) if l.strip() and not l.startswith("#")]
    checks = []
    for p in have:
        sec, tech, text = CHECKS[p]
        checks.append({
            "property_id": p,
            "quick_cmd": "./check %s quick" % p,
            "thorough_cmd": "./check %s thorough" % p,
            "evidence_file": "/verif/evidence/%s.json" % p,
            "replay_cmd_template": "./check %s --replay {path}" % p,
            "engine": "vh",
            "level_claimed": {"category": "exploration", "text": text, "design_ref": "DESIGN.md section " + sec},
            "level_note": TRUSTED,
            "technique": "runtime monitoring: " + tech,
        })
    na = [{"property_id": p, "reason": "check not built yet (work in progress; see DESIGN.md section 9)"} for p in sorted(CHECKS) if p not in have]
    m = {
        "version": 1,
        "setup_cmd": "./check --setup",
        "hooks": {
            "guard": "cargo feature `verif` of the rsbdd crate (off by default)",
            "enable": "cargo build --release --offline --workspace --bins --features rsbdd/verif ; the harness depends on rsbdd with features = [\"verif\"]",
            "baseline_off_cmd": "cd /repo && cargo test --workspace --no-fail-fast --offline",
            "source_commits": hook_commits,
            "add_only": True,
        },
        "engines": [{
            "name": "vh",
            "path": "/verif/harness",
            "serves_properties": have,
            "kind_free_text": "Rust harness (one binary) linking the real library with hooks on and driving the real binaries; monitors = reference-model oracles, invariant walkers, offline checkers over captured output",
        }],
        "checks": checks,
        "notes": "All checks are runtime monitors over executions of the real code (DESIGN.md). Exit 0 held / 1 violation / 3 inconclusive. VERIF_SEED seeds every random choice; exhaustive parts do not depend on it.",
        "not_applicable": na,
    }
    json.dump(m, open(os.path.join(VERIF, "MANIFEST.json"), "w"), indent=1)
    print("MANIFEST.json: %d checks, %d not yet claimed" % (len(checks), len(na)))

if __name__ == "__main__":
    main()
