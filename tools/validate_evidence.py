#!/usr/bin/env python3
"""Validate MANIFEST.json and every evidence file against the schemas; report sample counts."""
import json, sys, os, glob
try:
    import jsonschema
except ImportError:
    print("jsonschema not available in this interpreter (use python3-vt)"); sys.exit(2)
ok = True
m = json.load(open('/verif/MANIFEST.json'))
jsonschema.validate(m, json.load(open('/root/.vp/MANIFEST.schema.json')))
es = json.load(open('/root/.vp/EVIDENCE.schema.json'))
d = sys.argv[1] if len(sys.argv) > 1 else '/verif/evidence'
for c in m['checks']:
    p = os.path.join(d, c['property_id'] + '.json')
    if not os.path.exists(p):
        print("MISSING", p); ok = False; continue
    e = json.load(open(p))
    try:
        jsonschema.validate(e, es)
    except Exception as ex:
        print("INVALID", p, str(ex)[:200]); ok = False; continue
    cov = e['coverage']
    print("%s %-8s evals=%-9d nt=%-8d samples=%d wall=%.1fs verdict=%s" % (c['property_id'], e['tier'], cov['evaluations'], cov['distinct_nontrivial'], len(cov['samples']), e['wall_s'], cov.get('verdict')))
sys.exit(0 if ok else 1)
