#!/usr/bin/env bash
# Confirm a sub-agent's seeded change and file it under /verif/seeded/<id>/.
#
#   tools/confirm_seeded.sh <worktree> <id> <property>
#
# Confirms, in scratch copies only:  (1) patch applies to /repo's tree, (2) the repository's own
# test suite still passes with it, (3) the agent's demonstration fails with the change and
# (4) passes without it.  Writes patch.diff, the demonstration files and meta.json.
set -u
WT="$(readlink -f "$1")"; ID="$2"; PROP="$3"
VERIF_DIR="$(cd "$(dirname "${BASH_SOURCE[0]}")/.." && pwd)"
DEST="$VERIF_DIR/seeded/$ID"
mkdir -p "$DEST"
[ -f "$WT/mutant.patch" ] || { echo "no mutant.patch in $WT"; exit 2; }
cp "$WT/mutant.patch" "$DEST/patch.diff"
[ -f "$WT/demo.sh" ] && cp "$WT/demo.sh" "$DEST/demo.sh"
mkdir -p "$DEST/demo"
for f in "$WT"/tests/demo_*.rs "$WT"/demo/* "$WT"/examples/demo_*.rs; do [ -e "$f" ] && cp -r "$f" "$DEST/demo/" ; done 2>/dev/null
rmdir "$DEST/demo" 2>/dev/null

SCR="$(mktemp -d /tmp/vconfirm.XXXXXX)"
rsync -a --exclude target --exclude .git /repo/ "$SCR/src/"
APPLIES=false; TESTS_OK=false; TESTS_SUMMARY=""
if (cd "$SCR/src" && patch -p1 --quiet < "$DEST/patch.diff"); then
  APPLIES=true
  (cd "$SCR/src" && CARGO_TARGET_DIR="$WT/target" cargo test --workspace --no-fail-fast --offline) > "$SCR/tests.log" 2>&1
  TESTS_SUMMARY=$(grep -E "^test result" "$SCR/tests.log" | awk '{p+=$4; f+=$6} END {print p" passed, "f" failed"}')
  if [ "$TESTS_SUMMARY" = "31 passed, 0 failed" ]; then TESTS_OK=true; fi
fi
# demonstration: with the change (worktree as the agent left it), then without
DEMO_WITH=-1; DEMO_WITHOUT=-1
if [ -f "$WT/demo.sh" ]; then
  (cd "$WT" && git apply --check -R mutant.patch 2>/dev/null) || (cd "$WT" && git apply mutant.patch 2>/dev/null)
  timeout 1200 bash "$WT/demo.sh" > "$SCR/demo_with.log" 2>&1; DEMO_WITH=$?
  (cd "$WT" && git apply -R mutant.patch)
  timeout 1200 bash "$WT/demo.sh" > "$SCR/demo_without.log" 2>&1; DEMO_WITHOUT=$?
  (cd "$WT" && git apply mutant.patch)
fi
CONFIRMED=false
if $APPLIES && $TESTS_OK && [ $DEMO_WITH -ne 0 ] && [ $DEMO_WITHOUT -eq 0 ]; then CONFIRMED=true; fi
python3 - "$DEST" "$ID" "$PROP" "$APPLIES" "$TESTS_OK" "$TESTS_SUMMARY" "$DEMO_WITH" "$DEMO_WITHOUT" "$CONFIRMED" "$SCR" <<'EOF'
import json, sys, os
dest, mid, prop, applies, tests_ok, summary, dw, dwo, confirmed, scr = sys.argv[1:]
meta_path = os.path.join(dest, "meta.json")
meta = json.load(open(meta_path)) if os.path.exists(meta_path) else {}
tail = lambda p: open(p, errors="replace").read()[-1500:] if os.path.exists(p) else ""
meta.update({
    "id": mid,
    "breaks_property": prop,
    "source": "independent sub-agent given only the property text and a scratch worktree",
    "confirmed": confirmed == "true",
    "confirmation": {
        "patch_applies_to_repo_tree": applies == "true",
        "existing_test_suite_with_change": summary,
        "demo_exit_with_change": int(dw),
        "demo_exit_without_change": int(dwo),
        "what_i_ran": [
            "rsync /repo -> scratch; patch -p1 < patch.diff; cargo test --workspace --no-fail-fast --offline  (31 baseline tests)",
            "bash demo.sh in the agent's worktree with the change applied (expected: non-zero)",
            "git apply -R mutant.patch; bash demo.sh (expected: 0); git apply mutant.patch",
        ],
        "demo_output_with_change_tail": tail(os.path.join(scr, "demo_with.log")),
    },
})
json.dump(meta, open(meta_path, "w"), indent=1)
print("%s (%s): applies=%s tests=[%s] demo_with=%s demo_without=%s CONFIRMED=%s" % (mid, prop, applies, summary, dw, dwo, confirmed))
EOF
rm -rf "$SCR"
