#!/usr/bin/env bash
# Run checks against a patched scratch copy of /repo (never touches /repo or /verif/evidence).
#
#   tools/trymutant.sh [--tests] [--tier quick|thorough] [--keep] <patch-file> <Cxx> [<Cxx> ...]
#
# --tests : also run the repository's own test suite on the patched copy (must still pass for a
#           mutant to count as "survives the existing tests")
# Prints one line per check:  <patch> <Cxx> CAUGHT|MISSED|INCONCLUSIVE  (and the first VIOLATION line)
set -u
TESTS=0; TIER=quick; KEEP=0
while [ $# -gt 0 ]; do
  case "$1" in
    --tests) TESTS=1; shift ;;
    --tier) TIER="$2"; shift 2 ;;
    --keep) KEEP=1; shift ;;
    *) break ;;
  esac
done
PATCH="$(readlink -f "$1")"; shift
VERIF_DIR="$(cd "$(dirname "${BASH_SOURCE[0]}")/.." && pwd)"
NAME="$(basename "$(dirname "$PATCH")")-$(basename "$PATCH" .diff)-$$"
ROOT="${VMUT_ROOT:-/tmp/vmut}"
SCR="$ROOT/$NAME"
mkdir -p "$ROOT"
rm -rf "$SCR" "$SCR-build" "$SCR-ev"
mkdir -p "$SCR" "$SCR-ev"
rsync -a --exclude target --exclude .git /repo/ "$SCR/"
if ! (cd "$SCR" && patch -p1 --quiet < "$PATCH"); then
  echo "$PATCH: PATCH-DOES-NOT-APPLY"; rm -rf "$SCR" "$SCR-ev"; exit 2
fi
# seed the build directory from the main one so that only the changed crates rebuild
mkdir -p "$SCR-build"
KEY="alt-$(printf '%s' "$SCR" | md5sum | cut -c1-12)"
if [ -d "$VERIF_DIR/.build/repo" ]; then
  mkdir -p "$SCR-build/$KEY"
  cp -a "$VERIF_DIR/.build/repo/repo-target" "$VERIF_DIR/.build/repo/harness-target" "$SCR-build/$KEY/" 2>/dev/null
fi
if [ $TESTS -eq 1 ]; then
  if (cd "$SCR" && CARGO_TARGET_DIR="$SCR-build/test-target" cargo test --workspace --no-fail-fast --offline) > "$SCR-ev/tests.log" 2>&1; then
    P=$(grep -E "^test result" "$SCR-ev/tests.log" | awk '{p+=$4; f+=$6} END {print p" passed "f" failed"}')
    echo "$PATCH: existing tests: $P"
  else
    P=$(grep -E "^test result" "$SCR-ev/tests.log" | awk '{p+=$4; f+=$6} END {print p" passed "f" failed"}')
    echo "$PATCH: existing tests FAIL or do not build ($P) — not a surviving mutant"
    grep -E "^error|FAILED|panicked" "$SCR-ev/tests.log" | head -5
  fi
fi
for P in "$@"; do
  OUT="$SCR-ev/$P.out"
  VERIF_REPO="$SCR" VERIF_BUILD_DIR="$SCR-build" VERIF_EVIDENCE_DIR="$SCR-ev" "$VERIF_DIR/check" "$P" "$TIER" > "$OUT" 2>&1
  RC=$?
  case $RC in
    0) echo "$PATCH $P MISSED ($(tail -n 1 "$OUT" | cut -c1-120))" ;;
    1) echo "$PATCH $P CAUGHT: $(grep -m1 -A2 '^VIOLATION' "$OUT" | tr '\n' ' ' | cut -c1-300)" ;;
    *) echo "$PATCH $P INCONCLUSIVE: $(grep -m2 -E 'INCONCLUSIVE|BUILD-FAILED|^error' "$OUT" | tr '\n' ' ' | cut -c1-300)" ;;
  esac
done
if [ $KEEP -eq 0 ]; then rm -rf "$SCR" "$SCR-build" "$SCR-ev"; else echo "kept: $SCR $SCR-build $SCR-ev"; fi
