//! Miri tripwire (thorough tier of C13 / C19): a small deterministic history over BDDEnv<usize>
//! and BDDSet with truth-table / BTreeSet oracles compiled in, interpreted by Miri.
//! The workspace forbids `unsafe`, so this can only fire if a change introduces unsafe code
//! (pointer-keyed tables, Rc::from_raw, ...) or provokes UB in std. It avoids the parser (the
//! tokenizer regex alone costs more than a minute under Miri).
//!
//! Prints `MIRI-SMOKE ops=<n> mismatches=<m>`; exit 1 on an oracle mismatch.

use rsbdd::bdd::{BDDEnv, BDD};
use rsbdd::set::BDDSet;
use std::collections::BTreeSet;
use std::rc::Rc;

type D = Rc<BDD<usize>>;

const LABELS: [usize; 4] = [0, 3, 7, usize::MAX];

fn table(d: &D) -> u16 {
    // value under all 16 assignments of the 4 labels
    let mut t = 0u16;
    for a in 0..16u16 {
        let mut cur = Rc::clone(d);
        loop {
            let next = match cur.as_ref() {
                BDD::True => {
                    t |= 1 << a;
                    break;
                }
                BDD::False => break,
                BDD::Choice(hi, s, lo) => {
                    let i = LABELS.iter().position(|l| l == s).expect("known label");
                    if (a >> i) & 1 == 1 {
                        Rc::clone(hi)
                    } else {
                        Rc::clone(lo)
                    }
                }
            };
            cur = next;
        }
    }
    t
}

fn var_table(i: usize) -> u16 {
    let mut t = 0u16;
    for a in 0..16u16 {
        if (a >> i) & 1 == 1 {
            t |= 1 << a;
        }
    }
    t
}

fn exists_table(t: u16, i: usize) -> u16 {
    let mut r = 0u16;
    for a in 0..16u16 {
        let a0 = a & !(1 << i);
        let a1 = a | (1 << i);
        if (t >> a0) & 1 == 1 || (t >> a1) & 1 == 1 {
            r |= 1 << a;
        }
    }
    r
}

fn main() {
    let mut seed: u64 = std::env::args().nth(1).and_then(|s| s.parse().ok()).unwrap_or(1);
    let mut next = move |n: u64| -> u64 {
        seed = seed.wrapping_mul(6364136223846793005).wrapping_add(1442695040888963407);
        (seed >> 33) % n
    };
    let ops: usize = std::env::args().nth(2).and_then(|s| s.parse().ok()).unwrap_or(120);
    let mut mismatches = 0u64;
    let mut done = 0u64;

    // ---- environment history
    let env: BDDEnv<usize> = BDDEnv::new();
    let mut pool: Vec<(D, u16)> = Vec::new();
    for (i, l) in LABELS.iter().enumerate() {
        pool.push((env.var(*l), var_table(i)));
    }
    pool.push((env.mk_const(true), 0xffff));
    pool.push((env.mk_const(false), 0));
    for _ in 0..ops {
        let a = pool[next(pool.len() as u64) as usize].clone();
        let b = pool[next(pool.len() as u64) as usize].clone();
        let (d, want) = match next(9) {
            0 => (env.and(a.0, b.0), a.1 & b.1),
            1 => (env.or(a.0, b.0), a.1 | b.1),
            2 => (env.xor(a.0, b.0), a.1 ^ b.1),
            3 => (env.not(a.0), !a.1),
            4 => (env.implies(a.0, b.0), !a.1 | b.1),
            5 => {
                let i = next(4) as usize;
                (env.exists(vec![LABELS[i]], a.0), exists_table(a.1, i))
            }
            6 => {
                let c = pool[next(pool.len() as u64) as usize].clone();
                (env.ite(a.0, b.0, c.0), (a.1 & b.1) | (!a.1 & c.1))
            }
            7 => {
                let m = env.model(Rc::clone(&a.0));
                let mt = table(&m);
                // a model implies its function and is empty only for the empty function
                if mt & !a.1 != 0 || (mt == 0) != (a.1 == 0) {
                    mismatches += 1;
                }
                (m, mt)
            }
            _ => {
                let bb = Rc::clone(&b.0);
                (env.fp(a.0, |r| env.or(r, Rc::clone(&bb))), a.1 | b.1)
            }
        };
        done += 1;
        if table(&d) != want {
            mismatches += 1;
        }
        pool.push((d, want));
    }
    // earlier handles still denote what they denoted
    for (d, t) in &pool {
        if table(d) != *t {
            mismatches += 1;
        }
    }
    // every node in the unique table is keyed by its own structure
    for (k, v) in env.nodes.borrow().iter() {
        if k != v.as_ref() {
            mismatches += 1;
        }
    }

    // ---- set history (two 3-bit sets sharing one environment)
    let senv = Rc::new(BDDEnv::new());
    let sets = [BDDSet::with_env(3, &senv), BDDSet::with_env(3, &senv)];
    let mut refs: [BTreeSet<usize>; 2] = [BTreeSet::new(), BTreeSet::new()];
    for _ in 0..(ops / 3) {
        let w = next(2) as usize;
        let o = next(2) as usize;
        match next(6) {
            0 => {
                let x = next(8) as usize;
                sets[w].insert(x);
                refs[w].insert(x);
            }
            1 => {
                sets[w].union(&sets[o]);
                let other = refs[o].clone();
                refs[w].extend(other);
            }
            2 => {
                sets[w].intersect(&sets[o]);
                let other = refs[o].clone();
                refs[w].retain(|x| other.contains(x));
            }
            3 => {
                sets[w].complement(&sets[o]);
                let other = refs[o].clone();
                refs[w].retain(|x| !other.contains(x));
            }
            4 => {
                if next(4) == 0 {
                    sets[w].empty();
                    refs[w].clear();
                }
            }
            _ => {
                if next(4) == 0 {
                    sets[w].universe();
                    refs[w] = (0..8).collect();
                }
            }
        }
        done += 1;
        for s in 0..2 {
            for x in 0..8usize {
                if sets[s].contains(x) != refs[s].contains(&x) {
                    mismatches += 1;
                }
            }
        }
    }
    println!("MIRI-SMOKE ops={} mismatches={}", done, mismatches);
    if mismatches > 0 {
        std::process::exit(1);
    }
}
