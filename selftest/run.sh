#!/usr/bin/env bash
# Mutation self-test: proves that each monitor fires on realistic, test-passing slips and stays
# silent on the unchanged tree.
#
#   selftest/run.sh [--jobs N] [--tier quick|thorough] [--tests] [--only <name-substring>] [--seeded]
#
# For every patch of selftest/patches (hand-written catalogue, see make_patches.py) — and with
# --seeded every confirmed seeded/<id>/patch.diff — a scratch copy of /repo is patched and the
# checks listed in catalogue.json / meta.json are run against it with VERIF_REPO=<scratch>.
# Results: selftest/results-<tier>.txt (one line per patch x check).
set -u
HERE="$(cd "$(dirname "${BASH_SOURCE[0]}")" && pwd)"
VERIF="$(dirname "$HERE")"
JOBS=3; TIER=quick; TESTS=""; ONLY=""; SEEDED=0
while [ $# -gt 0 ]; do
  case "$1" in
    --jobs) JOBS="$2"; shift 2 ;;
    --tier) TIER="$2"; shift 2 ;;
    --tests) TESTS="--tests"; shift ;;
    --only) ONLY="$2"; shift 2 ;;
    --seeded) SEEDED=1; shift ;;
    *) echo "unknown option $1"; exit 2 ;;
  esac
done
python3 "$HERE/make_patches.py" >/dev/null || { echo "catalogue does not apply to the current tree"; exit 2; }
LIST="$(mktemp)"
python3 - "$HERE" "$VERIF" "$SEEDED" "$ONLY" > "$LIST" <<'EOF'
import json, os, sys
here, verif, seeded, only = sys.argv[1:]
for e in json.load(open(os.path.join(here, "catalogue.json"))):
    if only and only not in e["name"]: continue
    print(os.path.join(here, "patches", e["name"] + ".diff"), " ".join(e["expected_to_be_caught_by"]))
if seeded == "1":
    sd = os.path.join(verif, "seeded")
    for d in sorted(os.listdir(sd)):
        mp = os.path.join(sd, d, "meta.json")
        if not os.path.exists(mp): continue
        m = json.load(open(mp))
        if only and only not in d: continue
        if not m.get("confirmed"): continue
        props = m.get("checks_to_run") or [m["breaks_property"]]
        print(os.path.join(sd, d, "patch.diff"), " ".join(props))
EOF
OUT="$HERE/results-$TIER.txt"
: > "$OUT.tmp"
# shellcheck disable=SC2086
xargs -a "$LIST" -P "$JOBS" -L 1 bash -c '"$0"/tools/trymutant.sh '"$TESTS"' --tier '"$TIER"' "$@"' "$VERIF" >> "$OUT.tmp" 2>&1
sort "$OUT.tmp" > "$OUT"; rm -f "$OUT.tmp" "$LIST"
echo "caught: $(grep -c ' CAUGHT' "$OUT")  missed: $(grep -c ' MISSED' "$OUT")  inconclusive: $(grep -c ' INCONCLUSIVE' "$OUT")"
grep -E ' MISSED| INCONCLUSIVE|FAIL|DOES-NOT-APPLY' "$OUT" | cut -c1-220
