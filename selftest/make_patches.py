#!/usr/bin/env python3
"""Generate the hand-written mutation catalogue as unified diffs against /repo's current tree.

Each entry: (name, properties expected to catch it, file, old text, new text, what it is).
Run: python3 selftest/make_patches.py   (rewrites selftest/patches/*.diff and selftest/catalogue.json)
"""
import difflib, json, os, sys

REPO = os.environ.get("VERIF_REPO", "/repo")
HERE = os.path.dirname(os.path.abspath(__file__))

M = []
def m(name, props, file, old, new, what):
    M.append((name, props, file, old, new, what))

# ---------------------------------------------------------------- parser.rs (language level)
m("lt-as-leq", ["C01", "C05"], "src/parser.rs",
  "CountableOperator::LessThan => self.env.amn(&branches, n - 1),",
  "CountableOperator::LessThan => self.env.amn(&branches, n),",
  "`[..] < n` evaluated as `<= n`")
m("gt-as-geq", ["C01", "C05"], "src/parser.rs",
  "CountableOperator::MoreThan => self.env.aln(&branches, n.saturating_add(1)),",
  "CountableOperator::MoreThan => self.env.aln(&branches, n),",
  "`[..] > n` evaluated as `>= n`")
m("impliesinv-as-implies", ["C01"], "src/parser.rs",
  "BinaryOperator::ImpliesInv => self.env.implies(r, l),",
  "BinaryOperator::ImpliesInv => self.env.implies(l, r),",
  "`a <= b` evaluated as `a => b`")
m("var-is-free-ignores-else", ["C09"], "src/parser.rs",
  "self.var_is_free(a, var) || self.var_is_free(b, var) || self.var_is_free(c, var)",
  "self.var_is_free(a, var) || self.var_is_free(b, var)",
  "free-variable analysis ignores the else arm of ite")
m("fixedpoint-not-a-binder", ["C09"], "src/parser.rs",
  "SymbolicBDD::FixedPoint(v, _, f) => v != var && self.var_is_free(f, var),",
  "SymbolicBDD::FixedPoint(_v, _, f) => self.var_is_free(f, var),",
  "fixed-point name not treated as bound in free-variable analysis")
m("replace-var-no-quantifier-shadowing", ["C06", "C01"], "src/parser.rs",
  """                if v.contains(var) {
                    formula.clone()
                } else {""",
  """                if v.is_empty() {
                    formula.clone()
                } else {""",
  "quantifier shadowing of the fixed-point name removed in replace_var")
m("replace-var-skips-count-rhs", ["C06", "C01"], "src/parser.rs",
  """                r.iter()
                    .map(|v| self.replace_var(v, var, replacement))
                    .collect(),
            ),""",
  """                r.clone(),
            ),""",
  "fixed-point variable not substituted in the right-hand list of a counting comparison")
m("count-list-lt-as-leq", ["C01", "C05"], "src/parser.rs",
  "CountableOperator::LessThan => self.env.count_lt(&l_branches, &r_branches),",
  "CountableOperator::LessThan => self.env.count_leq(&l_branches, &r_branches),",
  "`[..] < [..]` evaluated as `<=`")
m("parse-missing-else-tolerated", ["C08"], "src/parser.rs",
  """        expect(SymbolicBDDToken::Else, tokens)?;
        let else_ = Self::parse_sub_formula(tokens)?;""",
  """        let else_ = if expect(SymbolicBDDToken::Else, tokens).is_ok() {
            Self::parse_sub_formula(tokens)?
        } else {
            Self::False
        };""",
  "a missing `else` is accepted (else-branch defaults to false) — consumes a token on failure")
m("tokenizer-leq-before-iff", ["C08", "C01"], "src/parser.rs",
  "(?P<symbol>!|&|=>|-|<=>|<=|",
  "(?P<symbol>!|&|=>|-|<=|<=>|",
  "`<=` listed before `<=>` in the tokenizer: `a<=>b` lexes as `a <= > b`")
m("alias-in-dropped", ["C08", "C01"], "src/parser.rs",
  '"implies" | "in" => result.push(SymbolicBDDToken::Implies),',
  '"implies" => result.push(SymbolicBDDToken::Implies),',
  "alias `in` no longer a keyword (becomes a variable)")
m("ordering-counter-from-len", ["C11"], "src/parser.rs",
  """                if var.id >= var_id_counter {
                    var_id_counter = var.id + 1;
                }""",
  """                var_id_counter += 1;""",
  "fresh variable ids continue from the ordering's length instead of max id + 1")
m("trailing-comma-varlist-rejected", ["C08", "C04"], "src/parser.rs",
  """                    // otherwise expect a comma
                    expect(SymbolicBDDToken::Comma, tokens)?;
                }
            } else {
                break;
            }
        }

        Ok(vars)""",
  """                    // otherwise expect a comma
                    expect(SymbolicBDDToken::Comma, tokens)?;
                    vars.push(Self::parse_variable_name(tokens)?);
                }
            } else {
                break;
            }
        }

        Ok(vars)""",
  "variable lists: a comma must be followed by another variable (trailing comma rejected, odd lists mangled)")

# ---------------------------------------------------------------- bdd.rs (library level)
m("nand-as-not-or", ["C03", "C01"], "src/bdd.rs",
  "self.not(self.and(a, b))\n    }\n\n    /// var constructs",
  "self.not(self.or(a, b))\n    }\n\n    /// var constructs",
  "nand computed as not(or)")
m("xor-missing-not", ["C03", "C01"], "src/bdd.rs",
  "self.and(self.not(Rc::clone(&a)), Rc::clone(&b)),\n            self.and(a, self.not(b)),",
  "self.and(self.not(Rc::clone(&a)), Rc::clone(&b)),\n            self.and(a, b),",
  "xor built with a missing negation (becomes b | a&b = b... wrong)")
m("and-swapped-cofactor", ["C03", "C02", "C01"], "src/bdd.rs",
  """            (BDD::Choice(_, va, _), BDD::Choice(bt, vb, bf)) if vb < va => self.mk_choice(
                self.and(Rc::clone(bt), Rc::clone(&a)),
                vb.clone(),
                self.and(Rc::clone(bf), Rc::clone(&a)),
            ),
            (BDD::Choice(at, va, af), BDD::Choice(bt, vb, bf)) if va == vb => self.mk_choice(
                self.and(Rc::clone(at), Rc::clone(bt)),""",
  """            (BDD::Choice(_, va, _), BDD::Choice(bt, vb, bf)) if vb < va => self.mk_choice(
                self.and(Rc::clone(bf), Rc::clone(&a)),
                vb.clone(),
                self.and(Rc::clone(bt), Rc::clone(&a)),
            ),
            (BDD::Choice(at, va, af), BDD::Choice(bt, vb, bf)) if va == vb => self.mk_choice(
                self.and(Rc::clone(at), Rc::clone(bt)),""",
  "and: cofactors swapped in the arm where the second operand's top variable is smaller")
m("exists-drops-later-vars", ["C04", "C01"], "src/bdd.rs",
  "self.exists_impl(first, self.exists(remainder, b))",
  "if remainder.len() > 2 { self.exists_impl(first, b) } else { self.exists_impl(first, self.exists(remainder, b)) }",
  "exists over lists longer than 3 drops all but the first variable")
m("exists-impl-and-at-node", ["C04", "C01"], "src/bdd.rs",
  "BDD::Choice(t, v, f) if v == s => self.or(Rc::clone(t), Rc::clone(f)),",
  "BDD::Choice(t, v, f) if v == s => if t.is_const() { self.or(Rc::clone(t), Rc::clone(f)) } else { self.and(Rc::clone(t), Rc::clone(f)) },",
  "exists_impl uses and (instead of or) at the quantified node unless its true-child is a leaf")
m("aln-comparator-strict", ["C05", "C01"], "src/bdd.rs",
  "self.cmp_count(branches, n, |n| n <= 0)",
  "self.cmp_count(branches, n, |n| n < 0 || (n == 0 && branches.len() < 4))",
  "at-least-n off by one for lists of length >= 4")
m("count-lt-offset-zero", ["C05"], "src/bdd.rs",
  "self.count_leq_recursive(a, b, 1)",
  "self.count_leq_recursive(a, b, 0)",
  "count_lt behaves as count_leq")
m("count-eq-only-leq", ["C05", "C01"], "src/bdd.rs",
  "self.and(self.count_leq(a, b), self.count_geq(a, b))",
  "if a.len() == b.len() { self.and(self.count_leq(a, b), self.count_geq(a, b)) } else { self.count_leq(a, b) }",
  "count_eq only checks <= when the lists differ in length")
m("fp-one-step-late", ["C06"], "src/bdd.rs",
  """            let snew = t(Rc::clone(&s));
            if snew == s {
                break;
            }
            s = snew;""",
  """            let snew = t(Rc::clone(&s));
            let done = snew == s;
            s = t(snew);
            if done {
                break;
            }""",
  "fp applies the transformer twice per round and returns t(t(s)): wrong element / wrong number of applications")
m("gfp-starts-from-false", ["C06", "C01"], "src/parser.rs",
  "env.fp(env.mk_const(*initial), |x| {",
  "env.fp(env.mk_const(*initial && !matches!(transformer.as_ref(), SymbolicBDD::BinaryOp(BinaryOperator::Or, _, _))), |x| {",
  "gfp whose body is a disjunction starts iterating from false")
m("model-literal-not-negated", ["C07"], "src/bdd.rs",
  "self.and(self.not(self.var(v.clone())), rhs)",
  "if rhs.is_const() { self.and(self.not(self.var(v.clone())), rhs) } else { self.and(self.var(v.clone()), rhs) }",
  "model: else-arm literal not negated when the rest is not a leaf")
m("model-returns-a-when-both-sat", ["C07"], "src/bdd.rs",
  """                if lhs != self.mk_const(false) {
                    self.and(lhs, self.var(v.clone()))""",
  """                if lhs != self.mk_const(false) && rhs != self.mk_const(false) && t.is_choice() && f.is_choice() {
                    self.mk_choice(lhs, v.clone(), rhs)
                } else if lhs != self.mk_const(false) {
                    self.and(lhs, self.var(v.clone()))""",
  "model keeps both branches (not a cube) when both sub-diagrams are internal and satisfiable")
m("infer-on-and", ["C07"], "src/bdd.rs",
  "let ff = self.implies(a, self.var(b));",
  "let ff = self.or(self.not(Rc::clone(&a)), self.and(a, self.var(b)));",
  "harmless rewrite of infer (equivalent) — must NOT be caught")
m("infer-via-eq", ["C07"], "src/bdd.rs",
  "let ff = self.implies(a, self.var(b));",
  "let ff = self.eq(a, self.var(b));",
  "infer built on eq instead of implies")
m("retain-omit-inverted-right", ["C20"], "src/bdd.rs",
  """                            if right.is_true() != filter.is_true() {
                                // omit choice""",
  """                            if right.is_true() == filter.is_true() {
                                // omit choice""",
  "retain: omit test inverted for a constant right child")
m("retain-returns-const", ["C20"], "src/bdd.rs",
  """                                eprintln!("omitted choice {symbol}");
                                right""",
  """                                eprintln!("omitted choice {symbol}");
                                if right.is_choice() && filter.is_false() { left } else { right }""",
  "retain with filter False returns the constant instead of the other child")
m("mk-choice-no-simplify-leaf-children", ["C02", "C13"], "src/bdd.rs",
  "BDD::Choice(t, _, f) if t.as_ref() == f.as_ref() => Rc::clone(t),",
  "BDD::Choice(t, _, f) if t.as_ref() == f.as_ref() && t.is_const() => Rc::clone(t),",
  "simplify only when both children are leaves")
m("not-bypasses-unique-table", ["C13"], "src/bdd.rs",
  "self.mk_choice(self.not(Rc::clone(at)), va.clone(), self.not(Rc::clone(af)))",
  "Rc::new(BDD::Choice(self.not(Rc::clone(at)), va.clone(), self.not(Rc::clone(af))))",
  "not() builds nodes with Rc::new instead of mk_choice (sharing broken, equality intact)")
m("exists-impl-bypasses-unique-table", ["C13"], "src/bdd.rs",
  """            BDD::Choice(t, v, f) => self.mk_choice(
                self.exists_impl(s, Rc::clone(t)),
                v.clone(),
                self.exists_impl(s, Rc::clone(f)),
            ),""",
  """            BDD::Choice(t, v, f) => self.simplify(&Rc::new(BDD::Choice(
                self.exists_impl(s, Rc::clone(t)),
                v.clone(),
                self.exists_impl(s, Rc::clone(f)),
            ))),""",
  "exists_impl rebuilds nodes outside the unique table")
m("new-seeds-one-leaf", ["C13", "C12"], "src/bdd.rs",
  "        nodes.insert(BDD::False, Rc::new(BDD::False));\n",
  "",
  "BDDEnv::new() seeds only the true leaf (the false leaf is missing until first needed -> panic)")

# ---------------------------------------------------------------- set.rs
m("set-union-as-xor", ["C19"], "src/set.rs",
  "self.bdd.replace(self.env.or(_self, _other));",
  "self.bdd.replace(if _self == _other { _self } else { self.env.xor(_self, _other) });",
  "union computed as symmetric difference (wrong when the sets overlap)")
m("set-insert-msb-ignored", ["C19"], "src/set.rs",
  "let new_item = (0..self.bits)",
  "let new_item = (0..self.bits.min(2))",
  "insert only encodes the two low bits (elements >= 4 alias)")

# ---------------------------------------------------------------- bdd_io / parser_io / rsbdd.rs
m("dot-tf-labels-swapped", ["C14"], "src/bdd_io.rs",
  """        if *e {
            dot::LabelText::LabelStr(Cow::Borrowed("T"))
        } else {
            dot::LabelText::LabelStr(Cow::Borrowed("F"))
        }""",
  """        if *e {
            dot::LabelText::LabelStr(Cow::Borrowed("F"))
        } else {
            dot::LabelText::LabelStr(Cow::Borrowed("T"))
        }""",
  "T/F edge labels swapped in the diagram export")
m("dot-filter-keeps-wrong-leaf", ["C14"], "src/bdd_io.rs",
  """                || (self.filter == TruthTableEntry::True && *c == BDD::True)
                || (self.filter == TruthTableEntry::False && *c == BDD::False) =>
            {
                vec![root.clone()].into()""",
  """                || (self.filter == TruthTableEntry::True && *c == BDD::False)
                || (self.filter == TruthTableEntry::False && *c == BDD::True) =>
            {
                vec![root.clone()].into()""",
  "diagram export: filter keeps the wrong leaf node")
m("parsetree-ite-then-else-swapped", ["C14"], "src/parser_io.rs",
  """                            .position(|n| n == t.as_ref())""",
  """                            .position(|n| n == e.as_ref())""",
  "parse-tree export: Then edge points at the else branch")
m("row-padding-by-runtime-width", ["C12"], "src/bin/rsbdd.rs",
  'print!(" {} |", pad_to(&label.to_string(), widths[i]));',
  'print!(" {:indent$} |", label, indent = widths[i]);',
  "table rows padded through a run-time width argument again (panics above u16::MAX: variable names of 65 536 bytes; defect D9 half-reverted)")
m("table-filter-inverted", ["C10", "C07"], "src/bin/rsbdd.rs",
  """            || (filter == TruthTableEntry::True && *c == BDD::True)
            || (filter == TruthTableEntry::False && *c == BDD::False) =>
        {
            print_sized_line(&vars, sizes, c);""",
  """            || (filter == TruthTableEntry::True && *c == BDD::False)
            || (filter == TruthTableEntry::False && *c == BDD::True) =>
        {
            print_sized_line(&vars, sizes, c);""",
  "truth-table filter test inverted")
m("table-subtrees-swapped", ["C10", "C07", "C11", "C20"], "src/bin/rsbdd.rs",
  """            r_vars[parsed.to_free_index(s)] = TruthTableEntry::False;
            print_truth_table_recursive(r, r_vars, filter, parsed, sizes);""",
  """            r_vars[parsed.to_free_index(s)] = TruthTableEntry::True;
            print_truth_table_recursive(r, r_vars, filter, parsed, sizes);""",
  "truth table: the false subtree is printed with the variable marked True")
m("header-from-vars", ["C10"], "src/bin/rsbdd.rs",
  """    let mut headers = input_parsed
        .free_vars""",
  """    let mut headers = input_parsed
        .vars""",
  "table header built from vars instead of free_vars")
m("vars-star-dropped", ["C10"], "src/bin/rsbdd.rs",
  """                } else if *v == TruthTableEntry::Any {
                    vars_str.push(vars[i].clone() + "*");
                }""",
  """                }""",
  "-v output omits don't-care variables (rows no longer cover the satisfying assignments)")

# ---------------------------------------------------------------- generators
m("queens-diag-off-by-one", ["C15"], "n_queens_gen/src/main.rs",
  """    for i in 1..n {
        write!(writer, "[")?;
        for j in 0..(n - i) {
            write!(writer, "v_{},", (i * n) + (j * (n + 1)))?;""",
  """    for i in 2..n {
        write!(writer, "[")?;
        for j in 0..(n - i) {
            write!(writer, "v_{},", (i * n) + (j * (n + 1)))?;""",
  "one diagonal family starts at i = 2: the diagonal below the main one is unconstrained")
m("queens-antidiag-inclusive", ["C15"], "n_queens_gen/src/main.rs",
  """        for j in 0..i {
            write!(writer, "v_{},", n * (n - j) - (i - j))?;""",
  """        for j in 0..=i {
            write!(writer, "v_{},", n * (n - j) - (i - j))?;""",
  "anti-diagonal loop inclusive: one square too many per constraint")
m("clique-complement-keeps-self", ["C16"], "max_clique_gen/src/main.rs",
  "            if v1 != v2 {",
  "            if v1 != v2 || edges.is_empty() {",
  "harmless for non-empty graphs — must NOT be caught on them (sanity mutant)")
m("clique-geq-as-gt", ["C16"], "max_clique_gen/src/main.rs",
  '") => [{}] >= [{}]",',
  '") => [{}] > [{}]",',
  "maximality uses > instead of >= (no clique is maximal against itself)")
m("clique-directed-ignored", ["C16"], "max_clique_gen/src/main.rs",
  "} else if !edges.contains(&(v1.to_string(), v2.to_string())) {",
  "} else if !edges.contains(&(v1.to_string(), v2.to_string())) && !edges.contains(&(v2.to_string(), v1.to_string())) {",
  "without -u an edge in one direction already connects")
m("sudoku-box-stride", ["C17"], "sudoku_gen/src/main.rs",
  "lt + ((l / root) * square + (l % root))",
  "lt + ((l / root) * root + (l % root))",
  "box cells computed with the wrong row stride")
m("sudoku-hints-before-strip", ["C17"], "sudoku_gen/src/main.rs",
  """    let puzzle_input: String = puzzle_input
        .chars()
        .filter(|c| !c.is_whitespace())
        .collect();""",
  """    let puzzle_input: String = puzzle_input
        .chars()
        .filter(|c| *c != ' ' && *c != '\\n')
        .collect();""",
  "only spaces and newlines are ignored in the puzzle text (tabs / CR shift the givens)")
m("graph-take-truncates", ["C18"], "random_graph_gen/src/main.rs",
  """    if let Some(edges) = edges.get(0..num_edges) {
        Ok(edges.to_vec())
    } else {""",
  """    if !edges.is_empty() || num_edges == 0 {
        Ok(edges.into_iter().take(num_edges).collect())
    } else {""",
  "infeasible edge counts are silently truncated")
m("graph-undirected-from-i", ["C18"], "random_graph_gen/src/main.rs",
  "if let Some(vertices) = vertices.get((i + 1)..) {\n                for v2 in vertices.iter() {\n                    edges.push((v1.clone(), v2.clone()));",
  "if let Some(vertices) = vertices.get(i..) {\n                for v2 in vertices.iter() {\n                    edges.push((v1.clone(), v2.clone()));",
  "undirected enumeration starts at i: self-loops become candidate edges")
m("colors-edge-condition-or", ["C18"], "random_graph_gen/src/main.rs",
  """                        || (!edges.contains(&(ov1.clone(), ov2.clone()))
                            && !edges.contains(&(ov2.clone(), ov1.clone()))))""",
  """                        || (!edges.contains(&(ov1.clone(), ov2.clone()))
                            || !edges.contains(&(ov2.clone(), ov1.clone()))))""",
  "colouring reduction: same-colour copies are joined unless BOTH orientations are present")

def main():
    outdir = os.path.join(HERE, "patches")
    os.makedirs(outdir, exist_ok=True)
    for f in os.listdir(outdir):
        os.remove(os.path.join(outdir, f))
    cat = []
    bad = 0
    for name, props, file, old, new, what in M:
        src = open(os.path.join(REPO, file)).read()
        if src.count(old) != 1:
            print("!! %s: anchor occurs %d times in %s" % (name, src.count(old), file)); bad += 1; continue
        dst = src.replace(old, new)
        diff = "".join(difflib.unified_diff(src.splitlines(True), dst.splitlines(True), "a/" + file, "b/" + file))
        open(os.path.join(outdir, name + ".diff"), "w").write(diff)
        cat.append({"name": name, "expected_to_be_caught_by": props, "file": file, "what": what})
    json.dump(cat, open(os.path.join(HERE, "catalogue.json"), "w"), indent=1)
    print("%d patches written, %d anchors not found" % (len(cat), bad))
    sys.exit(1 if bad else 0)

main()
