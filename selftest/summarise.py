#!/usr/bin/env python3
"""Summarise selftest/results-<tier>.txt as a markdown table."""
import json, os, re, sys
here = os.path.dirname(os.path.abspath(__file__))
tier = sys.argv[1] if len(sys.argv) > 1 else "quick"
cat = {e["name"]: e for e in json.load(open(os.path.join(here, "catalogue.json")))}
rows = {}
for line in open(os.path.join(here, "results-%s.txt" % tier)):
    m = re.match(r"\S*?([^/ ]+)\.diff[: ]+(.*)", line)
    if not m: continue
    name, rest = m.group(1), m.group(2)
    r = rows.setdefault(name, {"tests": "?", "checks": {}})
    if rest.startswith("existing tests"):
        r["tests"] = "killed by the suite" if "FAIL" in rest else "survives the suite"
    else:
        mm = re.match(r"(C\d\d) (CAUGHT|MISSED|INCONCLUSIVE)", rest)
        if mm: r["checks"][mm.group(1)] = mm.group(2).lower()
print("| mutant | what | existing tests | checks |")
print("|---|---|---|---|")
for name in sorted(rows):
    r = rows[name]
    what = cat.get(name, {}).get("what", "")
    print("| %s | %s | %s | %s |" % (name, what, r["tests"], ", ".join("%s %s" % kv for kv in sorted(r["checks"].items()))))
